"""C16 — demes graphs and native dadi models give the same spectrum in any units or order.

Static theorems: coq/theories/Props/C16.v (model: coq/theories/Model/DemesFront.v).
Per run:
  (0) translator obligations: the keyword wiring of the five dadi.Integration calls in Demes._integrate_phi (which nu / M /
      frozen / gamma / h entry reaches which parameter) and the Demes events recorded by the PhiManip pulse functions are
      re-extracted from the current source (fail closed) and compared with the expected descriptors (Coq: reflexivity);
      every closure of dadi/Demes/Demes.py and DemesUtil.py (the per-deme size functions of _make_nu_func) may read only names
      of the enclosing function that are bound once and outside loops - per-deme values must enter as default arguments
      (late_bound_closures: a value hoisted out of the lambda into a loop variable is shared by all size functions of the epoch);
  (1) call-log correspondence: dadi.Spectrum.from_demes runs on generated graphs with every dadi.PhiManip.* /
      dadi.Integration.* / Spectrum.from_phi call logged; the resolved graph (as `demes` resolves it) and the discrete events
      `demes` reports go to the Coq model, whose program is compared with the logged one inside Coq (function, deme labels,
      integer arguments, frozen flags exactly; T, nu, m, proportions at 1e-12; every logged size FUNCTION by value at the five
      times 0, T/4, T/2, 3T/4, T against the model's size function of that population);
      the generator contains, on every run, integration epochs in which 2 and 3 demes ALL change size with pairwise different
      parameters (c16_gen.sizefn_family: linear/linear, linear/exponential, exponential/exponential, linear next to constant,
      ..., directions alternating, epochs aligned and staggered; coverage is an obligation), each with a hand-written native
      program; a size function handed to an integrator that is not positive somewhere in [0, T] (17 probe times) is reported as
      an error of that run before the integrator is entered (its time step would collapse and the run never end), and every
      unit of work of the driver has a wall-clock limit - both are failing inputs, never a reason to stop the check;
      the conclusion of frozen_flags_wired is evaluated on every logged integration call;
  (2) numeric invariances on the implementation (1e-9 relative to the largest entry): years vs generations, rescaling by c,
      sampled demes in another order, the (source, proportion) pairs of multi-source pulses listed in another order, ancient
      sample vs explicit frozen branch, hand-written native models vs from_demes; and for EVERY graph "from_demes = the
      equivalent native dadi model": the model's program for that graph (identity wiring; written out by Coq, dump_progs) is
      executed call by call with dadi.PhiManip / dadi.Integration / from_phi and its spectrum compared with from_demes - so a
      graph on which the importer's call sequence leaves the model is itself the failing input;
  (3) export round trip: random native programs (1-5 populations) run with the event log on, exported with
      dadi.Demes.output and re-imported with from_demes; programs compared call by call after relabelling, spectra at 1e-8;
      fixed programs with one integration in which 2..5 populations change size with pairwise different parameters
      (sizefn_programs: linear/linear, linear/exponential, exponential/exponential, linear next to constant populations, which
      Demes.output labels `linear`);
      the YAML files of /repo/tests/demes.
"""
import ast, itertools, json, math, os
from fractions import Fraction
from harness import lib
from harness.lib import q, ql, b, bl, natl
from harness.props import c16_gen as G
from harness.props import c16_export as XM
from harness.props import c16_types as TY

INF = float('inf')
TOL = Fraction(1, 10 ** 12)
DEMES_PY = os.path.join(lib.REPO, 'dadi', 'Demes', 'Demes.py')
UTIL_PY = os.path.join(lib.REPO, 'dadi', 'Demes', 'DemesUtil.py')
INTEG_PY = os.path.join(lib.REPO, 'dadi', 'Integration.py')
PHIMANIP_PY = os.path.join(lib.REPO, 'dadi', 'PhiManip.py')
TESTS_DEMES = os.path.join(lib.REPO, 'tests', 'demes')

HEADER = ('From Coq Require Import ZArith QArith List.\n'
          'From Dadi Require Import Base.Num Base.NumQ Model.DemesFront Model.DemesFrontCheck.\n'
          'Import ListNotations.\nOpen Scope Q_scope.')

INTEG = ['one_pop', 'two_pops', 'three_pops', 'four_pops', 'five_pops']
PULSES = {2: ['phi_2D_admix_2_into_1', 'phi_2D_admix_1_into_2'],
          3: ['phi_3D_admix_2_and_3_into_1', 'phi_3D_admix_1_and_3_into_2', 'phi_3D_admix_1_and_2_into_3'],
          4: ['phi_4D_admix_into_1', 'phi_4D_admix_into_2', 'phi_4D_admix_into_3', 'phi_4D_admix_into_4'],
          5: ['phi_5D_admix_into_1', 'phi_5D_admix_into_2', 'phi_5D_admix_into_3', 'phi_5D_admix_into_4', 'phi_5D_admix_into_5']}
PULSE_OF = {n: (d, k + 1) for d, l in PULSES.items() for k, n in enumerate(l)}
FN = {'phi_1D': 'F_phi_1D', 'one_pop': 'F_one_pop', 'two_pops': 'F_two_pops', 'three_pops': 'F_three_pops',
      'four_pops': 'F_four_pops', 'five_pops': 'F_five_pops', 'phi_1D_to_2D': 'F_phi_1D_to_2D',
      'phi_2D_to_3D_split_1': 'F_split_1', 'phi_2D_to_3D_split_2': 'F_split_2', 'phi_2D_to_3D_admix': 'F_2D_to_3D_admix',
      'phi_3D_to_4D': 'F_3D_to_4D', 'phi_4D_to_5D': 'F_4D_to_5D', 'remove_pop': 'F_remove_pop',
      'reorder_pops': 'F_reorder_pops', 'from_phi': 'F_from_phi'}

KEY_FROZEN = 'integrate_phi:frozen%d-wired-to-frozen[%d]'
KEY_RENAME = 'augment:renamed-deme-leaves-dangling-ancestor'
KEY_SLICE_LINEAR = 'slice:_size_at-has-no-linear-branch'
KEY_FROZEN_SIZE = 'augment:frozen-branch-size-is-a-literal'
KEY_INIT_PHI = 'compute_sfs:initial-phi-ignores-root-size'
KEY_EXPORT_ADMIX = 'export:admixed-population-reimported-as-merger'

# ---------------------------------------------------------------------------------------------------------------
# (0) translators (fail closed)

class Refuse(Exception):
    pass

def _func(tree, name):
    for n in tree.body:
        if isinstance(n, ast.FunctionDef) and n.name == name:
            return n
    raise Refuse('function %s not found' % name)

def _const_int(n):
    if isinstance(n, ast.Constant) and isinstance(n.value, int) and not isinstance(n.value, bool):
        return n.value
    raise Refuse('expected an integer literal, got %s' % ast.dump(n)[:80])

def _subscript(n):
    """nu[0] -> ('nu', (0,)) ; M[0,1] -> ('M', (0, 1))"""
    if not (isinstance(n, ast.Subscript) and isinstance(n.value, ast.Name)):
        raise Refuse('expected name[index], got %s' % ast.dump(n)[:80])
    sl = n.slice
    if isinstance(sl, ast.Tuple):
        return n.value.id, tuple(_const_int(e) for e in sl.elts)
    return n.value.id, (_const_int(sl),)

def extract_wiring():
    """{d: {'fn': name, 'nu': [...], 'm': [(a, b)...] in the order m12, m13, ..., 'frozen': [...], 'gamma': [...], 'h': [...]}}"""
    tree = ast.parse(open(DEMES_PY).read())
    itree = ast.parse(open(INTEG_PY).read())
    fn = _func(tree, '_integrate_phi')
    ifs = [n for n in fn.body if isinstance(n, ast.If)]
    if len(ifs) != 1:
        raise Refuse('_integrate_phi: expected one if/elif chain')
    node = ifs[0]
    out = {}
    while node is not None:
        t = node.test
        if not (isinstance(t, ast.Compare) and len(t.ops) == 1 and isinstance(t.ops[0], ast.Eq) and isinstance(t.left, ast.Call)
                and getattr(t.left.func, 'id', None) == 'len' and getattr(t.left.args[0], 'id', None) == 'pop_ids'):
            raise Refuse('_integrate_phi: unexpected test %s' % ast.dump(t)[:100])
        d = _const_int(t.comparators[0])
        if len(node.body) != 1 or not isinstance(node.body[0], ast.Assign) or not isinstance(node.body[0].value, ast.Call):
            raise Refuse('_integrate_phi: branch %d is not a single call' % d)
        call = node.body[0].value
        f = call.func
        if not (isinstance(f, ast.Attribute) and isinstance(f.value, ast.Attribute) and f.value.attr == 'Integration'
                and getattr(f.value.value, 'id', None) == 'dadi'):
            raise Refuse('_integrate_phi: branch %d does not call dadi.Integration.*' % d)
        params = [a.arg for a in _func(itree, f.attr).args.args]
        bound = {}
        for p, a in zip(params, call.args):
            bound[p] = a
        for kw in call.keywords:
            if kw.arg is None or kw.arg in bound:
                raise Refuse('branch %d: bad keyword' % d)
            if kw.arg not in params:
                raise Refuse('branch %d: %s is not a parameter of %s' % (d, kw.arg, f.attr))
            bound[kw.arg] = kw.value
        for p, nm in (('phi', 'phi'), ('xx', 'xx'), ('T', 'T')):
            if getattr(bound.get(p), 'id', None) != nm:
                raise Refuse('branch %d: %s is not passed as %s' % (d, nm, p))
        if getattr(bound.get('deme_ids'), 'id', None) != 'pop_ids':
            raise Refuse('branch %d: deme_ids is not pop_ids' % d)
        def get(base, k, src, nidx):
            key = base if d == 1 else '%s%s' % (base, k)
            if key not in bound:
                raise Refuse('branch %d: parameter %s is not passed' % (d, key))
            nm, idx = _subscript(bound[key])
            if nm != src or len(idx) != nidx:
                raise Refuse('branch %d: %s does not come from %s' % (d, key, src))
            return idx
        w = {'fn': f.attr, 'nu': [get('nu', k + 1, 'nu', 1)[0] for k in range(d)],
             'frozen': [get('frozen', k + 1, 'frozen', 1)[0] for k in range(d)],
             'gamma': [get('gamma', k + 1, 'gamma', 1)[0] for k in range(d)],
             'h': [get('h', k + 1, 'h', 1)[0] for k in range(d)],
             'm': [get('m', '%d%d' % (a + 1, bb + 1), 'M', 2) for a in range(d) for bb in range(d) if a != bb] if d > 1 else []}
        if getattr(bound.get('theta0'), 'id', None) != 'theta':
            raise Refuse('branch %d: theta0 is not theta' % d)
        extra = set(bound) - {'phi', 'xx', 'T', 'deme_ids', 'theta0', 'initial_t'} - \
            {k for k in bound if k.rstrip('0123456789') in ('nu', 'frozen', 'gamma', 'h', 'm')}
        if extra:
            raise Refuse('branch %d: unexpected parameters %s' % (d, sorted(extra)))
        out[d] = w
        nxt = node.orelse
        node = nxt[0] if len(nxt) == 1 and isinstance(nxt[0], ast.If) else None
    if sorted(out) != [1, 2, 3, 4, 5]:
        raise Refuse('_integrate_phi: branches for %s' % sorted(out))
    for d in out:
        if out[d]['fn'] != INTEG[d - 1]:
            raise Refuse('branch %d calls %s' % (d, out[d]['fn']))
    return out

def wiring_coq(w):
    return '[' + '; '.join('mkWiring %s [%s] %s' % (natl(w[d]['nu']), '; '.join('(%d, %d)%%nat' % ab for ab in w[d]['m']),
                                                    natl(w[d]['frozen'])) for d in range(1, 6)) + ']'

def extract_pulse_events():
    """for every PhiManip pulse function: the Demes.Pulse(sources=, dest=, proportions=) it appends to the event log
    (None when it records nothing), with the proportion parameter names"""
    tree = ast.parse(open(PHIMANIP_PY).read())
    out = {}
    for name in PULSE_OF:
        fn = _func(tree, name)
        params = [a.arg for a in fn.args.args]
        rec = None
        for node in ast.walk(fn):
            if (isinstance(node, ast.Call) and isinstance(node.func, ast.Attribute) and node.func.attr == 'append'
                    and isinstance(node.func.value, ast.Attribute) and node.func.value.attr == 'cache'):
                ev = node.args[0]
                if not (isinstance(ev, ast.Call) and getattr(ev.func, 'attr', None) == 'Pulse'):
                    raise Refuse('%s appends something else than Demes.Pulse' % name)
                kw = {k.arg: k.value for k in ev.keywords}
                if set(kw) != {'sources', 'dest', 'proportions'}:
                    raise Refuse('%s: Pulse(%s)' % (name, sorted(kw)))
                if rec is not None:
                    raise Refuse('%s records two events' % name)
                rec = {'sources': [_const_int(e) for e in kw['sources'].elts], 'dest': _const_int(kw['dest']),
                       'proportions': [getattr(e, 'id', None) for e in kw['proportions'].elts]}
        out[name] = {'params': params, 'event': rec}
    return out

def expected_pulse_event(name, params):
    d, dest = PULSE_OF[name]
    fs = [p for p in params if p.startswith('f')]
    srcs = [k for k in range(1, d + 1) if k != dest]
    return {'sources': srcs, 'dest': dest, 'proportions': fs}

def late_bound_closures(path):
    """[(function, line of the closure, name, why)]: closures (lambda / nested def) whose body reads a local name of the enclosing
    function that is bound inside a loop or more than once.  Python closures look such a name up when they are CALLED: every
    size function built in one pass of `for s in sizes:` would see the value of the LAST pass.  Names bound as default
    arguments of the closure (`lambda t, N0=s[0]: ...`) are evaluated at the definition and are fine."""
    tree = ast.parse(open(path).read())
    bad = []
    def params(a):
        return {x.arg for x in a.posonlyargs + a.args + a.kwonlyargs} | ({a.vararg.arg} if a.vararg else set()) | ({a.kwarg.arg} if a.kwarg else set())
    for fn in [n for n in ast.walk(tree) if isinstance(n, ast.FunctionDef)]:
        stores = {}          # local name -> [bound inside a loop?] per binding
        closures = []
        def visit(n, loop):
            for ch in ast.iter_child_nodes(n):
                if isinstance(ch, (ast.Lambda, ast.FunctionDef, ast.AsyncFunctionDef)):
                    closures.append(ch)
                    if isinstance(ch, ast.FunctionDef):
                        stores.setdefault(ch.name, []).append(loop)
                    for dflt in ch.args.defaults + [d for d in ch.args.kw_defaults if d is not None]:
                        visit(dflt, loop)
                    continue
                if isinstance(ch, (ast.ListComp, ast.SetComp, ast.DictComp, ast.GeneratorExp, ast.ClassDef)):
                    continue                       # scopes of their own
                if isinstance(ch, ast.Name) and isinstance(ch.ctx, (ast.Store, ast.Del)):
                    stores.setdefault(ch.id, []).append(loop)
                if isinstance(ch, (ast.For, ast.AsyncFor, ast.While)):
                    if isinstance(ch, ast.While):
                        visit(_Wrap(ch.test), True)
                    else:
                        visit(_Wrap(ch.target), True); visit(_Wrap(ch.iter), loop)
                    for st in ch.body + ch.orelse:
                        visit(_Wrap(st), True)
                    continue
                visit(ch, loop)
        visit(fn, False)
        fparams = params(fn.args)
        for c in closures:
            own = params(c.args) | {x.id for x in ast.walk(c) if isinstance(x, ast.Name) and isinstance(x.ctx, ast.Store)}
            body = c.body if isinstance(c.body, list) else [c.body]
            reads = {x.id for b_ in body for x in ast.walk(b_) if isinstance(x, ast.Name) and isinstance(x.ctx, ast.Load)} - own
            for nm in sorted(reads):
                nb = len(stores.get(nm, [])) + (1 if nm in fparams else 0)
                if nm in stores and any(stores[nm]):
                    bad.append((fn.name, c.lineno, nm, 'bound inside a loop'))
                elif nb > 1:
                    bad.append((fn.name, c.lineno, nm, 'bound %d times' % nb))
    return bad

class _Wrap(ast.AST):
    """a node with exactly one child (so that a statement / expression can be visited together with itself)"""
    _fields = ('node',)
    def __init__(self, node):
        self.node = node

def translator_obligations(ctx):
    """returns (wiring or None, {pulse function: recorded event ok?})"""
    wiring = None
    try:
        wiring = extract_wiring()
        ctx.obligation('translate Demes._integrate_phi (keyword wiring of the five integration calls)', True, 'translator')
    except (Refuse, SyntaxError, OSError, IndexError, AttributeError) as e:
        ctx.obligation('translate Demes._integrate_phi (keyword wiring of the five integration calls)', False, 'translator', str(e))
    files = []
    if wiring is not None:
        files.append(('C16_ob_wiring', '\n'.join([
            HEADER,
            'Definition extracted : list wiring := %s.' % wiring_coq(wiring),
            'Lemma ob_wiring_nu_m : map (fun w => (w_nu w, w_m w)) extracted = map (fun w => (w_nu w, w_m w)) std_wirings.',
            'Proof. vm_compute. reflexivity. Qed.', ''])))
        for d in range(1, 6):
            files.append(('C16_ob_frozen%d' % d, '\n'.join([
                HEADER,
                'Definition extracted : list wiring := %s.' % wiring_coq(wiring),
                'Lemma ob_frozen_%d : w_fr (nth %d extracted (std_wiring 0)) = w_fr (std_wiring %d).' % (d, d - 1, d),
                'Proof. vm_compute. reflexivity. Qed.', ''])))
        okgh = all(wiring[d]['gamma'] == list(range(d)) and wiring[d]['h'] == list(range(d)) for d in wiring)
        ctx.obligation('gamma_k / h_k receive gamma[k-1] / h[k-1] in every integration call', okgh, 'translator',
                       '' if okgh else repr({d: (wiring[d]['gamma'], wiring[d]['h']) for d in wiring}))
    for path in (DEMES_PY, UTIL_PY):
        rel = os.path.relpath(path, lib.REPO)
        try:
            lb = late_bound_closures(path)
            ctx.obligation('%s: every closure (size function) reads only names of the enclosing function that are bound once and outside '
                           'loops - per-deme values enter as default arguments' % rel, not lb, 'translator',
                           '; '.join('%s (line %d) reads %s, %s' % x for x in lb[:4]))
        except (SyntaxError, OSError) as e:
            ctx.obligation('%s: closures can be read' % rel, False, 'translator', str(e))
    res = lib.run_case_files(files, timeout=300) if files else {}
    bad_frozen = []
    for n, (rc, so, se, secs) in sorted(res.items()):
        what = ('nu_k <- nu[k-1], m_ab <- M[a-1,b-1] for d = 1..5' if n.endswith('wiring') else
                'frozen_k <- frozen[k-1] for d = %s' % n[-1])
        ctx.obligation('generated obligation %s: %s (reflexivity)' % (n, what), rc == 0, 'translator', se[-300:] if rc else '')
        if rc != 0 and 'frozen' in n:
            d = int(n[-1])
            bad_frozen.append(d)
            mis = [(k + 1, src) for k, src in enumerate(wiring[d]['frozen']) if src != k]
            if mis:
                ctx.obligations[-1]['known_key'] = KEY_FROZEN % mis[0]
    ctx.checker_cmds.append('coqc build/cases/C16_ob_*.v (regenerated from dadi/Demes/Demes.py)')
    pulses_bad = {}
    try:
        pe = extract_pulse_events()
        ctx.obligation('translate the Demes.Pulse events recorded by the 14 PhiManip pulse functions', True, 'translator')
        for name in sorted(pe):
            exp = expected_pulse_event(name, pe[name]['params'])
            ok = pe[name]['event'] == exp
            ctx.obligation('%s records Pulse(sources=%r, dest=%d, proportions=%s)' % (name, exp['sources'], exp['dest'], exp['proportions']),
                           ok, 'translator', '' if ok else 'records %r' % (pe[name]['event'],))
            if not ok:
                pulses_bad[name] = pe[name]['event']
                ctx.obligations[-1]['known_key'] = 'export:%s-%s' % (name, 'records-no-event' if pe[name]['event'] is None else 'records-wrong-event')
    except (Refuse, SyntaxError, OSError, AttributeError) as e:
        ctx.obligation('translate the Demes.Pulse events recorded by the 14 PhiManip pulse functions', False, 'translator', str(e))
    return wiring, bad_frozen, pulses_bad

# ---------------------------------------------------------------------------------------------------------------
# encoding for Coq

def tq(x):
    return 'Inf' if x == INF else '(Fin %s)' % q(x)

SFUN = {'constant': 'SConstant', 'exponential': 'SExponential', 'linear': 'SLinear'}

def frozen_name(sd, t):
    return sd + '_sampled_' + '_'.join(str(float(t)).split('.'))

def graph_coq(g, ids):
    ds = []
    for d in g['demes']:
        eps = '; '.join('mkEpoch %s %s %s %s %s' % (tq(e['start_time']), q(e['end_time']), q(e['start_size']), q(e['end_size']),
                                                   SFUN[e['size_function']]) for e in d['epochs'])
        ds.append('mkDeme %d%%nat %s %s [%s]' % (ids[d['name']], tq(d['start_time']), natl([ids[a] for a in d['ancestors']]), eps))
    ms = ['mkMig %d%%nat %d%%nat %s %s %s' % (ids[m['source']], ids[m['dest']], tq(m['start_time']), q(m['end_time']), q(m['rate']))
          for m in g['migrations']]
    ps = ['mkPulse %s %d%%nat %s %s' % (natl([ids[s] for s in p['sources']]), ids[p['dest']], q(p['time']), ql(p['proportions']))
          for p in g['pulses']]
    return '(mkGraph [%s] [%s] [%s])' % ('; '.join(ds), '; '.join(ms), '; '.join(ps))

def events_coq(ev, ids):
    out = []
    for p in ev['pulses']:
        out.append('(%s, EPulse %s %d%%nat %s)' % (q(p['time']), natl([ids[s] for s in p['sources']]), ids[p['dest']], ql(p['proportions'])))
    for x in ev['branches']:
        out.append('(%s, EBranch %d%%nat %d%%nat)' % (q(x['time']), ids[x['parent']], ids[x['child']]))
    for x in ev['mergers']:
        out.append('(%s, EMerge %s %s %d%%nat)' % (q(x['time']), natl([ids[s] for s in x['parents']]), ql(x['proportions']), ids[x['child']]))
    for x in ev['admixtures']:
        out.append('(%s, EAdmix %s %s %d%%nat)' % (q(x['time']), natl([ids[s] for s in x['parents']]), ql(x['proportions']), ids[x['child']]))
    for x in ev['splits']:
        out.append('(%s, ESplit %d%%nat %s)' % (q(x['time']), ids[x['parent']], natl([ids[s] for s in x['children']])))
    return '[' + '; '.join(out) + ']'

def nu_coq(v):
    if isinstance(v, dict):
        return '(true, [%s])' % '; '.join('(%s, %s)' % (q(t), q(x)) for t, x in v['f'])
    return '(false, [(0, %s)])' % q(v)

def lcall_coq(c, ids):
    fn = c['fn']; a = c['args']
    T = 0; nus = []; fs = []; fr = []; ns = []; lids = []
    if fn in PULSE_OF:
        d, k = PULSE_OF[fn]
        f = 'F_pulse %d %d' % (d, k)
        fs = [v for kk, v in a.items() if kk.startswith('f')]
    else:
        if fn not in FN:
            raise KeyError('unexpected call %s' % fn)
        f = FN[fn]
    if fn in INTEG:
        d = INTEG.index(fn) + 1
        T = a['T']
        if d == 1:
            nus = [a['nu']]; fr = [a['frozen']]
        else:
            nus = [a['nu%d' % k] for k in range(1, d + 1)]
            fr = [a['frozen%d' % k] for k in range(1, d + 1)]
            fs = [a['m%d%d' % (x, y)] for x in range(1, d + 1) for y in range(1, d + 1) if x != y]
            if any(isinstance(v, dict) for v in fs):
                raise KeyError('time-dependent migration')
        lids = a['deme_ids']
    elif fn == 'phi_1D':
        lids = a['deme_ids']; fs = [a['nu']]
    elif fn in ('phi_1D_to_2D', 'phi_2D_to_3D_split_1', 'phi_2D_to_3D_split_2'):
        lids = a['deme_ids']
    elif fn in ('phi_2D_to_3D_admix', 'phi_3D_to_4D', 'phi_4D_to_5D'):
        fs = [v for kk, v in a.items() if kk in ('f1', 'f2', 'f3')]
        lids = a['deme_ids']
    elif fn == 'remove_pop':
        ns = [a['popnum']]
    elif fn == 'reorder_pops':
        ns = a['neworder']
    elif fn == 'from_phi':
        ns = a['ns']; lids = a['pop_ids']
    lids = [ids[x] for x in (lids or [])]
    return 'mkL (%s) %s [%s] %s %s %s %s' % (f, q(T), '; '.join(nu_coq(v) for v in nus), ql(fs), bl(fr), natl(ns), natl(lids))

def neutral_args_ok(calls):
    for c in calls:
        a = c['args']
        for k, v in a.items():
            if (k.startswith('gamma') and v != 0) or (k.rstrip('12345') == 'h' and v != 0.5) or (k == 'theta0' and v != 1) \
                    or (k == 'initial_t' and v != 0) or (k == 'beta' and v != 1) or (k.startswith('nomut') and v):
                return False
    return True

def initial_phi_passes_nu():
    """does _compute_sfs pass a size to the initial phi_1D call?"""
    tree = ast.parse(open(DEMES_PY).read())
    fn = _func(tree, '_compute_sfs')
    found = None
    for node in ast.walk(fn):
        if isinstance(node, ast.Call) and getattr(node.func, 'attr', None) == 'phi_1D':
            if found is not None:
                raise Refuse('_compute_sfs calls phi_1D twice')
            found = len(node.args) >= 2 or any(k.arg == 'nu' for k in node.keywords)
    if found is None:
        raise Refuse('_compute_sfs does not call phi_1D')
    return found

def log_case_coq(c, r, wiring, pnu=False, native_only=False):
    """Coq term (model program, logged program) for one log case; native_only: only ids['__native__'] (the logged calls
    are not encoded)"""
    g = r['orig']
    names = [d['name'] for d in g['demes']]
    ids = {n: i for i, n in enumerate(names)}
    n0 = len(names)
    sampled = c['sampled']
    ends = {d['name']: d['end_time'] for d in g['demes']}
    times = c['times'] if c['times'] is not None else [ends[s] for s in sampled]
    new_ids = []; sizes = []
    fsz = {d['name']: d['epochs'][0]['start_size'] for d in r['final']['demes']}
    for i, (s, t) in enumerate(zip(sampled, times)):
        nm = frozen_name(s, t)
        ids.setdefault(nm, n0 + i)
        new_ids.append(ids[nm])
        sizes.append(fsz.get(nm, 1.0))
    gt = 'None' if g['time_units'] == 'generations' else '(Some %s)' % q(g['generation_time'])
    tail = '%s %s %s %s %s %s %s %s %s' % (
        gt, graph_coq(g, ids), natl([ids[s] for s in sampled]),
        'None' if c['times'] is None else '(Some %s)' % ql(c['times']), natl(new_ids), ql(sizes),
        events_coq(r['events'], ids), 'None' if c.get('Ne') is None else '(Some %s)' % q(c['Ne']), natl(c['ns']))
    model = 'front %s %s %s' % (wiring_coq(wiring), b(pnu), tail)
    # the model's claim of what the equivalent native dadi model is: every argument reaches the parameter of its own
    # population (identity wiring), the ancestral population starts at the equilibrium of its own size
    ids['__native__'] = 'front std_wirings true ' + tail
    if native_only:
        return None, ids
    logged = '[' + '; '.join(lcall_coq(x, ids) for x in r['calls']) + ']'
    # the same run with the identity wiring, and the ids of the frozen branches (for the conclusion of frozen_flags_wired)
    tmin = min(times)
    ids['__std__'] = ('front std_wirings' + model[len('front ' + wiring_coq(wiring)):],
                      '(%s : list nat)' % natl([ids[frozen_name(s, t)] for s, t in zip(sampled, times) if t - tmin > 0]))
    return '(%s, %s)' % (model, logged), ids

# ---------------------------------------------------------------------------------------------------------------
# the model's program as data: the equivalent native dadi model of a graph (executed by c16_impl.run_model_prog)

FN_CODES = ['phi_1D', 'one_pop', 'two_pops', 'three_pops', 'four_pops', 'five_pops', 'phi_1D_to_2D', 'phi_2D_to_3D_split_1',
            'phi_2D_to_3D_split_2', 'phi_2D_to_3D_admix', 'phi_3D_to_4D', 'phi_4D_to_5D', 'pulse', 'remove_pop', 'reorder_pops',
            'from_phi', 'error']

def parse_dump(out):
    """{case id: [call...]} from the value printed by `Eval vm_compute in (dump_progs ...)` (Model/DemesFrontCheck.v: a flat
    list of integers; a rational is (numerator, denominator), a list is preceded by its length)"""
    import re
    toks = [int(x) for x in re.findall(r'-?[0-9]+', out[out.index('='):])]
    pos = [0]
    def nxt():
        v = toks[pos[0]]; pos[0] += 1
        return v
    def rd_q():
        n = nxt(); d = nxt()
        return float(Fraction(n, d))
    def rd_list(f):
        return [f() for _ in range(nxt())]
    def rd_sf():
        k = nxt(); a = rd_q(); b_ = rd_q(); T = rd_q()
        return [['num', a], ['const', a], ['lin', a, b_, T], ['exp', a, b_, T]][k]
    def rd_call():
        code = nxt(); d = nxt(); k = nxt()
        c = {'fn': FN_CODES[code], 'T': rd_q(), 'nus': rd_list(rd_sf), 'fs': rd_list(rd_q), 'fr': rd_list(lambda: bool(nxt())),
             'ns': rd_list(nxt), 'ids': rd_list(nxt)}
        if c['fn'] == 'pulse':
            c['d'] = d; c['dest'] = k
        elif c['fn'] == 'error':
            c['code'] = d
        return c
    res = {}
    while pos[0] < len(toks):
        cid = nxt()
        res[cid] = rd_list(rd_call)
    return res

def model_programs(ctx, items, shard):
    """items: [(case id, Coq term of type list (call Q))] -> {case id: program as data}; fails closed"""
    files = []
    for k in range(0, len(items), shard):
        chunk = items[k:k + shard]
        body = [HEADER, '']
        for cid, ex in chunk:
            body.append('Definition prog_%d := %s.' % (cid, ex))
        body.append('Eval vm_compute in (dump_progs [%s]).' % '; '.join('(%d%%Z, prog_%d)' % (cid, cid) for cid, _ in chunk))
        files.append(('C16_native_%d' % (k // shard), '\n'.join(body) + '\n'))
    res = lib.run_case_files(files, timeout=1500) if files else {}
    out = {}
    for n, (rc, so, se, secs) in sorted(res.items()):
        if rc != 0:
            ctx.obligation('coqc %s (the model\'s program for each graph, written out)' % n, False, 'correspondence', se[-600:])
            continue
        try:
            out.update(parse_dump(so))
        except (ValueError, IndexError) as e:
            ctx.obligation('coqc %s: the written-out programs can be read back' % n, False, 'correspondence', repr(e))
    ctx.checker_cmds.append('coqc -Q coq/theories Dadi build/cases/C16_native_*.v  (%d programs written out with vm_compute)' % len(items))
    return out

def model_fn_name(m):
    return PULSES[m['d']][m['dest'] - 1] if m['fn'] == 'pulse' and m['d'] in PULSES and 1 <= m['dest'] <= m['d'] else m['fn']

def first_difference(prog, calls):
    """name of the first logged call that differs from the model's program (function, T, numeric arguments at 1e-9);
    only used to group the failing graphs of one kind under the first one"""
    for m, l in zip(prog, calls):
        a = l['args']
        if model_fn_name(m) != l['fn']:
            return l['fn']
        if l['fn'] in INTEG:
            d = INTEG.index(l['fn']) + 1
            nums = [a['T']] + ([a['m%d%d' % (x, y)] for x in range(1, d + 1) for y in range(1, d + 1) if x != y] if d > 1 else [])
            mine = [m['T']] + m['fs']
        elif l['fn'] in PULSE_OF or l['fn'] in ('phi_2D_to_3D_admix', 'phi_3D_to_4D', 'phi_4D_to_5D'):
            nums = [v for kk, v in a.items() if kk.startswith('f') and kk[1:].isdigit() or kk == 'f']
            mine = m['fs']
        else:
            continue
        if len(nums) != len(mine) or any(isinstance(x, dict) or not close(x, y) for x, y in zip(nums, mine)):
            return l['fn']
    return 'length' if len(prog) != len(calls) else 'none'

# ---------------------------------------------------------------------------------------------------------------
# multi-source pulses: which part of the regime a resolved graph exercises (fail-closed generator coverage)

PULSE_REGIME = set()

def pulse_classes(orig):
    """for every pulse of a resolved graph with >= 2 sources and pairwise different proportions:
    (number of sources, how the sources are listed relative to the internal population order - order of appearance, ties in
    graph order -, where the destination stands in that order, what else happens at that time, parent among the sources)"""
    out = []
    gi = {d['name']: i for i, d in enumerate(orig['demes'])}
    D = {d['name']: d for d in orig['demes']}
    for p in orig['pulses']:
        k = len(p['sources'])
        if k < 2 or len(set(p['proportions'])) != k:
            continue
        tp = p['time']
        alive = sorted([d for d in orig['demes'] if d['start_time'] > tp >= d['end_time']], key=lambda d: (-d['start_time'], gi[d['name']]))
        order = [d['name'] for d in alive]
        if p['dest'] not in order or any(x not in order for x in p['sources']):
            continue
        idx = [order.index(x) for x in p['sources']]
        listing = 'population order' if idx == sorted(idx) else 'reverse order' if idx == sorted(idx, reverse=True) else 'another order'
        di = order.index(p['dest'])
        pos = 'older than' if di < min(idx) else 'younger than' if di > max(idx) else 'between'
        same = []
        if sum(1 for x in orig['pulses'] if x['time'] == tp) > 1:
            same.append('a second pulse')
        if any(d['start_time'] == tp for d in orig['demes']):
            same.append('a deme starts')
        if any(e['end_time'] == tp for d in alive for e in d['epochs']):
            same.append('an epoch ends')
        if any(tp in (m['start_time'], m['end_time']) for m in orig['migrations']):
            same.append('a migration starts or ends')
        out.append({'nsrc': min(k, 3), 'listing': listing, 'dest': pos, 'same': same or ['nothing else'],
                    'parent': any(a in p['sources'] for a in D[p['dest']]['ancestors']), 'bystander': len(order) > k + 1})
    return out

PULSE_NEED = [('%d sources listed in %s' % (k, l)) for k in (2, 3) for l in ('population order', 'reverse order')] + \
             ['3 sources listed in another order'] + ['destination %s the sources' % x for x in ('older than', 'younger than', 'between')] + \
             ['at the pulse time: %s' % x for x in ('nothing else', 'a second pulse', 'a deme starts', 'an epoch ends', 'a migration starts or ends')] + \
             ['the destination\'s parent is a source', 'a deme alive that is neither source nor destination']

def note_pulse_regime(ctx, orig):
    for pc in pulse_classes(orig):
        keys = ['%d sources listed in %s' % (pc['nsrc'], pc['listing']), 'destination %s the sources' % pc['dest']] + \
               ['at the pulse time: %s' % x for x in pc['same']] + (['the destination\'s parent is a source'] if pc['parent'] else []) + \
               (['a deme alive that is neither source nor destination'] if pc['bystander'] else [])
        for k in keys:
            PULSE_REGIME.add(k); ctx.count('multi-source pulse: ' + k)

# ---------------------------------------------------------------------------------------------------------------
# small helpers on spectra / Builder data

def fs_rel(a, b, perm=None):
    """largest |a-b| over the jointly unmasked entries relative to the largest entry; None when shapes/masks differ.
    perm: b is expected to be a with axes transposed by perm"""
    import numpy as np
    A = np.array(a['data']).reshape(a['shape']); MA = np.array(a['mask']).reshape(a['shape'])
    B = np.array(b['data']).reshape(b['shape']); MB = np.array(b['mask']).reshape(b['shape'])
    if perm is not None:
        A = A.transpose(perm); MA = MA.transpose(perm)
    if A.shape != B.shape or (MA != MB).any():
        return None
    keep = ~MA
    if not keep.any():
        return 0.0
    sc = max(abs(A[keep]).max(), abs(B[keep]).max())
    if not (sc > 0) or not np.isfinite(A[keep]).all() or not np.isfinite(B[keep]).all():
        return None
    return float(abs(A[keep] - B[keep]).max() / sc)

def lifetimes(graph):
    life = {}
    for d in graph['demes']:
        st = d.get('start_time')
        if st is None:
            st = life[d['ancestors'][0]][1] if d.get('ancestors') else INF      # default: the end of the (single) ancestor
        life[d['name']] = (st, d['epochs'][-1]['end_time'])
    return life

def slice_data(graph, t):
    """the demography more ancient than t with times shifted by t (independent re-implementation on Builder data;
    exponential, linear and constant epochs cut at t)"""
    import copy
    life = lifetimes(graph)
    g = {k: v for k, v in graph.items() if k not in ('demes', 'migrations', 'pulses')}
    g['demes'] = []
    for d in graph['demes']:
        st = life[d['name']][0]
        if st <= t:
            continue
        nd = {k: copy.deepcopy(v) for k, v in d.items() if k not in ('epochs', 'start_time')}
        if st != INF:
            nd['start_time'] = st - t
        nd['epochs'] = []
        prev = st
        for e in d['epochs']:
            e = dict(e)
            fn = e.get('size_function', 'exponential' if e.get('end_size', e['start_size']) != e['start_size'] else 'constant')
            s0 = e['start_size']; s1 = e.get('end_size', s0)
            if e['end_time'] <= t:
                if fn == 'constant':
                    s = s0
                elif fn == 'linear':
                    s = s0 + (prev - t) / (prev - e['end_time']) * (s1 - s0)
                else:
                    s = s0 * math.exp(math.log(s1 / s0) * (prev - t) / (prev - e['end_time']))
                e['end_time'] = 0.0
                if fn != 'constant':
                    e['end_size'] = s
                nd['epochs'].append(e)
                break
            prev = e['end_time']
            e['end_time'] -= t
            nd['epochs'].append(e)
        g['demes'].append(nd)
    ms = []
    for m in graph.get('migrations', []):
        m = dict(m)
        names = m['demes'] if 'demes' in m else [m['source'], m['dest']]
        st = m.get('start_time', min(life[n][0] for n in names)); en = m.get('end_time', max(life[n][1] for n in names))
        if st <= t:
            continue
        if st != INF:
            m['start_time'] = st - t
        m['end_time'] = max(0.0, en - t)
        ms.append(m)
    if ms:
        g['migrations'] = ms
    ps = []
    for p in graph.get('pulses', []):
        if p['time'] <= t:
            continue
        p = dict(p); p['time'] -= t
        ps.append(p)
    if ps:
        g['pulses'] = ps
    return g

def size_at_has_linear_branch():
    """does DemesUtil._size_at compare its size_function with "linear"?"""
    try:
        fn = _func(ast.parse(open(UTIL_PY).read()), '_size_at')
    except (Refuse, SyntaxError, OSError):
        return False
    return any(isinstance(n, ast.Compare) and any(isinstance(c, ast.Constant) and c.value == 'linear' for c in n.comparators)
               for n in ast.walk(fn))

def yaml_of(graph):
    """YAML text of a graph given as Builder data (for the replay files)"""
    try:
        import demes
        return demes.dumps(demes.Builder.fromdict(json.loads(json.dumps(graph))).resolve())
    except Exception as e:
        return 'could not serialise the graph: %r' % (e,)

def frozen_size_is_literal():
    """does _augment_with_ancient_samples give the frozen branch a literal size?  (None: shape not recognised)"""
    tree = ast.parse(open(DEMES_PY).read())
    fn = _func(tree, '_augment_with_ancient_samples')
    found = None
    for node in ast.walk(fn):
        if isinstance(node, ast.Call) and getattr(node.func, 'attr', None) == 'add_deme':
            for kw in node.keywords:
                if kw.arg == 'epochs':
                    for sub in ast.walk(kw.value):
                        if isinstance(sub, ast.keyword) and sub.arg == 'start_size':
                            found = isinstance(sub.value, ast.Constant)
                        if isinstance(sub, ast.Dict):
                            for k_, v_ in zip(sub.keys, sub.values):
                                if isinstance(k_, ast.Constant) and k_.value == 'start_size':
                                    found = isinstance(v_, ast.Constant)
    return found

# ---------------------------------------------------------------------------------------------------------------
# case generation

PTS = {1: 14, 2: 12, 3: 9, 4: 7, 5: 6}

def builder(demes, migrations=None, pulses=None):
    g = {'time_units': 'generations', 'demes': demes}
    if migrations: g['migrations'] = migrations
    if pulses: g['pulses'] = pulses
    return g

def forced_cases():
    """fixed graphs that exercise every integration arity with an ancient sample in the last population, a slice through
    a linear epoch, and an all-ancient sampling of a deme with descendants"""
    out = []
    # chain of splits: k demes alive, ancient sample of the last one -> frozen branch is population k+1
    for k in (1, 2, 3, 4):
        demes = [{'name': 'r', 'epochs': [{'end_time': 2.0, 'start_size': 2.0}]}] if k > 1 else \
                [{'name': 'p1', 'epochs': [{'end_time': 0.0, 'start_size': 2.0}]}]
        for i in range(1, k + 1):
            if k > 1:
                demes.append({'name': 'p%d' % i, 'ancestors': ['r'] if i <= 2 else ['p%d' % (i - 1)],
                              'start_time': 2.0 if i <= 2 else 2.0 - 0.25 * (i - 2),
                              'epochs': [{'end_time': 0.0, 'start_size': 1.0 + 0.5 * i}]})
        sampled = ['p%d' % i for i in range(1, k + 1)] + ['p%d' % k]
        times = [0.0] * k + [0.5]
        out.append({'graph': builder(demes), 'sampled': sampled, 'ns': [2] * k + [1], 'times': times, 'Ne': None,
                    'pts': PTS[k + 1], 'tag': 'forced-ancient-last-of-%d' % (k + 1), 'maxd': k + 1})
    # slice through a linear epoch (all samples ancient)
    demes = [{'name': 'r', 'epochs': [{'end_time': 2.0, 'start_size': 2.0}]},
             {'name': 'a', 'ancestors': ['r'], 'epochs': [{'end_time': 0.0, 'start_size': 1.0, 'end_size': 3.0, 'size_function': 'linear'}]},
             {'name': 'b', 'ancestors': ['r'], 'epochs': [{'end_time': 0.0, 'start_size': 1.5, 'end_size': 0.5}]}]
    out.append({'graph': builder(demes, [{'demes': ['a', 'b'], 'rate': 0.0625}]), 'sampled': ['a', 'b'], 'ns': [3, 2],
                'times': [0.5, 0.75], 'Ne': None, 'pts': 12, 'tag': 'forced-slice-linear', 'maxd': 3})
    # all samples ancient, the most recent one from a deme that has a descendant
    demes = [{'name': 'a', 'epochs': [{'end_time': 0.0, 'start_size': 2.0}]},
             {'name': 'b', 'ancestors': ['a'], 'start_time': 2.0, 'epochs': [{'end_time': 0.0, 'start_size': 1.0}]}]
    out.append({'graph': builder(demes), 'sampled': ['a', 'b'], 'ns': [2, 2], 'times': [0.25, 0.25], 'Ne': None, 'pts': 12,
                'tag': 'forced-all-ancient-with-descendant', 'maxd': 2})
    out.append({'graph': builder(demes), 'sampled': ['b', 'a', 'a'], 'ns': [2, 2, 1], 'times': [0.25, 0.25, 0.75], 'Ne': 2.0, 'pts': 10,
                'tag': 'forced-all-ancient-same-deme-twice', 'maxd': 3})
    return out

def family_cases(ctx):
    """the systematic families of c16_gen (own random stream: the random cases above do not move when a family changes)"""
    import random
    out = []
    for rep in range(ctx.pick(1, 4)):
        rng = random.Random('C16-families-%d-%d' % (ctx.seed, rep))
        # (new families are appended: the earlier ones keep their inputs)
        for c in G.slice_family(rng) + G.boundary_family(rng) + G.pulse_family(rng, rep) + G.sizefn_family(rng, rep):
            c['ns'] = [rng.randint(2, 3) if c['maxd'] <= 3 else 2 for _ in c['sampled']]
            c['pts'] = PTS[c['maxd']]
            out.append(c)
    return out

YAMLS = [('bottleneck.yaml', ['our_population'], [4], 12), ('browning_america.yaml', ['AFR', 'EAS', 'EUR', 'ADMIX'], [2, 1, 2, 1], 6),
         ('gutenkunst_ooa.yaml', ['YRI', 'CEU', 'CHB'], [2, 3, 2], 9), ('linear_size_function_example.yaml', ['pop_1', 'pop_2'], [3, 2], 12),
         ('offshoots.yaml', ['ancestral', 'offshoot1', 'offshoot2'], [2, 2, 2], 9), ('two_epoch.yaml', ['deme0'], [4], 14),
         ('zigzag.yaml', ['generic'], [4], 14)]

def gen_log_cases(ctx):
    rng = ctx.rng
    n = ctx.pick(36, 560)
    cases = []
    dist = [2] * 2 + [3] * 3 + [4] * 2 + [5] * 2
    for i in range(n):
        maxd = dist[i % len(dist)]
        gg = G.gen_graph(rng, maxd)
        sampled, times = G.choose_samples(rng, gg, maxd)
        graph = gg['graph']
        units = None
        if rng.random() < 0.3:
            gt = rng.choice([25.0, 2.0, 29.0, 0.5])
            graph = G.to_units(graph, gt)
            if times is not None:
                times = [t * gt for t in times]
        ns = [rng.randint(1, 3 if maxd <= 3 else 2) for _ in sampled]
        cases.append({'graph': graph, 'sampled': sampled, 'ns': ns, 'times': times, 'Ne': rng.choice([None, None, 2.0, 3.0, 1.5]),
                      'pts': PTS[maxd], 'tag': 'random', 'maxd': maxd})
    cases += forced_cases()
    cases += family_cases(ctx)
    for f, sampled, ns, pts in YAMLS:
        cases.append({'yaml': os.path.join(TESTS_DEMES, f), 'sampled': sampled, 'ns': ns, 'times': None, 'Ne': None, 'pts': pts,
                      'tag': 'yaml:' + f, 'maxd': len(sampled)})
    for i, c in enumerate(cases):
        c['id'] = i
    return cases

# ---------------------------------------------------------------------------------------------------------------
# classification of a case (input classes in which the current source is known to be able to deviate)

def case_class(c, r):
    """properties of the sampling spec: all_ancient (slice time t>0), linear epoch cut by the slice, renamed deme with
    descendants, ancient samples present"""
    g = r.get('orig')
    info = {'ancient': False, 'tmin': 0.0, 'slice_linear': False, 'rename_desc': False, 'slice_class': None, 'slice_cut': []}
    if g is None:
        return info
    ends = {d['name']: d['end_time'] for d in g['demes']}
    times = c['times'] if c['times'] is not None else [ends[s] for s in c['sampled']]
    info['ancient'] = any(t != 0 for t in times)
    t = min(times)
    info['tmin'] = t
    if t > 0:
        # input class of the slice (only used to group further failing inputs of one class under the first one)
        cut = [e for d in g['demes'] if d['start_time'] > t for e in d['epochs'] if e['start_time'] > t >= e['end_time']]
        grow = [e for e in cut if e['size_function'] != 'constant']
        info['slice_class'] = ('slice cuts a non-constant epoch that ends before the present' if any(e['end_time'] > 0 for e in grow) else
                               'slice cuts a non-constant epoch that runs to the present' if grow else 'slice cuts constant epochs only')
        # the regime the systematic families are there for: (size function, slice inside / at the end, what follows)
        for d in g['demes']:
            if d['start_time'] > t:
                for k, e in enumerate(d['epochs']):
                    if e['start_time'] > t >= e['end_time'] > 0 and e['size_function'] != 'constant':
                        follows = ('epoch' if k + 1 < len(d['epochs']) else
                                   'split' if any(d['name'] in x['ancestors'] and x['start_time'] == e['end_time'] for x in g['demes']) else 'extinct')
                        info['slice_cut'].append((e['size_function'], 'at its end' if t == e['end_time'] else 'inside', follows))
                        break
        for d in g['demes']:
            for e in d['epochs']:
                if e['size_function'] == 'linear' and e['start_time'] > t >= e['end_time'] and not _has_linear():
                    info['slice_linear'] = True      # input class of a known deviation ONLY while _size_at lacks the linear branch
        first = {}
        for s, tt in zip(c['sampled'], times):
            if tt == t:
                for d in g['demes']:
                    if s in d['ancestors'] and d['start_time'] > t:
                        info['rename_desc'] = True
        # the same deme sampled at the slice time and again earlier: the frozen branch refers to the old name
        for s, tt in zip(c['sampled'], times):
            if tt == t and any(s2 == s and t2 > t for s2, t2 in zip(c['sampled'], times)):
                info['rename_desc'] = True
    return info

REGIME = set()          # which parts of the all-ancient / cut-growth-epoch regime the run has exercised (fail closed)

# integration epochs in which several demes change size, each with its own parameters (fail-closed generator coverage)
SIZEFN_REGIME = set()
SIZEFN_NEED = ['2 demes: linear/linear', '2 demes: exponential/linear', '2 demes: exponential/exponential', '2 demes: constant/linear',
               '3 demes: linear/linear/linear', '3 demes: exponential/exponential/exponential', '3 demes: all non-constant, linear and exponential',
               '3 demes: linear next to constant', 'a linear deme listed before another linear deme with a different slope',
               'an epoch of a growing deme cut into several integration epochs next to another growing deme']

def note_sizefn_regime(ctx, orig, tmin):
    eps = G.sizefn_epoch_classes(orig, tmin)
    keys = set()
    for n, kinds, distinct, linlin in eps:
        if n > 3 or not distinct:
            continue
        if n == 2:
            keys.add('2 demes: ' + '/'.join(kinds))
        elif n == 3:
            if 'constant' in kinds and 'linear' in kinds:
                keys.add('3 demes: linear next to constant')
            elif 'constant' not in kinds:
                keys.add('3 demes: ' + '/'.join(kinds) if len(set(kinds)) == 1 else '3 demes: all non-constant, linear and exponential')
        if linlin:
            keys.add('a linear deme listed before another linear deme with a different slope')
    # a non-constant epoch of one deme spanning several integration epochs in which another deme is non-constant too
    for d in orig['demes']:
        for e in d['epochs']:
            if e['size_function'] != 'constant' and e['start_time'] != INF:
                cuts = {x for d2 in orig['demes'] if d2 is not d for e2 in d2['epochs'] for x in (e2['start_time'], e2['end_time'])
                        if e2['size_function'] != 'constant' and e['start_time'] > x > max(e['end_time'], tmin)}
                if cuts:
                    keys.add('an epoch of a growing deme cut into several integration epochs next to another growing deme')
    for k in keys:
        SIZEFN_REGIME.add(k); ctx.count('size functions in one epoch: ' + k)

def resolved_size_at(orig, name, u):
    """size of a deme of a resolved graph at time u (first epoch with start > u >= end; closed formulas)"""
    for d in orig['demes']:
        if d['name'] == name:
            for e in d['epochs']:
                if e['start_time'] > u >= e['end_time']:
                    return G.growth_val(e['size_function'], e['start_size'], e['end_size'], e['start_time'], e['end_time'], u)
    return None

_HAS_LINEAR = []
def _has_linear():
    if not _HAS_LINEAR:
        _HAS_LINEAR.append(size_at_has_linear_branch())
    return _HAS_LINEAR[0]

def frozen_names(c, r):
    g = r['orig']
    ends = {d['name']: d['end_time'] for d in g['demes']}
    times = c['times'] if c['times'] is not None else [ends[s] for s in c['sampled']]
    t = min(times)
    return [frozen_name(s, tt) for s, tt in zip(c['sampled'], times) if tt - t > 0]

def check_frozen_flags(c, r):
    """conclusion of frozen_flags_wired on the logged calls: [(d, k, got, want)] for every mismatch"""
    fz = set(frozen_names(c, r))
    bad = []
    for x in r['calls']:
        if x['fn'] in INTEG:
            d = INTEG.index(x['fn']) + 1
            ids = x['args']['deme_ids']
            for k in range(d):
                got = x['args']['frozen' if d == 1 else 'frozen%d' % (k + 1)]
                if bool(got) != (ids[k] in fz):
                    bad.append((d, k + 1, bool(got), ids[k] in fz))
    return bad

# ---------------------------------------------------------------------------------------------------------------
# native models for fixed graph shapes

def native_shapes(rng):
    """[(name, graph, sampled, ns, Ne, pts, ops)] : hand-written dadi programs for fixed graph shapes, random parameters"""
    out = []
    sz = lambda: G._size(rng)
    Ne = rng.choice([1.0, 2.0, 4.0])
    T1 = rng.choice([0.5, 1.0, 1.5]); T2 = rng.choice([0.5, 1.0, 2.0])
    # 1. split with symmetric migration
    N0, N1, N2 = sz(), sz(), sz(); m = rng.choice([1 / 32, 1 / 16, 1 / 8])
    g = builder([{'name': 'anc', 'epochs': [{'end_time': T1 + T2, 'start_size': Ne}, {'end_time': T2, 'start_size': N0}]},
                 {'name': 'A', 'ancestors': ['anc'], 'epochs': [{'end_time': 0, 'start_size': N1}]},
                 {'name': 'B', 'ancestors': ['anc'], 'epochs': [{'end_time': 0, 'start_size': N2}]}],
                [{'demes': ['A', 'B'], 'rate': m}])
    M = 2 * Ne * m
    ops = [['phi_1D', 1.0], ['integrate', T1 / 2 / Ne, [['c', N0 / Ne]], None, None], ['split', 1],
           ['integrate', T2 / 2 / Ne, [['c', N1 / Ne], ['c', N2 / Ne]], [[0, M], [M, 0]], None]]
    out.append(('split_mig', g, ['A', 'B'], [3, 2], None, 14, ops))
    # 2. IM with exponential growth and asymmetric migration, explicit Ne different from the root size
    N1a, N1b = sz(), None
    N1b = G._size_other(rng, N1a); N2a = sz(); N2b = G._size_other(rng, N2a)
    m12, m21 = rng.choice([1 / 32, 1 / 8]), rng.choice([1 / 16, 3 / 16])      # m12: into A from B
    Nr = sz(); Nex = rng.choice([1.0, 2.0, 3.0])
    g = builder([{'name': 'anc', 'epochs': [{'end_time': T2, 'start_size': Nr}]},
                 {'name': 'A', 'ancestors': ['anc'], 'epochs': [{'end_time': 0, 'start_size': N1a, 'end_size': N1b}]},
                 {'name': 'B', 'ancestors': ['anc'], 'epochs': [{'end_time': 0, 'start_size': N2a, 'end_size': N2b}]}],
                [{'source': 'B', 'dest': 'A', 'rate': m12}, {'source': 'A', 'dest': 'B', 'rate': m21}])
    # the ancestral population is at equilibrium for ITS size: phi_1D(nu = Nr / Ne) when Ne is given explicitly
    ops = [['phi_1D', Nr / Nex], ['split', 1],
           ['integrate', T2 / 2 / Nex, [['e', N1a / Nex, N1b / Nex], ['e', N2a / Nex, N2b / Nex]],
            [[0, 2 * Nex * m12], [2 * Nex * m21, 0]], None]]
    out.append(('IM_exp', g, ['A', 'B'], [2, 3], Nex, 14, ops))
    ops = [['phi_1D', 1.0]] + ops[1:]
    g2 = builder([{'name': 'anc', 'epochs': [{'end_time': T2, 'start_size': Nex}]}] + g['demes'][1:], g['migrations'])
    out.append(('IM_exp_rootNe', g2, ['A', 'B'], [2, 3], None, 14, ops))
    # 3. pulse admixture
    f = rng.choice([1 / 8, 1 / 4, 3 / 8]); tp = T2 / 2
    g = builder([{'name': 'anc', 'epochs': [{'end_time': T2, 'start_size': Ne}]},
                 {'name': 'A', 'ancestors': ['anc'], 'epochs': [{'end_time': 0, 'start_size': N1}]},
                 {'name': 'B', 'ancestors': ['anc'], 'epochs': [{'end_time': 0, 'start_size': N2}]}],
                None, [{'sources': ['A'], 'dest': 'B', 'time': tp, 'proportions': [f]}])
    ops = [['phi_1D', 1.0], ['split', 1], ['integrate', (T2 - tp) / 2 / Ne, [['c', N1 / Ne], ['c', N2 / Ne]], None, None],
           ['pulse', 2, [f]], ['integrate', tp / 2 / Ne, [['c', N1 / Ne], ['c', N2 / Ne]], None, None]]
    out.append(('pulse', g, ['A', 'B'], [2, 2], None, 14, ops))
    # 4. three-population tree ((B,C),A) with linear growth in C and migration B<->C
    N3a = sz(); N3b = G._size_other(rng, N3a); Nbc = sz(); mbc = rng.choice([1 / 16, 1 / 8])
    g = builder([{'name': 'anc', 'epochs': [{'end_time': T1 + T2, 'start_size': Ne}]},
                 {'name': 'A', 'ancestors': ['anc'], 'epochs': [{'end_time': 0, 'start_size': N1}]},
                 {'name': 'BC', 'ancestors': ['anc'], 'epochs': [{'end_time': T2, 'start_size': Nbc}]},
                 {'name': 'B', 'ancestors': ['BC'], 'epochs': [{'end_time': 0, 'start_size': N2}]},
                 {'name': 'C', 'ancestors': ['BC'], 'epochs': [{'end_time': 0, 'start_size': N3a, 'end_size': N3b, 'size_function': 'linear'}]}],
                [{'demes': ['B', 'C'], 'rate': mbc}])
    Mbc = 2 * Ne * mbc
    ops = [['phi_1D', 1.0], ['split', 1], ['integrate', T1 / 2 / Ne, [['c', N1 / Ne], ['c', Nbc / Ne]], None, None], ['split', 2],
           ['integrate', T2 / 2 / Ne, [['c', N1 / Ne], ['c', N2 / Ne], ['l', N3a / Ne, N3b / Ne]], [[0, 0, 0], [0, 0, Mbc], [0, Mbc, 0]], None]]
    out.append(('tree3', g, ['A', 'B', 'C'], [2, 2, 2], None, 10, ops))
    # 4b. the same tree with a two-source pulse (A, C) -> B (destination in the middle)
    f1 = rng.choice([1 / 16, 1 / 8, 3 / 16]); f2 = rng.choice([1 / 8, 1 / 4]); tp = T2 / 4
    g = builder([{'name': 'anc', 'epochs': [{'end_time': T1 + T2, 'start_size': Ne}]},
                 {'name': 'A', 'ancestors': ['anc'], 'epochs': [{'end_time': 0, 'start_size': N1}]},
                 {'name': 'BC', 'ancestors': ['anc'], 'epochs': [{'end_time': T2, 'start_size': Nbc}]},
                 {'name': 'B', 'ancestors': ['BC'], 'epochs': [{'end_time': 0, 'start_size': N2}]},
                 {'name': 'C', 'ancestors': ['BC'], 'epochs': [{'end_time': 0, 'start_size': N3a}]}],
                None, [{'sources': ['A', 'C'], 'dest': 'B', 'time': tp, 'proportions': [f1, f2]}])
    c3 = [['c', N1 / Ne], ['c', N2 / Ne], ['c', N3a / Ne]]
    ops = [['phi_1D', 1.0], ['split', 1], ['integrate', T1 / 2 / Ne, [['c', N1 / Ne], ['c', Nbc / Ne]], None, None], ['split', 2],
           ['integrate', (T2 - tp) / 2 / Ne, c3, None, None], ['pulse', 2, [f1, f2]], ['integrate', tp / 2 / Ne, c3, None, None]]
    out.append(('pulse3', g, ['A', 'B', 'C'], [2, 2, 2], None, 10, ops))
    # 5. ancient sample as a native frozen population
    ta = T2 / 4
    g = builder([{'name': 'anc', 'epochs': [{'end_time': T2, 'start_size': Ne}]},
                 {'name': 'A', 'ancestors': ['anc'], 'epochs': [{'end_time': 0, 'start_size': N1}]},
                 {'name': 'B', 'ancestors': ['anc'], 'epochs': [{'end_time': 0, 'start_size': N2}]}])
    ops = [['phi_1D', 1.0], ['split', 1], ['integrate', (T2 - ta) / 2 / Ne, [['c', N1 / Ne], ['c', N2 / Ne]], None, None], ['split', 2],
           ['integrate', ta / 2 / Ne, [['c', N1 / Ne], ['c', N2 / Ne], ['c', '@frozen']], None, [False, False, True]]]
    out.append(('ancient_native', g, ['A', 'B', 'B'], [2, 2, 2], None, 10, ops, [0.0, 0.0, ta]))
    return out

# ---------------------------------------------------------------------------------------------------------------
# the check

NUM_TOL = 1e-9
EXPORT_TOL = 1e-8

def load_yaml_graphs(cases):
    import demes
    for c in cases:
        if c.get('yaml') and 'graph' not in c:
            c['graph'] = demes.load(c['yaml']).asdict()

import time as _time
_T0 = [_time.time()]
def lap(ctx, what):
    now = _time.time()
    ctx.notes.append('wall %s: %.1fs' % (what, now - _T0[0]))
    if os.environ.get('C16_TIMING'):
        print('C16 timing %s: %.1fs' % (what, now - _T0[0]), flush=True)
    _T0[0] = now

def impl_chunks(mode, cases, size=40, timeout=1500):
    out = []
    for k in range(0, len(cases), size):
        out += lib.run_impl('c16_impl.py', {'mode': mode, 'cases': cases[k:k + size]}, timeout=timeout)
    return out

def strip(c):
    return {k: v for k, v in c.items() if k not in ('native_ops',)}

def numeric_jobs(ctx, c, r, info):
    """[(label, job, expected axis permutation or None, key if it fails in a known class)]"""
    rng = ctx.rng
    jobs = []
    graph = c['graph']; sampled = c['sampled']; ns = c['ns']; times = c['times']; Ne = c.get('Ne'); pts = c['pts']
    base = {'kind': 'demes', 'graph': graph, 'sampled': sampled, 'ns': ns, 'times': times, 'Ne': Ne, 'pts': pts}
    adds_frozen = info['ancient'] and any(n in {d['name'] for d in r.get('final', {}).get('demes', [])} for n in frozen_names(c, r)) if 'orig' in r else False
    # units
    if graph.get('time_units', 'generations') == 'generations':
        gt = rng.choice([25.0, 2.0, 29.0, 0.5])
        j = dict(base, graph=G.to_units(graph, gt), times=None if times is None else [t * gt for t in times])
        jobs.append(('units:generations->years(%g)' % gt, j, None, None))
    else:
        import demes
        gt = graph['generation_time']
        gg = demes.Builder.fromdict(json.loads(json.dumps(graph))).resolve().in_generations().asdict()
        j = dict(base, graph=gg, times=None if times is None else [t / gt for t in times])
        jobs.append(('units:%s->generations' % graph['time_units'], j, None, None))
    # rescale
    cc = rng.choice([2.0, 0.5, 3.0, 1.5, 4.0])
    j = dict(base, graph=G.rescale(graph, cc), times=None if times is None else [t * cc for t in times], Ne=None if Ne is None else Ne * cc)
    jobs.append(('rescale:c=%g' % cc, j, None, KEY_FROZEN_SIZE if adds_frozen else None))
    # order
    k = len(sampled)
    if k > 1:
        perm = list(range(k))
        while perm == list(range(k)):
            rng.shuffle(perm)
        j = dict(base, sampled=[sampled[i] for i in perm], ns=[ns[i] for i in perm], times=None if times is None else [times[i] for i in perm])
        jobs.append(('order:%s' % perm, j, perm, None))
    # the (source, proportion) pairs of every multi-source pulse listed in another order: the same pulse
    multi = [p for p in graph.get('pulses', []) if len(p['sources']) >= 2]
    if multi:
        import copy
        for name in ('reverse', 'rotated'):
            if name == 'rotated' and not any(len(p['sources']) >= 3 for p in multi):
                continue
            g2 = copy.deepcopy(graph)
            for p in g2['pulses']:
                p['sources'] = G.listing_of(name, p['sources']); p['proportions'] = G.listing_of(name, p['proportions'])
            # the key only groups the further failing graphs under the first one (not a known finding)
            jobs.append(('pulse-listing:%s' % name, dict(base, graph=g2), None, 'pulse-listing:%s-order-changes-the-spectrum' % name))
    # ancient samples as explicit frozen branches (reference: flags decided by label, slicing done by hand)
    if info['ancient'] and 'orig' in r:
        ends = {d['name']: d['end_time'] for d in r['orig']['demes']}
        tms = times if times is not None else [ends[s] for s in sampled]
        t0 = info['tmin']
        fsz = {d['name']: d['epochs'][0]['start_size'] for d in r.get('final', {}).get('demes', [])}
        g2 = slice_data(graph, t0) if t0 > 0 else graph
        rel = [t - t0 for t in tms]
        sizes = [fsz.get(frozen_name(s, t), 1.0) for s, t in zip(sampled, tms)]
        import copy
        g3 = copy.deepcopy(g2); new_s = []; frz = []
        for i, (s, t) in enumerate(zip(sampled, rel)):
            if t > 0:
                nm = '%s_anc%d' % (s, i)
                g3['demes'].append({'name': nm, 'ancestors': [s], 'start_time': t, 'epochs': [{'end_time': 0, 'start_size': sizes[i]}]})
                new_s.append(nm); frz.append(nm)
            else:
                new_s.append(s)
        j = {'kind': 'explicit_frozen', 'graph': g3, 'sampled': new_s, 'ns': ns, 'frozen': frz, 'Ne': Ne, 'pts': pts}
        key = None
        if info['slice_linear']:
            key = KEY_SLICE_LINEAR
        jobs.append(('ancient-as-explicit-frozen-branch', j, None, key))
    return jobs

def error_class(msg):
    """an error message without the names and numbers of the particular input"""
    import re
    return re.sub(r'[0-9]+(\.[0-9]+)?', '#', re.sub(r"(deme|demes|population) ['\"]?[A-Za-z0-9_]+['\"]?", r'\1 _', msg))[:80]

def dedup_violations(ctx):
    """one violation per key (the first, i.e. smallest, input); further inputs of the same class are only counted"""
    orig = ctx.violation
    seen = {}
    def violation(what, data=None, key=None, no_input=False, broken=None):
        if key is not None:
            if key in seen:
                seen[key] += 1
                ctx.count('further inputs for ' + key)
                return
            seen[key] = 1
        if isinstance(data, dict) and isinstance(data.get('case'), dict) and 'graph' in data['case'] and not data.get('graph_yaml'):
            data = dict(data, graph_yaml=yaml_of(data['case']['graph']))        # the failing graph as YAML text
        orig(what + (' [key=%s]' % key if key else ''), data=data, key=key, no_input=no_input, broken=broken)
    ctx.violation = violation

LOG_FS = {}        # tag -> spectrum of the log phase (the types stream compares its canonical single-grid value with it)

def run(ctx):
    dedup_violations(ctx)
    ctx.rule = ('log cases = random demes graphs (forward construction: splits, branches, mergers, admixtures, renames, extinctions, '
                'epoch changes at random dyadic times; constant / exponential / linear epochs; symmetric and asymmetric migrations '
                'with own time spans; pulses with 1-3 sources; <= 2..5 simultaneous demes incl. frozen branches), random sampled '
                'subset in random order, ancient samples (also all-ancient), generations or years, Ne given or not; plus fixed graphs '
                '(ancient sample as last population for every arity, slice through a linear epoch, all-ancient with descendants), '
                'the systematic slice family (every sample ancient x {exponential, linear} epoch that ends before the present x slice '
                'inside / exactly at its end x followed by an epoch / extinction / a split x 1-3 demes alive, each with a hand-written '
                'native program) and the boundary family (slice or sample time equal to an epoch boundary, a deme start / end, a pulse '
                'time, a migration boundary; migration intervals starting, ending, inside, across and after the slice time; growth epochs '
                'of non-sampled ancestors through the slice time; frozen branches created at such times) and the pulse family (one pulse '
                'with 2 or 3 sources and pairwise different proportions among 3 or 4 demes: destination oldest / in the middle / youngest '
                'x sources listed in population order / reverse / rotated x nothing else, an epoch boundary, migration boundaries, a '
                'branch, a second multi-source pulse at the pulse time; bystander demes; destination\'s parent among the sources; each '
                'with a hand-written native program) and the size-function family (2 and 3 demes alive whose sizes over one integration '
                'epoch ALL change with pairwise different parameters: every combination linear/linear, linear/exponential, '
                'exponential/exponential, linear next to constant, directions alternating, epochs aligned or staggered, each with a '
                'hand-written native program); DemesUtil.slice on its own '
                'for every graph at its own slice time and at times chosen per class (inside / at the end of growth epochs, epoch '
                'boundaries, pulse and migration times, deme starts), '
                'hand-written native models and the YAML files of tests/demes; the argument-types stream (c16_types.py: seven bases, one per '
                'regime of the sampling spec, each ALSO a log case; Demes.SFS twice / from_demes on three grids + Demes.SFS / DemesUtil.slice '
                'twice / Demes.output twice with the same argument objects in every container, dtype, numpy scalar, 0-d array, strided / '
                'reversed / read-only view, masked array the unchanged library accepts - reviewed table c16_types.EXPECT - one factor at a '
                'time and all factors at once: result bit-identical to the canonical spelling, arguments unchanged after every call); numeric variants (units, rescale, order, explicit '
                'frozen branches, pulse pairs listed in another order) of every case and the model\'s program of every case executed as '
                'a native dadi model; export cases = random native programs of 1-5 populations plus fixed ones (4-D / 5-D pulses; '
                'reorder_pops followed by a multi-source pulse with different fractions; one integration of 2-5 populations changing size with '
                'pairwise different linear / exponential parameters, also next to constant populations); distinct = distinct '
                '(graph, sampling spec) / program; non-trivial = at least one integration with >= 2 populations or an event')
    ctx.assumptions += ['the `demes` package (0.2.3) is the oracle for graph resolution, discrete_demographic_events and in_generations',
                        'model and logged arguments are compared at 1e-12 relative (float64 arithmetic of the importer vs exact rationals; '
                        'exp/ln to 2^-100 on the Q side); size functions are compared by value at t = 0, T/4, T/2, 3T/4, T',
                        'numeric invariances at 1e-9 and the export round trip at 1e-8 relative to the largest spectrum entry, one grid size, '
                        'default timescale_factor: both sides execute the same program up to rounding of T, so the time steps coincide',
                        'the equivalent native model of a graph is the Coq model\'s program for it (front std_wirings true ...): rationals are '
                        'rounded to the nearest float, size functions are the closures a + t/T*b and a*r**(t/T) of the model\'s (a, b | r, T)',
                        'DemesUtil.slice: the resolved sliced graph is compared number by number with the model at 1e-12, its Deme.size_at and '
                        'migration rates at probe times with those of the input graph at 1e-12 (the reference is the `demes` package itself)',
                        'where the current source deviates in a known input class (linear epoch cut by DemesUtil.slice, renamed deme with '
                        'descendants) the model has the documented behaviour and the deviation is reported under its own key']
    ctx.trusted += ['Section variables / oracle: demes resolution of the augmented graph and its event list are observed at run time '
                    '(wrapped Graph.discrete_demographic_events), not modelled',
                    'harness/impl/c16_impl.py: call logging by wrapping dadi.PhiManip.*, dadi.Integration.*, Spectrum.from_phi']
    wiring, bad_frozen, pulses_bad = translator_obligations(ctx)
    model_wiring = wiring
    if wiring is None:
        model_wiring = {d: {'nu': list(range(d)), 'frozen': list(range(d)), 'm': [(a, bb) for a in range(d) for bb in range(d) if a != bb]}
                        for d in range(1, 6)}
    try:
        pnu = initial_phi_passes_nu()
        ctx.obligation('Demes._compute_sfs gives the initial phi_1D the root deme\'s size relative to Ne', pnu, 'translator',
                       '' if pnu else 'phi_1D is called without nu: equilibrium of the reference size whatever the root size')
        ctx.obligations[-1]['known_key'] = KEY_INIT_PHI
    except (Refuse, SyntaxError, OSError) as e:
        pnu = False
        ctx.obligation('translate the initial phi_1D call of Demes._compute_sfs', False, 'translator', str(e))
    try:
        lit = frozen_size_is_literal()
        ctx.obligation('the frozen branch added for an ancient sample has a size that scales with the graph (not a literal)',
                       lit is False, 'translator', 'start_size is a literal constant' if lit else ('shape not recognised' if lit is None else ''))
        if lit:
            ctx.obligations[-1]['known_key'] = KEY_FROZEN_SIZE
    except (Refuse, SyntaxError, OSError) as e:
        ctx.obligation('translate _augment_with_ancient_samples (size of the frozen branch)', False, 'translator', str(e))

    # frame condition of Demes.SFS on its arguments (c16_types.frame_obligation): working copies, no parameter modified in place
    frame_bad = TY.frame_obligation(ctx)
    ctx.obligation('Demes.SFS works on copies of sampled_demes / sample_times and modifies no argument in place (helpers modify only the '
                   'reviewed parameters)', not frame_bad, 'translator', '; '.join(frame_bad[:4]))

    do_log = do_export = do_slice = True
    cases = None
    progs = None
    types_st = None
    if ctx.replay:
        rp = json.load(open(ctx.replay))
        inp = rp.get('input') or {}
        if inp.get('kind') == 'types' and 'base' in inp:
            TY.replay(ctx, inp)
            return
        if inp.get('kind') == 'export' and 'case' in inp:
            progs = [dict(inp['case'], id=0)]; do_log = do_slice = False
        elif inp.get('kind') == 'slice' and 'case' in inp:
            cases = [dict(inp['case'], id=0)]; do_log = do_export = False
        elif 'case' in inp:
            cases = [dict(inp['case'], id=0)]; do_export = False
    if do_log:
        if cases is None:
            cases = gen_log_cases(ctx)
            for nm, g, sampled, ns, Ne, pts, ops, *rest in [x for _ in range(ctx.pick(2, 12)) for x in native_shapes(ctx.rng)]:
                cases.append({'graph': g, 'sampled': sampled, 'ns': ns, 'times': rest[0] if rest else None, 'Ne': Ne, 'pts': pts,
                              'tag': 'native:' + nm, 'maxd': len(sampled), 'native_ops': ops, 'id': len(cases)})
            # argument types / containers / layouts (c16_types.py): the bases in canonical spelling are log cases as well; the
            # spellings run in the background (own interpreters) and are accounted for at the end
            import random as _random
            type_bases = TY.bases(_random.Random('C16-types-%d' % ctx.seed))
            for b_ in type_bases:
                cases.append(dict(TY.log_case(b_), id=len(cases)))
            types_st = TY.start(ctx, type_bases)
        load_yaml_graphs(cases)
        origs = log_phase(ctx, cases, model_wiring, pnu, bad_frozen)
    if do_slice and cases is not None:
        slice_phase(ctx, cases, origs if do_log else {})
    if do_export:
        export_phase(ctx, progs, pulses_bad, pnu)
    if types_st is not None:
        nv = TY.finish(ctx, types_st, LOG_FS, discover=os.environ.get('C16_TYPES_DISCOVER'))
        lap(ctx, 'types stream (rest)')
        broken = [o['name'] for o in ctx.obligations if not o['ok'] and o['kind'] == 'translator' and not o.get('known_key')]
        if broken and not nv:
            # a source obligation broke and the stream found nothing: targeted search over the spellings at thorough size
            nv = TY.targeted(ctx, broken[0][:60])
            lap(ctx, 'types stream targeted search')
        if frame_bad and not nv:
            ctx.violation('the frame condition of Demes.SFS on its arguments is not established (%s) but no spelling of the arguments '
                          'in the types stream (also at thorough size) shows a modified argument or another result' % '; '.join(frame_bad[:3]),
                          no_input=True, broken='frame condition of Demes.SFS (c16_types.frame_obligation)')

def log_phase(ctx, cases, wiring, pnu, bad_frozen):
    lap(ctx, 'translators + generation')
    res = impl_chunks('log', [strip(c) for c in cases])
    lap(ctx, 'impl log runs (%d cases)' % len(cases))
    byid = {r['id']: r for r in res}
    exprs = []; refusals = []; meta = {}; frz_exprs = []; native_exprs = []; unencodable = {}
    infos = {}
    flagged = {}          # case id -> key of a known-class deviation already attributed
    for c in cases:
        r = byid[c['id']]
        info = case_class(c, r); infos[c['id']] = info
        if 'orig' in r:
            note_sizefn_regime(ctx, r['orig'], info['tmin'])
        ctx.count('maxd=%d' % c['maxd']); ctx.count('tag=' + c['tag'].split(':')[0])
        ctx.count('units=' + c['graph'].get('time_units', 'generations'))
        if info['ancient']: ctx.count('ancient samples')
        if info['tmin'] > 0: ctx.count('all samples ancient (slice)')
        if c.get('Ne') is not None: ctx.count('Ne given')
        if 'error' in r:
            ctx.count('impl raises')
            if info['rename_desc'] and 'ancestor deme' in r['error']:
                flagged[c['id']] = KEY_RENAME
                ctx.violation('from_demes raises %s when all samples are ancient and the deme sampled at the most recent time has '
                              'descendants (or is sampled twice): sampled=%r times=%r' % (r['error'][:120], c['sampled'], c['times']),
                              data={'kind': 'log', 'case': strip(c), 'impl_error': r['error']}, key=KEY_RENAME)
                continue
            mis = [(k + 1, src) for d in bad_frozen for k, src in enumerate(wiring[d]['frozen']) if src != k]
            if mis and 'cannot be frozen' in r['error']:
                key = KEY_FROZEN % mis[0]
                flagged[c['id']] = key
                ctx.violation('from_demes raises %s: a population that is not an ancient-sample branch receives the frozen flag of '
                              'another one (sampled=%r times=%r)' % (r['error'][:100], c['sampled'], c['times']),
                              data={'kind': 'log', 'case': strip(c), 'impl_error': r['error']}, key=key)
                continue
            if r['error'].startswith(('NonPositiveSize', 'Watchdog')):
                # the importer handed an integrator a size function that leaves the positive numbers (every size of the graph is
                # positive), or its run did not end: the graph is the failing input
                nps = r['error'].startswith('NonPositiveSize')
                ctx.count('impl: ' + r['error'].split(':')[0])
                ctx.obligation('case %d (%s): from_demes runs to completion with positive population sizes' % (c['id'], c['tag']), False, 'predicate', r['error'][:300])
                ctx.violation(('from_demes hands the integrator a size function that is not positive although every deme of the graph has positive '
                               'sizes (the native model of the graph integrates positive sizes): %s' if nps else
                               'from_demes does not terminate on a generated graph: %s') % r['error'][:260]
                              + ' (%s; sampled=%r times=%r Ne=%r)' % (c['tag'], c['sampled'], c['times'], c.get('Ne')),
                              data={'kind': 'log', 'case': strip(c), 'impl_error': r['error'], 'last_call': r.get('calls', [])[-1:]},
                              key='from_demes:%s' % ('size-function-not-positive' if nps else 'does-not-terminate'))    # groups further inputs, not a known finding
                continue
            if 'events' in r and 'orig' in r:
                try:
                    ex, ids = log_case_coq(c, r, wiring, pnu)
                    refusals.append((c['id'], ex)); meta[c['id']] = (c, r)
                    continue
                except KeyError as e:
                    pass
            ctx.violation('from_demes raised %s on a generated graph' % r['error'][:200], data={'kind': 'log', 'case': strip(c), 'impl': r.get('tb')},
                          key='from_demes-raises:' + error_class(r['error']))       # groups further inputs, not a known finding
            continue
        for x in r['calls']:
            ctx.count('call ' + x['fn'])
        sig = (json.dumps(c['graph'], sort_keys=True), tuple(c['sampled']), tuple(c['times'] or ()), c.get('Ne'), tuple(c['ns']))
        nontriv = any(x['fn'] in INTEG[1:] or x['fn'].startswith('phi_') and x['fn'] != 'phi_1D' for x in r['calls'])
        ctx.case(signature=sig if nontriv else None,
                 sample={'sampled': c['sampled'], 'times': c['times'], 'Ne': c.get('Ne'), 'tag': c['tag'],
                         'demes': [d['name'] for d in c['graph']['demes']],
                         'program': [x['fn'] for x in r['calls']], 'fs_head': r['fs']['data'][:5]})
        LOG_FS[c.get('tag')] = r['fs']
        if r.get('mutated_inputs'):
            ctx.violation('from_demes modified the caller\'s sampled_demes / sample_times lists', data={'kind': 'log', 'case': strip(c)})
        if r['fs']['pop_ids'] != list(c['sampled']) and not info['ancient']:
            ctx.violation('spectrum labels %r differ from the requested sampled demes %r' % (r['fs']['pop_ids'], c['sampled']),
                          data={'kind': 'log', 'case': strip(c)})
        # the frozen branch of an ancient sample carries the size its parent had at the sampling time
        if info['ancient'] and 'final' in r and 'orig' in r:
            ends_ = {d['name']: d['end_time'] for d in r['orig']['demes']}
            tms_ = c['times'] if c['times'] is not None else [ends_[s_] for s_ in c['sampled']]
            fsz_ = {d['name']: d['epochs'][0]['start_size'] for d in r['final']['demes']}
            for s_, tt in zip(c['sampled'], tms_):
                nm = frozen_name(s_, tt)
                if tt - info['tmin'] > 0 and nm in fsz_:
                    want = resolved_size_at(r['orig'], s_, tt)
                    okf = want is not None and abs(fsz_[nm] - want) <= 1e-12 * max(abs(want), abs(fsz_[nm]))
                    ctx.obligation('case %d: the frozen branch %s has the size of %s at the sampling time' % (c['id'], nm, s_), okf, 'predicate',
                                   '' if okf else 'branch size %r, deme size at %r: %r' % (fsz_[nm], tt, want))
                    if not okf:
                        ctx.violation('the frozen branch of the ancient sample %s@%r has size %r, the deme has size %r at that time'
                                      % (s_, tt, fsz_[nm], want), data={'kind': 'log', 'case': strip(c)}, key='augment:frozen-branch-size-differs-from-parent')
        if info['slice_cut']:
            for fn_, pos_, follows_ in info['slice_cut']:
                ctx.count('all-ancient: %s epoch cut %s, ends before the present' % (fn_, pos_))
                REGIME.add((fn_, pos_)); REGIME.add(('follow', follows_)); REGIME.add(('demes', min(sum(1 for d_ in r['orig']['demes'] if d_['start_time'] > info['tmin'] >= d_['end_time']), 3)))
        ok_neutral = neutral_args_ok(r['calls'])
        ctx.obligation('case %d: every call is neutral (gamma=0, h=0.5, theta0=1, initial_t=0)' % c['id'], ok_neutral, 'correspondence')
        # conclusion of frozen_flags_wired on the real calls
        bad = check_frozen_flags(c, r)
        if info['ancient']:
            ctx.obligation('case %d: frozen flag k = (population k is an ancient-sample branch) in every logged integration call' % c['id'],
                           not bad, 'predicate', repr(bad[:4]))
        if bad:
            d, k, got, want = bad[0]
            mis = [(kk + 1, src) for kk, src in enumerate(wiring[d]['frozen']) if src != kk] if wiring and d in wiring else []
            key = KEY_FROZEN % mis[0] if mis else None
            flagged[c['id']] = key
            r['_frozen_bad'] = (bad, key)
            if key:
                ctx.obligations[-1]['known_key'] = key
        try:
            ex, ids = log_case_coq(c, r, wiring, pnu)
        except KeyError as e:
            ctx.obligation('case %d: logged program can be encoded' % c['id'], False, 'correspondence', repr(e))
            try:
                # the property clause is still evaluated on this graph: from_demes against the model's native program
                _, ids = log_case_coq(c, r, wiring, pnu, native_only=True)
                native_exprs.append((c['id'], ids['__native__'])); meta[c['id']] = (c, r); unencodable[c['id']] = e
            except KeyError:
                ctx.violation('the importer made a call outside the modelled numerical layer: %r' % (e,), data={'kind': 'log', 'case': strip(c)},
                              no_input=True, broken='call-log correspondence')
            continue
        exprs.append((c['id'], ex)); meta[c['id']] = (c, r)
        native_exprs.append((c['id'], ids['__native__']))
        note_pulse_regime(ctx, r['orig'])
        if info['ancient']:
            frz_exprs.append((c['id'], '(%s, %s)' % ids['__std__']))
    results = ctx.coq_cases('log', HEADER, exprs, '(check_prog %s)' % q(TOL), 'tol 1e-12 relative per argument', shard=ctx.pick(8, 12), timeout=1500)
    lap(ctx, 'coq log correspondence (%d cases)' % len(exprs))
    ref_results = ctx.coq_cases('refuse', HEADER, refusals, 'check_refusal', 'exact', shard=4) if refusals else {}
    if frz_exprs:
        fres = ctx.coq_cases('frozen', HEADER, frz_exprs, '(fun c => (frozen_ok (snd c) (fst c), 0%Z))', 'exact', shard=ctx.pick(8, 12))
        for cid, _ in frz_exprs:
            ok = cid in fres and fres[cid][0]
            ctx.obligation('log case %d: conclusion of frozen_flags_wired on the model program (identity wiring, Q instance)' % cid, ok, 'correspondence')
    lap(ctx, 'coq frozen-flag conclusions')
    # the model's program of every graph, written out: the equivalent native dadi model, to be executed below
    mprogs = model_programs(ctx, native_exprs, ctx.pick(8, 12))
    lap(ctx, 'coq model programs written out (%d)' % len(native_exprs))
    mismatch = {}
    for cid, ex in exprs:
        c, r = meta[cid]
        rr = results.get(cid)
        ok = rr is not None and rr[0]
        known = None
        if not ok and infos[cid]['slice_linear']:
            known = KEY_SLICE_LINEAR
        o = ctx.obligation('log case %d (%s): model program = logged program' % (cid, c['tag']), ok, 'correspondence',
                           '' if ok else 'coq: %r (1000+k: first differing call k)' % (rr,))
        if not ok:
            mismatch[cid] = (rr, known)
            if known:
                ctx.obligations[-1]['known_key'] = known
    for cid, ex in refusals:
        c, r = meta[cid]
        rr = ref_results.get(cid)
        ok = rr is not None and rr[0]
        ctx.count('refused by implementation and model' if ok else 'refused by implementation only')
        ctx.obligation('log case %d: the model refuses what the importer refuses (%s)' % (cid, r['error'][:60]), ok, 'correspondence')
        if not ok:
            ctx.violation('from_demes raised %s on a graph the model accepts' % r['error'][:200], data={'kind': 'log', 'case': strip(c), 'impl': r.get('tb')})
    # ---- property predicates on the implementation for every case
    ncases = []
    plan = {}
    native_ids = {cid for cid, _ in native_exprs}
    for c in cases:
        r = byid[c['id']]
        if 'error' in r or 'fs' not in r:
            continue
        jobs = numeric_jobs(ctx, c, r, infos[c['id']])
        if c.get('native_ops'):
            ops = json.loads(json.dumps(c['native_ops']))
            fsz = {d['name']: d['epochs'][0]['start_size'] for d in r.get('final', {}).get('demes', [])}
            NeV = c['Ne'] if c.get('Ne') is not None else r['orig']['demes'][0]['epochs'][0]['start_size']
            for op in ops:
                if op[0] == 'integrate':
                    for sf in op[2]:
                        if sf[1] == '@frozen':
                            nm = [n for n in fsz if '_sampled_' in n]
                            sf[1] = (fsz[nm[0]] if nm else 1.0) / NeV
            jobs.append(('native:' + c['tag'], {'kind': 'native', 'ops': ops, 'ns': c['ns'], 'pts': c['pts'], 'all_funcs': True}, None, None))
        # "equals the spectrum of the equivalent hand-written dadi model", per graph: the model's program for THIS graph
        # (identity wiring) executed call by call with dadi.PhiManip / dadi.Integration, against from_demes
        if c['id'] in meta and c['id'] in native_ids:
            prog = mprogs.get(c['id'])
            okp = prog is not None and not any(x['fn'] == 'error' for x in prog)
            ctx.obligation('case %d: the model gives a native program for this graph' % c['id'], okp, 'correspondence',
                           '' if okp else ('no program read back' if prog is None else 'the model refuses: %r' % [x.get('code') for x in prog if x['fn'] == 'error']))
            if okp:
                jobs.append(('model-native', {'kind': 'prog', 'calls': prog, 'pts': c['pts']}, None, None))
        plan[c['id']] = jobs
        ncases.append({'id': c['id'], 'jobs': [j for _, j, _, _ in jobs]})
    nres = impl_chunks('numeric', ncases, size=20)
    lap(ctx, 'impl numeric jobs (%d cases, %d jobs)' % (len(ncases), sum(len(x['jobs']) for x in ncases)))
    nby = {r['id']: r for r in nres}
    worst = 0.0
    failing = set()
    for c in cases:
        if c['id'] not in plan:
            continue
        r = byid[c['id']]
        nr = nby[c['id']]
        if 'error' in nr:
            ctx.obligation('numeric jobs of case %d ran' % c['id'], False, 'harness', nr['error'])
            continue
        for (label, job, perm, key), jr in zip(plan[c['id']], nr['jobs']):
            kind = label.split(':')[0]
            ctx.count('numeric ' + kind)
            if 'error' in jr:
                k2 = KEY_RENAME if infos[c['id']]['rename_desc'] else None
                ctx.obligation('case %d %s' % (c['id'], label), False, 'predicate', jr['error'][:200])
                ctx.violation('%s: the transformed input makes from_demes raise %s' % (label, jr['error'][:160]),
                              data={'kind': 'numeric', 'case': strip(c), 'variant': label, 'job': job}, key=k2)
                failing.add(c['id'])
                continue
            e = fs_rel(r['fs'], jr['fs'], perm)
            ok = e is not None and e <= NUM_TOL
            if e is not None and ok:
                worst = max(worst, e)
                ctx.err('numeric:' + kind, int(math.floor(math.log2(e))) if e > 0 else -1074, 'tol 1e-9 relative to the largest entry')
            known = None
            if not ok:
                failing.add(c['id'])
                if r.get('_frozen_bad') and kind in ('ancient-as-explicit-frozen-branch', 'native', 'model-native'):
                    known = r['_frozen_bad'][1]
                elif key is not None:
                    known = key
                elif kind in ('native', 'model-native') and c.get('Ne') is not None and not pnu:
                    known = 'compute_sfs:initial-phi-ignores-root-size'
                elif kind == 'model-native' and c['id'] in mismatch and mismatch[c['id']][1]:
                    known = mismatch[c['id']][1]
                elif kind == 'model-native' and not infos[c['id']]['slice_class']:
                    # not a known finding: groups the further failing graphs of one kind under the first one
                    known = 'equivalent-native-program:first-differing-call-%s' % first_difference(job['calls'], r['calls'])
                elif infos[c['id']]['slice_class']:
                    # not a known finding: groups the further failing inputs of one input class under the first one
                    known = 'all-samples-ancient:%s:%s' % (infos[c['id']]['slice_class'], kind)
            o = ctx.obligation('case %d (%s) %s: spectrum unchanged' % (c['id'], c['tag'], label), ok, 'predicate',
                               '' if ok else 'relative deviation %r' % (e,))
            if not ok:
                if known:
                    ctx.obligations[-1]['known_key'] = known
                what = {'units': 'the same graph in other time units gives a different spectrum',
                        'rescale': 'the same demography relative to another reference size (sizes, times x c, rates / c, Ne x c) gives a different spectrum',
                        'order': 'listing the sampled demes in another order does not just permute the axes',
                        'ancient-as-explicit-frozen-branch': 'an ancient sample differs from the explicit frozen branch',
                        'native': 'the hand-written native dadi model differs from from_demes',
                        'pulse-listing': 'listing the (source, proportion) pairs of a pulse in another order gives a different spectrum',
                        'model-native': 'from_demes differs from the equivalent native dadi model of this graph (the model\'s program: '
                                        'phi_1D / split / admix / pulse / integrate calls with their arguments, executed with '
                                        'dadi.PhiManip and dadi.Integration)%s' % (
                                            '; the importer\'s own call sequence differs from it (coq %r)' % (mismatch[c['id']][0],)
                                            if c['id'] in mismatch else
                                            '; the importer made a call outside the modelled numerical layer' if c['id'] in unencodable else '')}[kind]
                ctx.violation('%s (%s; deviation %s of the largest entry; sampled=%r times=%r Ne=%r)' % (what, label, '%.3g' % e if e is not None else 'shape/mask', c['sampled'], c['times'], c.get('Ne')),
                              data={'kind': 'numeric', 'case': strip(c), 'variant': label, 'job': job, 'deviation': e,
                                    'frozen_flags': r.get('_frozen_bad', [None])[0]}, key=known)
    # ---- frozen flags wired wrongly but without numeric consequence found / correspondence mismatches without failing predicate
    for c in cases:
        r = byid[c['id']]
        if r.get('_frozen_bad') and c['id'] not in failing:
            bad, key = r['_frozen_bad']
            ctx.violation('integration call with %d populations: frozen flag of population %d is %r, should be %r (labels %r)'
                          % (bad[0][0], bad[0][1], bad[0][2], bad[0][3], c['sampled']), data={'kind': 'log', 'case': strip(c), 'flags': bad}, key=key)
    for cid, e in unencodable.items():
        if cid not in failing:
            ctx.violation('the importer made a call outside the modelled numerical layer: %r; from_demes still equals the model\'s native '
                          'program for this graph' % (e,), data={'kind': 'log', 'case': strip(meta[cid][0])}, no_input=True, broken='call-log correspondence')
    for cid, (rr, known) in mismatch.items():
        c, r = meta[cid]
        if cid in failing:
            continue        # a failing input of the property itself has been reported for this case
        ctx.violation('the importer\'s call sequence differs from the model for this graph (coq %r); no invariance of the property fails on it '
                      'and its spectrum equals that of the model\'s native program at 1e-9' % (rr,), data={'kind': 'log', 'case': strip(c), 'calls': r['calls']}, key=known, no_input=True,
                      broken='call-log correspondence case %d' % cid)
    # wiring obligations that failed without any case exhibiting them
    if bad_frozen and not ctx.replay and not any(byid[c['id']].get('_frozen_bad') for c in cases):
        ctx.violation('frozen-flag wiring of _integrate_phi is not the identity for d in %r but no generated case exhibits it' % bad_frozen,
                      no_input=True, broken='generated obligation C16_ob_frozen%d' % bad_frozen[0])
    if not ctx.replay:
        need = [(fn_, pos_) for fn_ in ('exponential', 'linear') for pos_ in ('inside', 'at its end')] + \
               [('follow', x) for x in ('epoch', 'extinct', 'split')] + [('demes', k) for k in (1, 2, 3)]
        for x in need:
            ctx.obligation('generator coverage: every sample ancient and the slice cuts a non-constant epoch that ends before the present - %s %s'
                           % x, x in REGIME, 'harness', '' if x in REGIME else 'no generated case reached this part of the regime')
        for x in PULSE_NEED:
            ctx.obligation('generator coverage: a pulse with several sources and pairwise different proportions - %s' % x,
                           x in PULSE_REGIME, 'harness', '' if x in PULSE_REGIME else 'no generated case reached this part of the regime')
        for x in SIZEFN_NEED:
            ctx.obligation('generator coverage: an integration epoch in which the demes change size with pairwise different parameters - %s' % x,
                           x in SIZEFN_REGIME, 'harness', '' if x in SIZEFN_REGIME else 'no generated case reached this part of the regime')
    lap(ctx, 'log phase rest')
    return {c['id']: byid[c['id']]['orig'] for c in cases if 'orig' in byid[c['id']]}

# ---------------------------------------------------------------------------------------------------------------
# DemesUtil.slice on its own: the real sliced graph against the model's [slice] (in Coq) and against `demes`' own
# Deme.size_at / migration intervals of the input graph (predicate of C16_slice_preserves_size_functions on the real code)

SLICE_TOL = 1e-12

def slice_times(orig, rng, tmin, k, everything):
    """slice times for one resolved graph, by class: the case's own slice time; A strictly inside a non-constant epoch that
    ends before the present; B exactly at the end of such an epoch; C inside a non-constant epoch that runs to the present;
    D at another epoch boundary / deme end; E at a pulse time or migration boundary; F at a deme's start time"""
    cls = {x: set() for x in 'ABCDEF'}
    for d in orig['demes']:
        if d['start_time'] != INF:
            cls['F'].add(d['start_time'])
        for e in d['epochs']:
            st, en = e['start_time'], e['end_time']
            if e['size_function'] != 'constant' and st != INF:
                if en > 0:
                    cls['A'].add((st + en) / 2); cls['B'].add(en)
                else:
                    cls['C'].add((st + en) / 2)
            elif en > 0:
                cls['D'].add(en)
    for p in orig['pulses']:
        cls['E'].add(p['time'])
    for m in orig['migrations']:
        for x in (m['start_time'], m['end_time']):
            if x != INF and x > 0:
                cls['E'].add(x)
    out = [('own', tmin)] if tmin > 0 else []
    rest = [x for x in 'CDEF' if cls[x]]
    pick = ['A', 'B'] + (rest if everything else ([rest[k % len(rest)]] if rest else []))
    for x in pick:
        if cls[x]:
            t = rng.choice(sorted(cls[x]))
            if t > 0 and t not in [u for _, u in out]:
                out.append((x, t))
    return out

def slice_predicate(orig, one):
    """[(category, what, detail)] : where the real sliced graph does not keep the demography more ancient than t, shifted by t"""
    t = one['t']; sl = one['sliced']; bad = []
    close = lambda a, b: a == b or (a is not None and b is not None and abs(a - b) <= SLICE_TOL * max(abs(a), abs(b)))
    want = [d for d in orig['demes'] if d['start_time'] > t]
    if [d['name'] for d in sl['demes']] != [d['name'] for d in want]:
        bad.append(('demes', 'the sliced graph has demes %r, expected those older than the slice time: %r'
                    % ([d['name'] for d in sl['demes']], [d['name'] for d in want]), None))
        return bad
    for d, w in zip(sl['demes'], want):
        if not close(d['start_time'], w['start_time'] - t) or not close(d['end_time'], max(0.0, w['end_time'] - t)):
            bad.append(('lifetime', 'deme %s lives over [%r, %r) in the sliced graph, expected [%r, %r)'
                        % (d['name'], d['start_time'], d['end_time'], w['start_time'] - t, max(0.0, w['end_time'] - t)), None))
    for name, u, got, ref in one['size_probes']:
        if not close(got, ref):
            bad.append(('size', 'deme %s has size %r at time %r of the graph sliced at %r, but size %r at time %r of the original graph'
                        % (name, got, u, t, ref, u + t), {'deme': name, 'u': u, 'sliced_size': got, 'original_size': ref}))
    for s_, d_, u, got, ref in one['mig_probes']:
        if not close(got, ref):
            bad.append(('migration-rate', 'migration %s -> %s has rate %r at time %r of the graph sliced at %r, but %r at time %r of the original graph'
                        % (s_, d_, got, u, t, ref, u + t), {'source': s_, 'dest': d_, 'u': u}))
    wp = [p for p in orig['pulses'] if p['time'] > t]
    gp = sl['pulses']
    if len(wp) != len(gp) or any(p['sources'] != q_['sources'] or p['dest'] != q_['dest'] or not close(p['time'] - t, q_['time'])
                                 or p['proportions'] != q_['proportions'] for p, q_ in zip(wp, gp)):
        bad.append(('pulses', 'the pulses of the sliced graph are %r, expected %r shifted by %r' % (gp, wp, t), None))
    return bad

def slice_case_coq(orig, one):
    ids = {d['name']: i for i, d in enumerate(orig['demes'])}
    sp = '[' + '; '.join('(%d%%nat, %s, %s)' % (ids[n], q(u), q(v)) for n, u, v, _ in one['size_probes']) + ']'
    mp = '[' + '; '.join('(%d%%nat, %d%%nat, %s, %s)' % (ids[a], ids[bb], q(u), q(v)) for a, bb, u, v, _ in one['mig_probes']) + ']'
    return '(%s, %s, %s, (%s : list (nat * Q * Q)), (%s : list (nat * nat * Q * Q)))' % (
        graph_coq(orig, ids), q(one['t']), graph_coq(one['sliced'], ids), sp, mp)

def slice_phase(ctx, cases, origs):
    """cases: log cases (graph | yaml, tmin); origs: {case id: resolved graph} where known"""
    import random
    rng = random.Random('C16-slice-times-%d' % ctx.seed)
    jobs = []
    for c in cases:
        if c.get('slice_ts') is not None:
            ts = [('replay', t) for t in c['slice_ts']]
        elif ctx.quick and c['tag'].startswith('sizefn-family'):
            continue            # that family is about the size functions of one integration epoch, not about slicing (thorough tier only)
        else:
            orig = origs.get(c['id'])
            if orig is None:
                continue
            ends = {d['name']: d['end_time'] for d in orig['demes']}
            times = c['times'] if c.get('times') is not None else [ends.get(s_, 0.0) for s_ in c['sampled']]
            ts = slice_times(orig, rng, min(times) if times else 0.0, c['id'], not ctx.quick or c['tag'].split(':')[0] in ('slice-family', 'boundary'))
        if not ts:
            continue
        j = {'id': c['id'], 'ts': [t for _, t in ts], '_cls': [x for x, _ in ts], '_tag': c['tag']}
        if c.get('yaml'):
            j['yaml'] = c['yaml']
        else:
            j['graph'] = c['graph']
        jobs.append(j)
    res = impl_chunks('slice', [{k: v for k, v in j.items() if not k.startswith('_')} for j in jobs], size=60)
    byid = {r['id']: r for r in res}
    lap(ctx, 'impl slice runs (%d graphs, %d slices)' % (len(jobs), sum(len(j['ts']) for j in jobs)))
    exprs = []; meta = {}
    failing = set()
    for j in jobs:
        r = byid[j['id']]
        data0 = {'kind': 'slice', 'case': {k: v for k, v in j.items() if k in ('graph', 'yaml')}, 'graph_yaml': r.get('yaml')}
        data0['case']['tag'] = j['_tag']; data0['case']['sampled'] = []; data0['case']['times'] = None
        if 'error' in r:
            ctx.obligation('slice job %d ran' % j['id'], False, 'harness', r['error'])
            continue
        for cls, one in zip(j['_cls'], r['slices']):
            sid = j['id'] * 16 + len([1 for k in meta if k // 16 == j['id']])
            ctx.count('slice time class ' + cls)
            data = json.loads(json.dumps(data0)); data['case']['slice_ts'] = [one['t']]; data['slice_time'] = one['t']
            if 'error' in one:
                ctx.obligation('slice %d (%s, t=%r): DemesUtil.slice runs' % (sid, j['_tag'], one['t']), False, 'predicate', one['error'])
                ctx.violation('DemesUtil.slice(g, %r) raises %s on a resolved graph' % (one['t'], one['error'][:160]), data=dict(data, impl=one.get('tb')),
                              key='DemesUtil.slice:raises-%s' % one['error'].split(':')[0])
                failing.add(sid); meta[sid] = (j, one, data)
                continue
            cut = [e for d in r['orig']['demes'] if d['start_time'] > one['t'] for e in d['epochs']
                   if e['start_time'] > one['t'] >= e['end_time'] and e['size_function'] != 'constant']
            if cut:
                ctx.count('slice cuts a non-constant epoch')
                if any(e['end_time'] > 0 for e in cut):
                    ctx.count('slice cuts a non-constant epoch that ends before the present')
                if any(e['end_time'] == one['t'] for e in cut):
                    ctx.count('slice exactly at the end of a non-constant epoch')
            bad = slice_predicate(r['orig'], one)
            ctx.obligation('slice %d (%s, t=%r): the sliced graph is the demography older than t shifted by t (sizes by Deme.size_at, '
                           'lifetimes, migration rates, pulses)' % (sid, j['_tag'], one['t']), not bad, 'predicate', bad[0][1] if bad else '')
            meta[sid] = (j, one, data)
            if bad:
                failing.add(sid)
                ctx.violation('DemesUtil.slice does not keep the demography at the slice time: %s' % bad[0][1],
                              data=dict(data, deviations=[b_[2] or b_[1] for b_ in bad[:6]]),
                              key='DemesUtil.slice:%s-not-preserved' % bad[0][0])      # groups further inputs, not a known finding
            exprs.append((sid, slice_case_coq(r['orig'], one)))
    results = ctx.coq_cases('slice', HEADER, exprs, '(check_slice %s)' % q(TOL), 'tol 1e-12 relative per number', shard=24, timeout=1500)
    lap(ctx, 'coq slice correspondence (%d slices)' % len(exprs))
    for sid, _ in exprs:
        j, one, data = meta[sid]
        rr = results.get(sid)
        ok = rr is not None and rr[0]
        ctx.obligation('slice %d (%s, t=%r): real sliced graph = model slice; conclusion of slice_preserves_size_functions / '
                       '_migration_rates on the Q instance' % (sid, j['_tag'], one['t']), ok, 'correspondence',
                       '' if ok else 'coq: %r (1000: structure; 2000+k / 3000+k: probe k undefined)' % (rr,))
        if not ok and sid not in failing:
            ctx.violation('the graph returned by DemesUtil.slice(g, %r) differs from the model (coq %r); sizes and rates probed on it agree '
                          'with the original graph' % (one['t'], rr), data=data, no_input=True, broken='slice correspondence %d' % sid)

# ---------------------------------------------------------------------------------------------------------------
# export round trip

def forced_programs():
    out = []
    sf = lambda d: [['c', 1.0 + 0.5 * i] for i in range(d)]
    base4 = [['phi_1D', 1.0], ['integrate', 0.125, sf(1), None, None], ['split', 1], ['integrate', 0.125, sf(2), None, None],
             ['split', 2], ['integrate', 0.0625, sf(3), None, None], ['split', 1], ['integrate', 0.0625, sf(4), None, None]]
    for dest in (1, 2, 3, 4):
        out.append((base4 + [['pulse', dest, [0.125, 0.0, 0.25]], ['integrate', 0.0625, sf(4), None, None]], 4, 'forced-4D-pulse-into-%d' % dest))
    base5 = base4 + [['split', 3], ['integrate', 0.0625, sf(5), None, None]]
    for dest in (1, 2, 3, 4, 5):
        out.append((base5 + [['pulse', dest, [0.125, 0.0, 0.25, 0.0]], ['integrate', 0.03125, sf(5), None, None]], 5, 'forced-5D-pulse-into-%d' % dest))
    return out + reorder_pulse_programs() + sizefn_programs()

def sizefn_programs():
    """one integration in which 2..5 populations change size with pairwise different parameters: linear/linear (the first
    shrinking while the last grows, and the other way round), linear/exponential, exponential/exponential, and a linearly
    changing population next to constant ones inside a non-constant integration (Demes.output labels those constant
    populations `linear` with equal sizes; in a 4- / 5-population integration every population is exported that way) - the
    re-imported graph then has several `linear` demes with different slopes in one epoch."""
    L = lambda a, b_: ['l', a, b_]; E = lambda a, b_: ['e', a, b_]; K = lambda a: ['c', a]
    out = []
    pre = {2: [['phi_1D', 1.0], ['integrate', 0.125, [K(1.0)], None, None], ['split', 1]],
           3: [['phi_1D', 1.0], ['integrate', 0.125, [K(1.0)], None, None], ['split', 1],
               ['integrate', 0.0625, [K(1.5), K(0.75)], None, None], ['split', 2]]}
    pre[4] = pre[3] + [['integrate', 0.0625, [K(1.5), K(0.75), K(2.0)], None, None], ['split', 1]]
    pre[5] = pre[4] + [['integrate', 0.03125, [K(1.5), K(0.75), K(2.0), K(1.0)], None, None], ['split', 3]]
    combos = [
        (2, 'linear-down/linear-up', [L(2.0, 0.5), L(0.75, 3.0)]), (2, 'linear-up/linear-down', [L(0.5, 2.5), L(3.0, 1.0)]),
        (2, 'linear-up/linear-up', [L(0.5, 1.5), L(1.0, 4.0)]), (2, 'linear/exponential', [L(2.0, 0.75), E(0.5, 2.0)]),
        (2, 'exponential/linear', [E(3.0, 1.0), L(0.5, 2.0)]), (2, 'exponential/exponential', [E(1.0, 3.0), E(2.0, 0.5)]),
        (2, 'linear/constant', [L(2.0, 0.5), K(1.5)]), (2, 'constant/linear', [K(1.5), L(0.5, 2.5)]),
        (2, 'exponential/constant', [E(0.5, 2.0), K(0.75)]),
        (3, 'linear/linear/linear', [L(2.0, 0.5), L(0.75, 3.0), L(1.0, 1.5)]), (3, 'linear/exponential/linear', [L(0.5, 2.0), E(3.0, 1.0), L(2.5, 0.75)]),
        (3, 'exponential/linear/exponential', [E(0.5, 1.5), L(2.0, 0.5), E(4.0, 1.0)]), (3, 'exponential/exponential/exponential', [E(0.5, 1.5), E(3.0, 0.75), E(1.0, 4.0)]),
        (3, 'linear/constant/linear', [L(2.0, 0.5), K(1.25), L(0.75, 3.0)]), (3, 'constant/linear/constant', [K(1.5), L(0.5, 2.0), K(0.75)]),
        (3, 'linear/constant/exponential', [L(3.0, 1.0), K(0.75), E(0.5, 2.0)]),
        (4, 'linear/constant/constant/constant', [L(2.0, 0.5), K(1.5), K(0.75), K(1.0)]), (4, 'constant/linear/linear/exponential', [K(1.5), L(0.5, 2.0), L(3.0, 1.0), E(1.0, 2.0)]),
        (5, 'linear/constant/constant/constant/constant', [L(0.5, 2.0), K(1.5), K(0.75), K(1.0), K(2.0)]),
        (5, 'constant/linear/exponential/linear/constant', [K(1.5), L(2.0, 0.5), E(0.5, 1.5), L(0.75, 3.0), K(1.0)])]
    for k, (d, name, sfs) in enumerate(combos):
        M = None
        if k % 3 == 1:
            M = [[0.0 if a == b_ else [0.5, 0.25, 1.0][(a + 2 * b_) % 3] if (a + b_) % 2 == 1 else 0.0 for b_ in range(d)] for a in range(d)]
        T = {2: 0.125, 3: 0.125, 4: 0.0625, 5: 0.03125}[d]
        out.append((pre[d] + [['integrate', T, sfs, M, None]], d, 'forced-sizefn-%d-%s' % (d, name)))
    return out

def reorder_pulse_programs():
    """reorder_pops, then a pulse with several sources and pairwise different non-zero fractions: the exported pulse lists its
    sources in the program's order, which is no longer the order in which the populations appeared.  Every non-identity
    order of three populations (destination rotating), and four populations with three sources."""
    out = []
    sf = lambda d, k=0: [['c', 1.0 + 0.5 * ((i + k) % d)] for i in range(d)]
    base3 = [['phi_1D', 1.0], ['integrate', 0.125, sf(1), None, None], ['split', 1], ['integrate', 0.125, sf(2), [[0.0, 0.5], [0.0, 0.0]], None],
             ['split', 1], ['integrate', 0.0625, sf(3), [[0.0, 0.0, 0.25], [0.0, 0.0, 0.0], [0.5, 0.0, 0.0]], None]]
    for k, order in enumerate([o for o in itertools.permutations((1, 2, 3)) if o != (1, 2, 3)]):
        # a destination for which the two sources are then listed against the order in which they appeared
        dest = [d_ for d_ in ((k + j) % 3 + 1 for j in range(3)) if [o for i, o in enumerate(order) if i != d_ - 1] != sorted(o for i, o in enumerate(order) if i != d_ - 1)][0]
        out.append((base3 + [['reorder', list(order)], ['pulse', dest, [0.125, 0.3125] if k % 2 == 0 else [0.25, 0.0625]],
                             ['integrate', 0.0625, sf(3, k), None, None]], 3, 'forced-reorder-%s-then-two-source-pulse-into-%d' % (''.join(map(str, order)), dest)))
    base4 = base3 + [['split', 2], ['integrate', 0.0625, sf(4), None, None]]
    for k, order in enumerate([(4, 3, 2, 1), (2, 3, 4, 1), (3, 1, 4, 2)]):
        dest = [2, 1, 1][k]
        out.append((base4 + [['reorder', list(order)], ['pulse', dest, [0.0625, 0.25, 0.125]], ['integrate', 0.0625, sf(4, k), None, None]], 4,
                    'forced-reorder-%s-then-three-source-pulse-into-%d' % (''.join(map(str, order)), dest)))
    return out

def reorder_before_multi_source_pulse(ops):
    """does the program reorder its populations (to another order than that of their appearance) before a pulse with
    several sources and pairwise different non-zero fractions?"""
    pos = []
    for op in ops:
        if op[0] == 'phi_1D': pos = [0]
        elif op[0] in ('split', 'admix_new'): pos.append(len(pos))
        elif op[0] == 'remove':
            p_ = pos[op[1] - 1]; del pos[op[1] - 1]; pos = [x - 1 if x > p_ else x for x in pos]
        elif op[0] == 'reorder': pos = [pos[o - 1] for o in op[1]]
        elif op[0] == 'pulse':
            nz = [f for f in op[2] if f != 0]
            src = [pos[i] for i in range(len(pos)) if i != op[1] - 1]
            src = [x for x, f in zip(src, op[2]) if f != 0]
            if len(nz) >= 2 and len(set(nz)) == len(nz) and src != sorted(src):
                return True
    return False

def close(a, b, tol=1e-9):
    return a == b or abs(a - b) <= tol * max(abs(a), abs(b))

def history(calls):
    """the program as a labelled history: every axis carries a label; a split gives both resulting axes fresh labels
    (the density after a split is symmetric in them), admixture creates one new label, pulses / removal refer to labels"""
    cnt = itertools.count()
    axes = []; H = []
    def val(v):
        return [p[1] for p in v['f']] if isinstance(v, dict) else [v] * 5
    for x in calls:
        fn = x['fn']; a = x['args']
        if fn == 'phi_1D':
            axes = [next(cnt)]; H.append(('init', axes[0], a['nu']))
        elif fn in INTEG:
            d = INTEG.index(fn) + 1
            nus = {axes[k]: val(a['nu' if d == 1 else 'nu%d' % (k + 1)]) for k in range(d)}
            M = {(axes[i], axes[j]): a['m%d%d' % (i + 1, j + 1)] for i in range(d) for j in range(d) if i != j and a['m%d%d' % (i + 1, j + 1)] != 0} if d > 1 else {}
            fr = {axes[k]: bool(a['frozen' if d == 1 else 'frozen%d' % (k + 1)]) for k in range(d)}
            # Integration._compute_dt at the start of the integration (default timescale_factor 1e-3): when the whole
            # integration is a single step only the end sizes are ever evaluated, the shape of the size function is unobservable
            maxvm = max(max(0.25 / nus[axes[i]][0], sum(abs(M.get((axes[i], axes[j]), 0.0)) for j in range(d) if j != i)) for i in range(d))
            single = 1e-3 / maxvm >= a['T']
            if single:
                nus = {k: [v[0], v[-1]] for k, v in nus.items()}
            H.append(('int', a['T'], nus, M, fr, list(axes), single))
        elif fn in ('phi_1D_to_2D', 'phi_2D_to_3D_split_1', 'phi_2D_to_3D_split_2', 'phi_2D_to_3D_admix', 'phi_3D_to_4D', 'phi_4D_to_5D'):
            d = len(axes)
            if fn == 'phi_1D_to_2D': props = [1]
            elif fn == 'phi_2D_to_3D_split_1': props = [1, 0]
            elif fn == 'phi_2D_to_3D_split_2': props = [0, 1]
            else:
                fs = [a[k] for k in ('f1', 'f2', 'f3') if k in a]
                props = fs + [1 - sum(fs)]
            nz = [i for i, pp in enumerate(props) if pp != 0]
            if len(nz) == 1:
                i = nz[0]; par = axes[i]; c1, c2 = next(cnt), next(cnt)
                axes[i] = c1; axes.append(c2); H.append(('split', par, (c1, c2)))
            else:
                c = next(cnt); H.append(('admix', {axes[i]: props[i] for i in nz}, c)); axes.append(c)
        elif fn in PULSE_OF:
            d, dest = PULSE_OF[fn]
            fs = [v for k, v in a.items() if k.startswith('f')]
            others = [axes[i] for i in range(d) if i != dest - 1]
            src = {o: f for o, f in zip(others, fs) if f != 0}
            if src:
                H.append(('pulse', axes[dest - 1], src))
        elif fn == 'remove_pop':
            H.append(('remove', axes[a['popnum'] - 1])); del axes[a['popnum'] - 1]
        elif fn == 'reorder_pops':
            axes = [axes[i - 1] for i in a['neworder']]
        elif fn == 'from_phi':
            H.append(('final', tuple(axes), tuple(a['ns'])))
    return H

def match_histories(H0, H1):
    """(ok, same_axis_order, why): is there a relabelling under which the two histories coincide?  same_axis_order: every
    integration then also runs with the populations in the same order (the alternating-direction scheme treats the
    corners of the frequency cube direction by direction, so the order matters at the level of the time-step error
    even without migration: three_pops on the same density with axes reversed differs by 1e-2 for a random density)"""
    if [e[0] for e in H0] != [e[0] for e in H1]:
        return False, False, 'event sequences differ: %s vs %s' % ([e[0] for e in H0], [e[0] for e in H1])
    why = [(-1, '')]
    def setwhy(k, msg):
        if k > why[0][0]:
            why[0] = (k, msg)
    def dmatch(d0, d1, m, cmpv):
        if len(d0) != len(d1):
            return False
        for k, v in d0.items():
            k1 = tuple(m.get(x) for x in k) if isinstance(k, tuple) else m.get(k)
            if k1 not in d1 or not cmpv(v, d1[k1]):
                return False
        return True
    def go(k, m, same):
        if k == len(H0):
            return True, same
        e0, e1 = H0[k], H1[k]
        t = e0[0]
        if t == 'init':
            if not close(e0[2], e1[2]):
                setwhy(k, 'initial size %r vs %r' % (e0[2], e1[2])); return False, False
            return go(k + 1, {**m, e0[1]: e1[1]}, same)
        if t == 'int':
            okk = close(e0[1], e1[1]) and e0[6] == e1[6] and dmatch(e0[2], e1[2], m, lambda u, v: all(close(x, y) for x, y in zip(u, v))) \
                and dmatch(e0[3], e1[3], m, close) and dmatch(e0[4], e1[4], m, lambda u, v: u == v)
            if not okk:
                setwhy(k, 'integration %d differs under the relabelling (T %r vs %r)' % (k, e0[1], e1[1])); return False, False
            s2 = same and [m[x] for x in e0[5]] == e1[5]
            return go(k + 1, m, s2)
        if t == 'split':
            if m.get(e0[1]) != e1[1]:
                setwhy(k, 'event %d: another population is split' % k); return False, False
            for c in (e1[2], e1[2][::-1]):
                r = go(k + 1, {**m, e0[2][0]: c[0], e0[2][1]: c[1]}, same)
                if r[0]:
                    return r
            return False, False
        if t == 'admix':
            if not dmatch(e0[1], e1[1], m, close):
                setwhy(k, 'event %d: admixture proportions differ' % k); return False, False
            return go(k + 1, {**m, e0[2]: e1[2]}, same)
        if t == 'pulse':
            if m.get(e0[1]) != e1[1] or not dmatch(e0[2], e1[2], m, close):
                setwhy(k, 'event %d: pulse differs' % k); return False, False
            return go(k + 1, m, same)
        if t == 'remove':
            if m.get(e0[1]) != e1[1]:
                setwhy(k, 'event %d: another population is removed' % k); return False, False
            return go(k + 1, m, same)
        if t == 'final':
            if tuple(m.get(x) for x in e0[1]) != e1[1] or e0[2] != e1[2]:
                setwhy(k, 'final order of the populations differs'); return False, False
            return go(k + 1, m, same)
        return False, False
    ok, same = go(0, {}, True)
    return ok, same, '' if ok else why[0][1]

def export_phase(ctx, progs, pulses_bad, pnu):
    rng = ctx.rng
    if progs is None:
        progs = []
        n = ctx.pick(24, 300)
        dist = [1, 2, 2, 3, 3, 3, 4, 5]
        for i in range(n):
            maxd = dist[i % len(dist)]
            ops, d = G.gen_program(rng, maxd)
            progs.append({'ops': ops, 'ns': [rng.randint(1, 3 if d <= 3 else 2) for _ in range(d)], 'pts': {1: 14, 2: 12, 3: 9, 4: 6, 5: 5}[maxd],
                          'Nref': rng.choice([8.0, 16.0, 100.0, 1000.0]), 'gen_time': rng.choice([None, None, 25.0]), 'tag': 'random'})
        for ops, d, tag in forced_programs():
            progs.append({'ops': ops, 'ns': [2 if d <= 3 else 1] * d, 'pts': {2: 12, 3: 9, 4: 6, 5: 5}[d], 'Nref': 8.0, 'gen_time': None, 'tag': tag})
        for f, sampled, ns, pts in YAMLS:
            progs.append({'yaml': os.path.join(TESTS_DEMES, f), 'sampled': sampled, 'ns': ns, 'pts': pts, 'tag': 'yaml:' + f,
                          'Nref': {'bottleneck.yaml': 1e4, 'browning_america.yaml': 7310, 'gutenkunst_ooa.yaml': 7300, 'linear_size_function_example.yaml': 100,
                                   'offshoots.yaml': 1000, 'two_epoch.yaml': 1000, 'zigzag.yaml': 7156}[f],
                          'gen_time': 25 if f == 'gutenkunst_ooa.yaml' else None})
        for i, p in enumerate(progs):
            p['id'] = i
    for p in progs:
        if p.get('ops') is not None:
            p['ops_norm'] = G.normalize_program(p['ops'])
    if not ctx.replay:
        nrp = sum(1 for p in progs if p.get('ops') is not None and reorder_before_multi_source_pulse(p['ops']))
        ctx.count('export: reorder_pops before a multi-source pulse with different fractions', nrp)
        ctx.obligation('generator coverage: export programs that reorder the populations before a pulse with several sources and '
                       'pairwise different fractions (sources then listed in another order than the populations appeared)', nrp >= 6, 'harness',
                       '%d programs' % nrp)
    lap(ctx, 'export generation')
    res = impl_chunks('export', progs, size=30)
    lap(ctx, 'impl export runs (%d programs)' % len(progs))
    byid = {r['id']: r for r in res}
    for p in progs:
        r = byid[p['id']]
        ops = p.get('ops') or []
        ctx.count('export tag=' + p['tag'].split(':')[0])
        for op in ops:
            ctx.count('export op ' + op[0])
        # input classes in which the current source is known to deviate
        keys = []
        dcur = 0
        for op in ops:
            if op[0] == 'phi_1D':
                dcur = 1
                if op[1] != 1 and not pnu:
                    keys.append(KEY_INIT_PHI)
            elif op[0] == 'split': dcur += 1
            elif op[0] == 'admix_new':
                fs = op[1] + [1 - sum(op[1])]
                if sum(1 for f in fs if f != 0) > 1:
                    keys.append(KEY_EXPORT_ADMIX)
                dcur += 1
            elif op[0] == 'remove': dcur -= 1
            elif op[0] == 'pulse':
                fn = PULSES[dcur][op[1] - 1]
                if fn in pulses_bad:
                    keys.append('export:%s-%s' % (fn, 'records-no-event' if pulses_bad[fn] is None else 'records-wrong-event'))
        p['_keys'] = keys
        data = {'kind': 'export', 'case': {k: v for k, v in p.items() if k not in ('id', '_keys')}}
        if 'error' in r:
            key = None
            if KEY_EXPORT_ADMIX in keys and 'is not in list' in r['error']:
                key = KEY_EXPORT_ADMIX
            elif keys:
                key = [k for k in keys if k != KEY_EXPORT_ADMIX][0] if [k for k in keys if k != KEY_EXPORT_ADMIX] else None
            ctx.obligation('export case %d (%s): export and re-import run' % (p['id'], p['tag']), False, 'predicate', r['error'][:200])
            if key:
                ctx.obligations[-1]['known_key'] = key
            ctx.violation('exporting and re-importing a native program raises %s (program %s)' % (r['error'][:150], json.dumps(ops)[:300]),
                          data=dict(data, impl=r.get('tb')), key=key)
            continue
        sig = json.dumps(ops) if ops else p['tag']
        ctx.case(signature=sig, sample={'ops': ops[:8], 'exported_demes': [d['name'] for d in r['graph']['demes']][:10], 'fs0_head': r['fs0']['data'][:4]})
        okp, same, why = match_histories(history(r['calls0']), history(r['calls1']))
        # numeric reference: the original run when the re-import integrates in the same population order, else the same
        # model written in creation order (no reorder_pops); the alternating-direction scheme depends on the order of
        # the axes at the level of its discretisation error (several per cent on 5-point grids), so a spectrum computed
        # in another order is not comparable at 1e-8
        ref = None
        if same:
            ref = r['fs0']; refname = 'original run'
        elif 'callsN' in r:
            okn, samen, _ = match_histories(history(r['callsN']), history(r['calls1']))
            if okn and samen:
                ref = r['fsN']; refname = 'original model written in creation order'
        ctx.count('export: numeric reference = %s' % (refname if ref is not None else 'none (other population order)'))
        e0 = fs_rel(r['fs0'], r['fs1'])
        if e0 is not None and e0 > 0 and not same:
            ctx.err('export:spectrum vs original run in another population order (informative)', int(math.floor(math.log2(e0))), 'not required')
        e = fs_rel(ref, r['fs1']) if ref is not None else None
        ok = ref is None or (e is not None and e <= EXPORT_TOL)
        if ref is not None and ok and e > 0:
            ctx.err('export:spectrum (same population order)', int(math.floor(math.log2(e))), 'tol %g relative to the largest entry' % EXPORT_TOL)
        ctx.obligation('export case %d (%s): re-imported program = original program up to relabelling of the populations' % (p['id'], p['tag']),
                       okp, 'correspondence', why)
        if ref is not None:
            ctx.obligation('export case %d (%s): re-imported spectrum = spectrum of the %s (tol %g)' % (p['id'], p['tag'], refname, EXPORT_TOL), ok, 'predicate',
                           '' if ok else 'relative deviation %r' % (e,))
        if e is None:
            e = e0
        if not ok or not okp:
            key = keys[0] if keys else None
            for o in ctx.obligations[-2:]:
                if not o['ok'] and key:
                    o['known_key'] = key
            ctx.violation('export + re-import does not reproduce the model (%s; spectrum deviation %s; %s) program %s'
                          % (p['tag'], '%.3g' % e if e is not None else 'shape/mask', why or 'programs agree', json.dumps(ops)[:400]),
                          data=dict(data, deviation=e, why=why, exported=r['graph']), key=key)
    export_model_checks(ctx, progs, byid)

def export_model_checks(ctx, progs, byid):
    """the exporter model (coq/theories/Model/DemesExportModel.v, the object of export_import_same_program /
    export_import_reorder) against the real code, for every native program of the export phase whose event log has the
    shape phi_1D; (record?; integration)*:
      export   : export_model / export_events / final_ids of the REAL event log (dadi.Demes.cache) = the graph the real
                 dadi.Demes.output returned as `demes` resolved it, the events `demes` reports for it, the final names
      native   : native_calls of the log = the calls that were actually made
      reimport : sorted_calls of the log ++ [from_phi] (the conclusion of the theorems) = the calls the REAL importer made
                 on the REAL exported graph"""
    ex_cases, nat_cases, re_cases = [], [], []
    meta = {}
    for p in progs:
        r = byid[p['id']]
        if p.get('ops') is None or 'error' in r:
            continue
        if 'cache_full' not in r or 'events1' not in r:
            ctx.obligation('export case %d (%s): the event log and the events of the exported graph were recorded' % (p['id'], p['tag']), False,
                           'harness', r.get('cache_full_error', 'missing'))
            continue
        try:
            nu, rounds = XM.rounds_of(r['cache_full'])
        except XM.NotInClass as e:
            ctx.count('export model: log outside the shape of the model (%s)' % e)
            continue
        ctx.count('export model: log of stage %d%s' % (XM.log_stage(rounds), '' if XM.in_theorem_class(rounds) else ' with reorder_pops'))
        meta[p['id']] = p
        try:
            ex_cases.append((p['id'], XM.export_case_coq(nu, rounds, p['Nref'], p['gen_time'], r['graph'], r['events1'], r['final_ids'])))
            nat_cases.append((p['id'], XM.native_case_coq(nu, rounds, r['calls0'])))
            re_cases.append((p['id'], XM.reimport_case_coq(nu, rounds, r['graph'], p['ns'], r['calls1'])))
        except (KeyError, ValueError, AssertionError) as e:
            ctx.obligation('export case %d (%s): the run can be written down for the model' % (p['id'], p['tag']), False, 'correspondence',
                           '%s: %s' % (type(e).__name__, str(e)[:200]))
            if p['_keys']:
                ctx.obligations[-1]['known_key'] = p['_keys'][0]
    if not ctx.replay:
        ctx.obligation('generator coverage: export programs whose event log the exporter model covers', len(ex_cases) >= 12, 'harness',
                       '%d programs' % len(ex_cases))
    tol = q(TOL)
    for tag, cases, fn, what, codes in (
            ('xmodel', ex_cases, '(check_export %s)' % tol,
             'the graph / events / final names of the real dadi.Demes.output = export_model of the real event log',
             '1000: the graphs differ in structure; 2000: the events; 3000: the final names'),
            ('xnative', nat_cases, '(check_native %s)' % tol, 'the calls that were made = native_calls of the real event log',
             '1000 + k: call k differs'),
            ('ximport', re_cases, '(check_prog %s)' % tol,
             'the calls the real importer makes on the real exported graph = sorted_calls of the log ++ [from_phi] '
             '(conclusion of export_import_same_program / export_import_reorder)', '1000 + k: call k differs')):
        if not cases:
            continue
        results = ctx.coq_cases(tag, XM.HEADER, cases, fn, 'tol 1e-12 relative per number', shard=ctx.pick(8, 24), timeout=1500)
        lap(ctx, 'coq %s (%d cases)' % (tag, len(cases)))
        for cid, _ in cases:
            p = meta[cid]
            rr = results.get(cid)
            ok = rr is not None and rr[0]
            ctx.obligation('export case %d (%s): %s' % (cid, p['tag'], what), ok, 'correspondence', '' if ok else 'coq: %r (%s)' % (rr, codes))
            if not ok:
                key = p['_keys'][0] if p['_keys'] else None
                if key:
                    ctx.obligations[-1]['known_key'] = key
                ctx.violation('%s FAILS for the program %s (coq %r: %s)' % (what, json.dumps(p['ops'])[:300], rr, codes),
                              data={'kind': 'export', 'case': {k: v for k, v in p.items() if k not in ('id', '_keys')}, 'model_check': tag}, key=key)
