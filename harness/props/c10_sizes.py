"""C10 — size regimes and the exact explicit re-indexing reference.

Two things live here.

(A) `reference(op, args, inp)`: the explicit re-indexing of every entry (summing over dropped populations, permuting axes,
    adding allele counts of merged populations, pooling and re-dealing chromosomes with exact binomials) written directly on
    integer index arrays with EXACT arithmetic (scaled integers for sums, fractions.Fraction / math.comb for the re-dealing
    weights).  It has the branch structure of the Coq model Model/PopOps.v (unfold - work - fold for folded input, raw data for
    combine, masks, labels, folded flag, nan pattern of scramble, refusals) and is evaluated on EVERY case of the run: on the
    small cases it is cross-checked against the real code together with the Coq model (so a slip in this file shows up as a
    disagreement there), on the large cases - where evaluating the Gallina model inside Coq is not affordable (association
    lists, Pascal-rule binomials) - it is the entry-by-entry reference.

(B) `gen_size_cases`: the sample-size regimes that are part of EVERY run (not drawn with some probability):
    the smallest legal spectra (n = 1, 2 in 2..6 dimensions) and large ones, chosen so that the quantities a bookkeeping
    routine can get wrong by size are all crossed: the largest product of per-population binomials prod C(n_i, n_i/2), the
    largest single binomial, the pool binomial C(N, N/2) against 2^31, 2^53, 2^63, 2^64, 2^128 and the float64 range
    2^1024; axis lengths against 127 / 255; numbers of entries against 32767 / 65535.  `coverage_obligation` recomputes the
    bands from the list and fails closed when a band is no longer hit.
"""
import itertools, math
from fractions import Fraction
import numpy as np

TOLF = 1e-11          # relative, per entry (the tolerance of the correspondence; never larger for N <= 200)
EPS = 2.0 ** -53

def size_tol(shape):
    """exp(sum gammaln) cannot be more accurate than a few ulps of gammaln(N+2) in absolute terms of the exponent:
    1e-11 up to N of several hundred, 64 ulp of gammaln(N+2) beyond (N = 1102: 4.7e-11; observed error 3e-12)"""
    N = sum(s - 1 for s in shape)
    return max(TOLF, 64 * EPS * math.lgamma(N + 2))

# ------------------------------------------------------------------------------------------------------
# (A) exact reference

class Spec(object):
    __slots__ = ('sh', 'va', 'mk', 'ids', 'fo', 'den')
    def __init__(self, sh, va, mk, ids, fo, den):
        self.sh = [int(s) for s in sh]; self.va = va; self.mk = mk; self.ids = ids; self.fo = bool(fo); self.den = den

def of_input(inp):
    """the spectrum the real code was given (shape, data, mask, labels, folded flag) with data as exact scaled integers:
    value = va / den, den a power of two with two spare halvings"""
    shape = [int(s) for s in inp['shape']]
    n = int(np.prod(shape)) if shape else 1
    dmax = 1
    for x in inp['data']:
        d = float(x).as_integer_ratio()[1]
        if d > dmax:
            dmax = d
    den = dmax * 4
    ints = [int(Fraction(float(x)) * den) for x in inp['data']]
    big = max([abs(v) for v in ints] + [1]) * max(n, 1)
    arr = np.array(ints, dtype=np.int64 if big < 2 ** 61 else object).reshape(shape)
    mk = np.array([bool(m) for m in inp['mask']], dtype=bool).reshape(shape)
    return Spec(shape, arr, mk, None if inp['pop_ids'] is None else list(inp['pop_ids']), inp['folded'] is True, den)

def grid(shape):
    return [g for g in np.indices(shape)] if len(shape) else []

def isum(shape):
    return sum(grid(shape)) if len(shape) else np.zeros((), dtype=int)

def nsamp(shape):
    return sum(s - 1 for s in shape)

def corner(shape):
    c = np.zeros(shape, dtype=bool)
    if c.size:
        c[(0,) * len(shape)] = True
        c[tuple(s - 1 for s in shape)] = True
    return c

def folded_out(shape):
    return isum(shape) > nsamp(shape) // 2

def ambiguous(shape):
    return 2 * isum(shape) == nsamp(shape)

def flip(x):
    return x[tuple(slice(None, None, -1) for _ in x.shape)]       # entry I of the result is entry (n - I) of x

def half(x, where=None):
    if x.dtype == object:
        return np.array([Fraction(v) / 2 for v in x.ravel()], dtype=object).reshape(x.shape)
    chk = x if where is None else np.where(where, x, 0)
    if np.any(chk % 2 != 0):
        raise ArithmeticError('c10_sizes: scaled integers ran out of spare bits')
    return x // 2

def zeros_like(x):
    if x.dtype == object:
        z = np.empty(x.shape, dtype=object); z.fill(0); return z
    return np.zeros(x.shape, dtype=x.dtype)

def fold(a):
    s = a.sh
    fo_, am = folded_out(s), ambiguous(s)
    vR = flip(a.va)
    base = a.va + np.where(flip(fo_), vR, zeros_like(vR))
    corr = half(np.where(am, vR - a.va, zeros_like(vR)))
    va = np.where(fo_, zeros_like(vR), base + corr)
    mk = a.mk | flip(a.mk) | fo_ | corner(s)
    return Spec(s, va, mk, a.ids, True, a.den)

def unfold(a):
    s = a.sh
    x = a.mk ^ folded_out(s)
    return Spec(s, half(a.va + flip(a.va)), x | flip(x) | corner(s), a.ids, False, a.den)

def scatter_add(vals, J, outshape):
    out = zeros_like(np.empty(outshape, dtype=vals.dtype)) if vals.dtype == object else np.zeros(outshape, dtype=vals.dtype)
    np.add.at(out, tuple(j.ravel() for j in J), vals.ravel())
    return out

def scatter_count(flags, J, outshape):
    out = np.zeros(outshape, dtype=np.int64)
    np.add.at(out, tuple(j.ravel() for j in J), flags.ravel().astype(np.int64))
    return out

def drop(lst, over):
    return [x for k, x in enumerate(lst) if k not in over]

def marginalize(a, over, mc):
    d = len(a.sh)
    if len(set(over)) != len(over) or any((not 0 <= k < d) for k in over) or not len(over) < d:
        return None
    a0 = unfold(a) if a.fo else a
    G = grid(a0.sh)
    J = drop(G, set(over)); osh = drop(a0.sh, set(over))
    eff = np.where(a0.mk, zeros_like(a0.va), a0.va)
    va = scatter_add(eff, J, osh)
    mk = scatter_count(~a0.mk, J, osh) == 0                       # masked where every summand is
    out = Spec(osh, va, mk, None if a.ids is None else drop(a.ids, set(over)), False, a.den)
    if mc:
        out.mk = out.mk | corner(osh)
    return fold(out) if a.fo else out

def filter_pops(a, keep):
    rm = list(range(len(a.sh)))
    for p in keep:
        if p - 1 not in rm or p < 1:
            return None
        rm.remove(p - 1)
    return marginalize(a, rm, True)

def reorder(a, order):
    d = len(a.sh)
    if sorted(order) != list(range(1, d + 1)):
        return None
    p = [o - 1 for o in order]
    G = grid(a.sh)
    J = [G[p[i]] for i in range(d)]; osh = [a.sh[p[i]] for i in range(d)]
    va = np.empty(osh, dtype=a.va.dtype); va[tuple(J)] = a.va
    mk = np.empty(osh, dtype=bool); mk[tuple(J)] = a.mk
    return Spec(osh, va, mk, None if a.ids is None else [a.ids[k] for k in p], a.fo, a.den)

def combine_two(a, p, q):
    t0, t1 = min(p, q) - 1, max(p, q) - 1
    G = grid(a.sh)
    J = [G[t0] + G[t1] if k == t0 else G[k] for k in range(len(a.sh)) if k != t1]
    osh = [a.sh[t0] + a.sh[t1] - 1 if k == t0 else a.sh[k] for k in range(len(a.sh)) if k != t1]
    va = scatter_add(a.va, J, osh)                                  # raw data, masked or not
    mk = corner(osh) | (scatter_count(a.mk, J, osh) > 0)
    ids = None
    if a.ids is not None:
        ids = list(a.ids); ids[t0] = ids[t0] + '+' + ids[t1]; del ids[t1]
    return Spec(osh, va, mk, ids, a.fo, a.den)

def combine(a, tc):
    srt = sorted(tc)
    r = a
    for right in srt[1:][::-1]:
        r = combine_two(r, srt[0], right)
    if a.ids is not None and r.ids is not None:
        ids = list(r.ids); ids[srt[0] - 1] = '+'.join(a.ids[p - 1] for p in srt)
        r = Spec(r.sh, r.va, r.mk, ids, r.fo, r.den)
    return r

def misc_combine(a, idx):
    d = len(a.sh)
    G = grid(a.sh)
    if d == 2:
        J = [G[0] + G[1]]; osh = [a.sh[0] + a.sh[1] - 1]
    elif d == 3:
        if list(idx) not in ([0, 1], [0, 2], [1, 2]):
            return None
        x, y = idx; z = [k for k in range(3) if k not in idx][0]
        J = [G[x] + G[y], G[z]]; osh = [a.sh[x] + a.sh[y] - 1, a.sh[z]]
    else:
        return None
    return Spec(osh, scatter_add(a.va, J, osh), corner(osh), None, False, a.den)

def scramble_unfolded(a, mc):
    s = a.sh
    ns = [x - 1 for x in s]; N = sum(ns)
    T = isum(s)
    pooled = scatter_add(a.va, [T], [N + 1])                        # raw data
    rows = [[math.comb(n, k) for k in range(n + 1)] for n in ns]
    pool_row = [math.comb(N, k) for k in range(N + 1)]
    pooled = [v if isinstance(v, Fraction) else Fraction(int(v)) for v in pooled]
    va = np.empty(s, dtype=object)
    for c in itertools.product(*[range(x) for x in s]):
        D = sum(c)
        w = 1
        for i, k in enumerate(c):
            w *= rows[i][k]
        va[c] = pooled[D] * w / pool_row[D]
    return Spec(s, va, corner(s) if mc else np.zeros(s, dtype=bool), None, False, a.den)

def pooled_poison(a):
    return scatter_count(a.mk, [isum(a.sh)], [nsamp(a.sh) + 1]) > 0

def scramble(a, mc):
    """returns (spectrum, nan pattern)"""
    T = isum(a.sh)
    if a.fo:
        u = unfold(a)
        pp = pooled_poison(u)
        return fold(scramble_unfolded(u, mc)), pp[T] | pp[flip(T)]
    return scramble_unfolded(a, mc), pooled_poison(a)[T]

def reference(op, args, inp):
    """None when the explicit re-indexing is undefined (the call must be refused), else (Spec, nan pattern)"""
    a = of_input(inp)
    nonan = None
    if op == 'marg':
        r = marginalize(a, list(args['over']), bool(args['mc']))
    elif op == 'filter':
        r = filter_pops(a, list(args['keep']))
    elif op == 'reorder':
        r = reorder(a, list(args['order']))
    elif op == 'combine2':
        r = combine_two(a, *args['pq'])
    elif op == 'combine':
        r = combine(a, list(args['tc']))
    elif op == 'misc':
        r = misc_combine(a, args['idx'] if args.get('idx') is not None else [0, 1])
    elif op == 'scramble':
        r, nonan = scramble(a, bool(args['mc']))
    else:
        raise KeyError(op)
    if r is None:
        return None
    return r, (nonan if nonan is not None else np.zeros(r.sh, dtype=bool))

def to_float(spec):
    if spec.va.dtype == object:
        return np.array([float(Fraction(v) / spec.den) for v in spec.va.ravel()], dtype=float).reshape(spec.sh)
    return spec.va.astype(float) / float(spec.den)                 # exact: integers below 2^53 over a power of two

def judge_exact(c, r):
    """compare what the real code returned with the exact explicit re-indexing; list of (description, kind)"""
    op, args = c['op'], c['args']
    ref = reference(op, args, r['input'])
    out = r.get('output')
    if ref is None:
        return [] if out is None else [('the call is accepted although the explicit re-indexing is undefined for these arguments', 'refusal')]
    if out is None:
        return [('the call is refused (%s) although the explicit re-indexing is defined' % r.get('error'), 'refusal')]
    spec, poison = ref
    bad = []
    if [int(s) for s in out['shape']] != spec.sh:
        return [('shape %r, explicit re-indexing gives %r' % (out['shape'], spec.sh), 'shape')]
    omask = np.array(out['mask'], dtype=bool).reshape(spec.sh)
    if not np.array_equal(omask, spec.mk):
        I = tuple(int(x) for x in np.argwhere(omask != spec.mk)[0])
        bad.append(('mask differs at %d entries, first at entry %r: %r, explicit re-indexing gives %r'
                    % (int((omask != spec.mk).sum()), I, bool(omask[I]), bool(spec.mk[I])), 'mask'))
        return bad
    if out['pop_ids'] != spec.ids:
        bad.append(('population labels %r, explicit re-indexing gives %r' % (out['pop_ids'], spec.ids), 'labels'))
    if out['folded'] is not spec.fo:
        bad.append(('folded flag %r, explicit re-indexing gives %r' % (out['folded'], spec.fo), 'folded-flag'))
    onan = np.array(out['nan'], dtype=bool).reshape(spec.sh)
    live = ~spec.mk
    if not np.array_equal(onan & live, poison & live):
        I = tuple(int(x) for x in np.argwhere((onan != poison) & live)[0])
        bad.append(('nan pattern differs, first at entry %r: nan=%r, expected nan=%r' % (I, bool(onan[I]), bool(poison[I])), 'nan'))
        return bad
    live = live & ~poison
    got = np.array(out['data'], dtype=float).reshape(spec.sh)
    exp = to_float(spec)
    tol = size_tol(r['input']['shape']) if op == 'scramble' else TOLF
    err = np.where(live, np.abs(got - exp), 0.0)
    lim = tol * np.abs(exp) + 1e-290
    viol = live & ~(err <= lim)
    if viol.any():
        rel = np.where(viol, err / np.maximum(np.abs(exp), 1e-300), 0.0)
        I = np.unravel_index(int(np.argmax(rel)), rel.shape) if spec.sh else ()
        I = tuple(int(x) for x in I)
        bad.append(('%d of %d unmasked entries differ from the explicit re-indexing (exact arithmetic) by more than %.1e relative; '
                    'worst at entry %r: %r, exact value %r' % (int(viol.sum()), int(live.sum()), tol, I, float(got[I]), float(exp[I])),
                    'values'))
    # total count conserved (unmasked input; nothing masked away in the result)
    if not np.array(r['input']['mask'], dtype=bool).any() and not spec.mk.any() and not poison.any():
        tin = float(sum(Fraction(float(x)) for x in r['input']['data'])) if len(r['input']['data']) < 5000 else float(np.sum(np.array(r['input']['data'], dtype=float)))
        tout = float(got.sum())
        if not abs(tout - tin) <= tol * max(abs(tin), 1e-300):
            bad.append(('total count not conserved: %r before, %r after' % (tin, tout), 'total'))
    return bad

# ------------------------------------------------------------------------------------------------------
# (B) size regimes

def mid(n):
    return math.comb(n, n // 2)

# sample sizes; 'ops': which operations get a large case on that shape ('all' or 'scramble' or 'index')
LARGE = [
    # two populations: the product of the two binomials against 2^31 .. 2^64 with every factor below 2^63
    ((20, 31), 'scramble'), ((29, 30), 'scramble'), ((34, 35), 'scramble'), ((30, 40), 'all'), ((35, 36), 'scramble'),
    # a single binomial beyond 2^63 / 2^64; pool binomial beyond 2^128
    ((67, 5), 'scramble'), ((50, 70), 'scramble'), ((66, 66), 'all'),
    # one very large population with a small one: axis beyond 127 / 255, pool binomial beyond the float64 range
    ((3, 80), 'all'), ((120, 2), 'scramble'), ((1, 200), 'all'), ((2, 1100), 'all'),
    # more than 65535 entries: index arithmetic only
    ((70, 1100), 'index'),
    # three populations
    ((12, 13, 14), 'scramble'), ((22, 24, 26), 'all'), ((2, 3, 70), 'all'),
    # four to six populations with more than 10^4 entries (no binomial band is crossed there: index arithmetic only;
    # scramble in 4..6 dimensions is part of the ordinary cases and of the smallest ones)
    ((10, 11, 12, 13), 'index'), ((4, 5, 6, 7, 8), 'index'), ((3, 3, 4, 4, 5, 6), 'index'),
]
SMALLEST = [(1, 1), (1, 2), (2, 1), (2, 2), (1, 1, 1), (1, 2, 1), (2, 1, 2), (1, 1, 1, 1), (2, 1, 1, 2), (1, 1, 2, 1, 1), (1, 1, 1, 1, 1, 1),
            (2, 1, 1, 1, 2, 1)]

# large cases that are ALSO evaluated on the Coq model: at most this many entries (association lists: quadratic time); in the
# quick tier one scramble case on each of these shapes (product beyond 2^64, beyond 2^63 only, one binomial beyond 2^63 / 2^64,
# a very long axis, three populations) and one case per operation on COQ_QUICK_ALL_OPS, in the thorough tier every large case that is
# small enough
COQ_MAX_ENTRIES = 1500
COQ_QUICK = [(30, 40), (34, 35), (67, 5), (3, 80), (1, 200), (2, 3, 70)]
COQ_QUICK_ALL_OPS = (3, 80)

def bands(ns):
    """the size bands a tuple of sample sizes falls in"""
    facs = [mid(n) for n in ns]
    P, M, T = math.prod(facs), max(facs), mid(sum(ns))
    out = set()
    if M < 2 ** 31 and 2 ** 31 <= P < 2 ** 53: out.add('product of binomials in [2^31,2^53), factors below 2^31')
    if M < 2 ** 53 and 2 ** 53 <= P < 2 ** 63: out.add('product of binomials in [2^53,2^63), factors below 2^53')
    if M < 2 ** 63 and 2 ** 63 <= P < 2 ** 64: out.add('product of binomials in [2^63,2^64), factors below 2^63')
    if M < 2 ** 63 and 2 ** 64 <= P: out.add('product of binomials beyond 2^64, factors below 2^63')
    if len(ns) >= 3 and M < 2 ** 31 and 2 ** 64 <= P: out.add('three populations: product of binomials beyond 2^64, factors below 2^31')
    if 2 ** 63 <= M < 2 ** 64: out.add('one binomial in [2^63,2^64)')
    if 2 ** 64 <= M: out.add('one binomial beyond 2^64')
    if 2 ** 128 <= T: out.add('pool binomial beyond 2^128')
    if 2 ** 1024 <= T: out.add('pool binomial beyond the float64 range')
    if max(ns) + 1 > 127: out.add('axis longer than 127')
    if max(ns) + 1 > 255: out.add('axis longer than 255')
    n = math.prod(x + 1 for x in ns)
    if n > 32767: out.add('more than 32767 entries')
    if n > 65535: out.add('more than 65535 entries')
    if max(ns) == 1: out.add('every population has one chromosome')
    if min(ns) == 1 and max(ns) == 2: out.add('populations of one and two chromosomes')
    if min(ns) == 1 and max(ns) >= 100: out.add('one chromosome next to a very large population')
    return out

REQUIRED_SCRAMBLE = ['product of binomials in [2^31,2^53), factors below 2^31', 'product of binomials in [2^53,2^63), factors below 2^53',
                     'product of binomials in [2^63,2^64), factors below 2^63', 'product of binomials beyond 2^64, factors below 2^63',
                     'three populations: product of binomials beyond 2^64, factors below 2^31',
                     'one binomial in [2^63,2^64)', 'one binomial beyond 2^64', 'pool binomial beyond 2^128',
                     'pool binomial beyond the float64 range', 'axis longer than 255', 'one chromosome next to a very large population',
                     'every population has one chromosome', 'populations of one and two chromosomes']
REQUIRED_INDEX = ['product of binomials beyond 2^64, factors below 2^63', 'one binomial beyond 2^64', 'pool binomial beyond 2^128',
                  'pool binomial beyond the float64 range', 'axis longer than 127', 'axis longer than 255',
                  'more than 32767 entries', 'more than 65535 entries', 'one chromosome next to a very large population',
                  'every population has one chromosome', 'populations of one and two chromosomes']
ALL_OPS = ['marg', 'filter', 'reorder', 'combine2', 'combine', 'misc', 'scramble']

def coverage_obligation(ctx, cases, byid):
    """every operation was EVALUATED (the real code returned a spectrum) in every required size band"""
    seen = {}
    for c in cases:
        if c.get('size_regime') and 'output' in byid.get(c['id'], {}):
            for b in bands([s - 1 for s in c['shape']]):
                seen.setdefault(c['op'], set()).add(b)
    missing = []
    for op in ALL_OPS:
        for b in (REQUIRED_SCRAMBLE if op == 'scramble' else REQUIRED_INDEX):
            if b not in seen.get(op, set()):
                missing.append('%s: %s' % (op, b))
    ctx.obligation('size regimes: every operation evaluated in every size band (smallest, 2^31 .. 2^64, 2^128, float range, long axes, many entries)',
                   not missing, 'predicate', '; '.join(missing)[:600])
    return missing

def pick_args(rng, op, d):
    """a few arguments of the operation for a d-dimensional spectrum (every operation is present for every shape)"""
    if op == 'marg':
        subs = [list(s) for k in range(1, d) for s in itertools.combinations(range(d), k)]
        ch = rng.sample(subs, min(2, len(subs)))
        out = []
        for i, s in enumerate(ch):
            rng.shuffle(s)
            out.append({'over': s, 'mc': i % 2 == 0})
        return out
    if op == 'filter':
        subs = [list(s) for k in range(1, d + 1) for s in itertools.combinations(range(1, d + 1), k)]
        s = rng.choice(subs[:-1]); rng.shuffle(s)
        return [{'keep': s}]
    if op == 'reorder':
        perms = [list(p) for p in itertools.permutations(range(1, d + 1))][1:]
        return [{'order': p} for p in rng.sample(perms, min(2, len(perms)))]
    if op == 'combine2':
        pairs = [[p, q] for p in range(1, d + 1) for q in range(1, d + 1) if p != q]
        return [{'pq': p} for p in rng.sample(pairs, 2)]
    if op == 'combine':
        subs = [list(s) for k in range(2, d + 1) for s in itertools.combinations(range(1, d + 1), k)]
        ch = [rng.choice(subs), list(range(1, d + 1))] if d > 2 else [[1, 2], [rng.randint(1, 2)]]
        for s in ch:
            rng.shuffle(s)
        return [{'tc': s} for s in ch]
    if op == 'misc':
        if d == 2:
            return [{'idx': None}]
        if d == 3:
            return [{'idx': ix} for ix in rng.sample([[0, 1], [0, 2], [1, 2]], 2)]
        return []
    if op == 'scramble':
        return [{'mc': True}, {'mc': False}]
    raise KeyError(op)

def gen_size_cases(ctx, make_case, first_id):
    """the size-regime cases of this run: (shape, op, argument) fixed by the lists above, data / arguments / labels / folding / masks
    from ctx.rng; large cases are marked 'big' (exact reference instead of the Coq evaluation)"""
    rng = ctx.rng
    cases = []
    kvar = 0
    coq_seen = set()
    variants = [(lab, fol, m) for fol in ('no', 'fold', 'no', 'direct') for lab in (True, False) for m in ('none', 'corners', 'few')]
    def add(ns, op, args, big):
        nonlocal kvar
        lab, fol, m = variants[(kvar * 5) % len(variants)]; kvar += 1
        shape = [n + 1 for n in ns]
        c = make_case(ctx, first_id + len(cases), shape, op, args, (lab and len(ns) <= 6, fol, 'corners' if m == 'few' else m))
        # 30 significant bits per entry (the ordinary cases have 8): sums of up to 2^17 entries are still exact in float64, a
        # narrower accumulator or intermediate (float32, int32 counts) is not
        c['data'] = [rng.randrange(1, 2 ** 30) / 1048576.0 if (x != 0.0 or rng.random() < 0.5) else 0.0 for x in c['data']]
        if m == 'few':                       # a few masked entries (a random mask would poison every total of scramble)
            n = len(c['mask'])
            for _ in range(2):
                c['mask'][rng.randrange(n)] = True
        c['size_regime'] = True
        if big:
            c['big'] = True
            # evaluated by the driver on the real code: commutation with projection and folding (and the total of scramble);
            # totals, labels and every entry are in the exact reference
            c['pred_parts'] = ['total', 'fold'] if op == 'scramble' else ['project', 'fold']
            # the Coq model itself (through pcheck_full_fast, proved equal to the check on the model) where vm_compute affords it
            nent = len(c['data'])
            if nent <= COQ_MAX_ENTRIES and (not ctx.quick or (tuple(ns) in COQ_QUICK and (tuple(ns), op) not in coq_seen
                                                              and (op == 'scramble' or tuple(ns) == COQ_QUICK_ALL_OPS))):
                coq_seen.add((tuple(ns), op))
                c['coq_fast'] = True
            if op == 'scramble' and len(ns) >= 3:
                c['fold_mcs'] = [args['mc']]
            elif len(c['data']) > 3000:
                c['fold_mcs'] = [rng.random() < 0.5]
        cases.append(c)
    for ns in SMALLEST:
        for op in ALL_OPS:
            for args in pick_args(rng, op, len(ns)):
                add(ns, op, args, False)
    for ns, which in LARGE:
        for op in ALL_OPS:
            if which == 'scramble' and op != 'scramble':
                continue
            if which == 'index' and op == 'scramble':
                continue
            lst = pick_args(rng, op, len(ns))
            if math.prod(n + 1 for n in ns) > 30000 or (op == 'scramble' and len(ns) >= 3):
                lst = [rng.choice(lst)]
            for args in lst:
                add(ns, op, args, True)
    return cases
