"""C11 — likelihoods are Poisson/multinomial over jointly unmasked entries, optimal theta.

Static theorems: coq/theories/Props/C11.v (model: Model/Likelihood.v).
Per run:
 (1) translator obligations: the arithmetic lines of ll_per_bin / linear_Poisson_residual / Anscombe_Poisson_residual
     are re-read from the current source, translated to Coq terms and proved equal to the model's entry functions;
     the wiring statements (auto-fold prologue, ll = ll_per_bin.sum(), ll_multinom = ll_per_bin(theta*model),
     optimal_sfs_scaling = data.sum()/model.sum() after intersect_masks, residual mask block) are compared
     statement by statement with the expected AST; the mask_corners flag used inside Numerics.intersect_masks
     is extracted and handed to the model (parameter [remask]);
 (2) correspondence: every output of the seven functions on generated spectra vs the Coq model over Q
     (Qln, Qexp, Qlgamma), compared inside Coq (masks exactly, values to 1e-9 x conditioning scale);
 (3) the property predicates evaluated directly on the implementation's outputs;
 (4) argument types and hidden content (harness/props/c11_types.py, stream 'containers', every run): systematic base
     cases handed to every entry point in every container the API accepts (dadi.Spectrum, plain numpy.ma.MaskedArray of
     float64 / float32 / integer counts, C / Fortran / strided, hard mask, view of a Spectrum; nomask / ndarray / list
     where accepted = nothing masked) and with arbitrary raw content (0, negative, nan, +-inf, huge, tiny, mixtures)
     stored under the masked entries of model and data; each variant vs the canonical Spectrum call and vs the
     predicates of (3).  Model side: C11_hidden_content_irrelevant.  When a source obligation of (1) no longer checks,
     the same stream is re-drawn in two more rounds at the thorough tier's sizes (targeted search) before anything is
     reported without a failing input.
"""
import ast, json, math, os
from fractions import Fraction
from harness import lib
from harness.lib import q, b
from harness.translate import pyexpr
from harness.props import c11_types

INFERENCE = os.path.join(lib.REPO, 'dadi', 'Inference.py')
NUMERICS = os.path.join(lib.REPO, 'dadi', 'Numerics.py')
SPECTRUM = os.path.join(lib.REPO, 'dadi', 'Spectrum_mod.py')
TOL = Fraction(1, 10 ** 9)
FTOL = 1e-9
QUIRK_KEY = 'C11-intersect_masks-remasks-corners'

# ------------------------------------------------------------------------------------------------
# (1) translator

def _body(fn):
    body = list(fn.body)
    if body and isinstance(body[0], ast.Expr) and isinstance(body[0].value, ast.Constant) and isinstance(body[0].value.value, str):
        body = body[1:]
    return body

def _dump(node):
    return ast.dump(node, annotate_fields=True, include_attributes=False)

def _same(node, text):
    want = ast.parse(text).body
    return len(want) == 1 and _dump(node) == _dump(want[0])

PROLOGUE = "if hasattr(data, 'folded') and data.folded and not model.folded:\n    model = model.fold()"
NOOP_BLOCKS = [
    "if hasattr(data, 'folded_ancestral') and data.folded_ancestral and not model.folded_ancestral:\n    model = model.fold_ancestral()",
    "if hasattr(data, 'folded_major') and data.folded_major and not model.folded_major:\n    model = model.fold_major()",
]

def _strip_noops(stmts):
    """the folded_ancestral / folded_major blocks concern attributes a Spectrum does not have"""
    return [s for s in stmts if not any(_same(s, t) for t in NOOP_BLOCKS)]

class LTr(pyexpr.Tr):
    """pyexpr.Tr extended with the few array idioms of the likelihood code (entrywise reading):
    model / model.data -> m, data / data.data -> d, model.log() -> ln m, gammaln(x) -> lg x,
    numpy.ma.sqrt(x) -> sqrt x, numpy.ma.power(x, c) and x ** c (non-integer constant c) -> Rpower x c."""
    def __init__(self, env=None):
        super().__init__(funcs={})
        self.env = dict(env or {})
        self.vars = ['m', 'd']
    def _const_expr(self, e):
        """a constant arithmetic expression (2./3, -1./3, 1./6): translate, require no variables inside"""
        for n in ast.walk(e):
            if isinstance(n, (ast.Name, ast.Call, ast.Attribute)):
                raise pyexpr.Refuse('non-constant exponent')
        return super().expr(e)
    def expr(self, e):
        if isinstance(e, ast.Name) and e.id in ('model', 'data') and e.id not in self.env:
            return 'm' if e.id == 'model' else 'd'
        if isinstance(e, ast.Attribute) and e.attr == 'data' and isinstance(e.value, ast.Name) and e.value.id in ('model', 'data'):
            return 'm' if e.value.id == 'model' else 'd'
        if isinstance(e, ast.Call):
            fn = e.func
            if (isinstance(fn, ast.Attribute) and fn.attr == 'log' and isinstance(fn.value, ast.Name) and fn.value.id == 'model'
                    and not e.args and not e.keywords):
                return '(ln m)'
            if isinstance(fn, ast.Name) and fn.id == 'gammaln' and len(e.args) == 1 and not e.keywords:
                return '(lg %s)' % self.expr(e.args[0])
            dotted = _dump(fn)
            if dotted == _dump(ast.parse('numpy.ma.sqrt').body[0].value) and len(e.args) == 1 and not e.keywords:
                return '(sqrt %s)' % self.expr(e.args[0])
            if dotted == _dump(ast.parse('numpy.ma.power').body[0].value) and len(e.args) == 2 and not e.keywords:
                return '(Rpower %s %s)' % (self.expr(e.args[0]), self._const_expr(e.args[1]))
            raise pyexpr.Refuse('call %s' % ast.unparse(fn))
        if isinstance(e, ast.BinOp) and isinstance(e.op, ast.Pow):
            if isinstance(e.right, ast.Constant) and isinstance(e.right.value, int):
                return super().expr(e)
            return '(Rpower %s %s)' % (self.expr(e.left), self._const_expr(e.right))
        return super().expr(e)

def _fn(tree, name):
    hits = [n for n in tree.body if isinstance(n, ast.FunctionDef) and n.name == name]
    if len(hits) != 1:
        raise pyexpr.Refuse('expected exactly one top-level def %s' % name)
    return hits[0]

def _assign_to(stmt, name):
    return (isinstance(stmt, ast.Assign) and len(stmt.targets) == 1 and isinstance(stmt.targets[0], ast.Name)
            and stmt.targets[0].id == name)

def _root_name(t):
    while isinstance(t, (ast.Attribute, ast.Subscript)):
        t = t.value
    return t.id if isinstance(t, ast.Name) else None

def extract_remask(ctx):
    """mask_corners value used by intersect_masks when it re-wraps m1, m2 (default of Spectrum.__new__ when absent)."""
    try:
        stree = ast.parse(open(SPECTRUM).read())
        cls = [n for n in stree.body if isinstance(n, ast.ClassDef) and n.name == 'Spectrum'][0]
        new = [n for n in cls.body if isinstance(n, ast.FunctionDef) and n.name == '__new__'][0]
        names = [a.arg for a in new.args.args]
        defaults = dict(zip(names[len(names) - len(new.args.defaults):], new.args.defaults))
        dflt = defaults['mask_corners']
        if not (isinstance(dflt, ast.Constant) and isinstance(dflt.value, bool)):
            raise pyexpr.Refuse('Spectrum.__new__ default of mask_corners is not a literal')
        fn = _fn(ast.parse(open(NUMERICS).read()), 'intersect_masks')
        flags = []
        for tgt in ('m1', 'm2'):
            calls = [s for s in ast.walk(fn) if _assign_to(s, tgt) and isinstance(s.value, ast.Call)]
            if len(calls) != 1:
                raise pyexpr.Refuse('intersect_masks: expected one re-wrapping assignment to %s' % tgt)
            call = calls[0].value
            if _dump(call.func) != _dump(ast.parse('dadi.Spectrum').body[0].value) or len(call.args) != 1 \
                    or not (isinstance(call.args[0], ast.Name) and call.args[0].id == tgt):
                raise pyexpr.Refuse('intersect_masks: %s is not re-wrapped as dadi.Spectrum(%s, ...)' % (tgt, tgt))
            kws = {k.arg: k.value for k in call.keywords}
            if set(kws) - {'mask', 'mask_corners'} or 'mask' not in kws or _dump(kws['mask']) != _dump(ast.parse('joint_mask.copy()').body[0].value):
                raise pyexpr.Refuse('intersect_masks: unexpected keywords %r' % sorted(kws))
            mc = kws.get('mask_corners', dflt)
            if not (isinstance(mc, ast.Constant) and isinstance(mc.value, bool)):
                raise pyexpr.Refuse('mask_corners is not a literal')
            flags.append(mc.value)
        if flags[0] != flags[1]:
            raise pyexpr.Refuse('m1 and m2 re-wrapped with different mask_corners')
        # the rest of the function: compare with the expected text with the two calls normalised
        class Norm(ast.NodeTransformer):
            def visit_Call(self, node):
                self.generic_visit(node)
                if _dump(node.func) == _dump(ast.parse('dadi.Spectrum').body[0].value):
                    node.keywords = [k for k in node.keywords if k.arg != 'mask_corners']
                return node
        got = [_dump(Norm().visit(s)) for s in _body(fn)]
        want_src = '''
ma = numpy.ma
if ma.isMaskedArray(m1) and ma.isMaskedArray(m2) and numpy.all(m1.mask == m2.mask):
    return m1,m2
if ma.isMaskedArray(m1) or ma.isMaskedArray(m2):
    joint_mask = ma.mask_or(ma.getmask(m1), ma.getmask(m2))
    import dadi
    m1 = dadi.Spectrum(m1, mask=joint_mask.copy())
    m2 = dadi.Spectrum(m2, mask=joint_mask.copy())
return m1,m2
'''
        want = [_dump(s) for s in ast.parse(want_src).body]
        if got != want:
            raise pyexpr.Refuse('intersect_masks body differs from the modelled one')
        ctx.obligation('translate Numerics.intersect_masks (early return on equal masks, joint mask, mask_corners=%s)' % flags[0], True, 'translator')
        return flags[0]
    except (pyexpr.Refuse, SyntaxError, OSError, IndexError, KeyError) as e:
        ctx.obligation('translate Numerics.intersect_masks', False, 'translator', str(e))
        return True

def translator_obligations(ctx):
    files = []
    try:
        tree = ast.parse(open(INFERENCE).read())
    except (SyntaxError, OSError) as e:
        ctx.obligation('parse dadi/Inference.py', False, 'translator', str(e))
        return
    def ob(name, f):
        try:
            f()
            ctx.obligation(name, True, 'translator')
        except (pyexpr.Refuse, SyntaxError, IndexError, KeyError, AttributeError) as e:
            ctx.obligation(name, False, 'translator', str(e))
    hdr = '\n'.join(['From Coq Require Import ZArith Reals List Bool Lra.',
                     'From Dadi Require Import Base.Num Base.NumR Model.Likelihood Proofs.LikelihoodBasics Proofs.LikelihoodProofs Proofs.LikelihoodResid.',
                     'Import ListNotations. Local Open Scope R_scope.', ''])
    # ---- ll_per_bin
    def t_llpb():
        st = _strip_noops(_body(_fn(tree, 'll_per_bin')))
        if not _same(st[0], PROLOGUE):
            raise pyexpr.Refuse('ll_per_bin: auto-fold prologue not first')
        if not _assign_to(st[1], 'result'):
            raise pyexpr.Refuse('ll_per_bin: second statement is not the assignment of result')
        term = LTr().expr(st[1].value)
        for s in st[2:]:
            for n in ast.walk(s):
                if isinstance(n, ast.Return) and not (isinstance(n.value, ast.Name) and n.value.id == 'result'):
                    raise pyexpr.Refuse('ll_per_bin: returns something other than result')
                if isinstance(n, (ast.Assign, ast.AugAssign)):
                    tg = n.targets if isinstance(n, ast.Assign) else [n.target]
                    if any(_root_name(t) in ('result', 'model', 'data') for t in tg):
                        raise pyexpr.Refuse('ll_per_bin: result/model/data modified after the likelihood line')
        if not isinstance(st[-1], ast.Return):
            raise pyexpr.Refuse('ll_per_bin: does not end in return result')
        files.append(('C11_ob_ll_per_bin', hdr + '\n'.join([
            'Definition gen_llpb (lg : R -> R) (m d : R) : R :=\n  %s.' % term,
            'Lemma ob_llpb : forall lg m d mm dm, ev (llpb_entry lg (m, mm) (d, dm)) = gen_llpb lg m d.',
            'Proof. intros. unfold gen_llpb, llpb_entry, ma_log, ev, em. cbn [fst snd]. numR. ring. Qed.',
            'Lemma ob_llpb_is_poisson : forall lg m d, gen_llpb lg m d = poisson_ll lg m d.',
            'Proof. intros. unfold gen_llpb, poisson_ll. ring. Qed.', ''])))
    ob('translate Inference.ll_per_bin (prologue, likelihood line, nothing modified afterwards)', t_llpb)
    # ---- wiring of ll, ll_multinom_per_bin, ll_multinom, optimally_scaled_sfs, minus_*
    WIRING = {
        'll': ['ll_arr = ll_per_bin(model, data)', 'return ll_arr.sum()'],
        'll_multinom_per_bin': ['theta_opt = optimal_sfs_scaling(model, data)', 'return ll_per_bin(theta_opt*model, data)'],
        'll_multinom': ['ll_arr = ll_multinom_per_bin(model, data)', 'return ll_arr.sum()'],
        'optimally_scaled_sfs': ['return optimal_sfs_scaling(model,data) * model'],
        'minus_ll': ['return -ll(model, data)'],
        'minus_ll_multinom': ['return -ll_multinom(model, data)'],
        'optimal_sfs_scaling': [PROLOGUE, 'model, data = Numerics.intersect_masks(model, data)', 'return data.sum()/model.sum()'],
    }
    for name, want in WIRING.items():
        def t_w(name=name, want=want):
            fn = _fn(tree, name)
            if [a.arg for a in fn.args.args] != ['model', 'data'] or fn.args.defaults:
                raise pyexpr.Refuse('%s: signature changed' % name)
            st = _strip_noops(_body(fn))
            if len(st) != len(want) or not all(_same(s, w) for s, w in zip(st, want)):
                raise pyexpr.Refuse('%s: body is not %r' % (name, want))
        ob('wiring of Inference.%s = %s' % (name, '; '.join(w.splitlines()[0] for w in want)), t_w)
    # ---- residuals
    MASKBLOCK_LIN = ("if mask is not None:\n    tomask = numpy.logical_and(model <= mask, data <= mask)\n"
                     "    resid = numpy.ma.masked_where(tomask, resid)")
    MASKBLOCK_ANS = ("if mask is not None:\n    tomask = numpy.logical_and(model <= mask, data <= mask)\n"
                     "    tomask = numpy.logical_or(tomask, data == 0)\n    resid = numpy.ma.masked_where(tomask, resid)")
    def t_lin():
        fn = _fn(tree, 'linear_Poisson_residual')
        st = _strip_noops(_body(fn))
        if len(st) != 4 or not _same(st[0], PROLOGUE) or not _assign_to(st[1], 'resid') or not _same(st[2], MASKBLOCK_LIN) \
                or not _same(st[3], 'return resid'):
            raise pyexpr.Refuse('linear_Poisson_residual: unexpected statement sequence')
        term = LTr().expr(st[1].value)
        files.append(('C11_ob_linear_residual', hdr + '\n'.join([
            'Definition gen_lin (m d : R) : R :=\n  %s.' % term,
            'Lemma ob_lin : forall m d, 0 < m -> lin_entry None (m, false) (d, false) = RVal (gen_lin m d).',
            'Proof. intros m d P. destruct (linear_residual_spec None (m, false) (d, false)) as [_ [V _]].',
            '  destruct (V eq_refl eq_refl P (fun x => x)) as [r [E [F _]]]. rewrite E, F. reflexivity. Qed.', ''])))
    ob('translate Inference.linear_Poisson_residual (prologue, residual line, mask block)', t_lin)
    def t_ans():
        fn = _fn(tree, 'Anscombe_Poisson_residual')
        st = _strip_noops(_body(fn))
        if len(st) != 6 or not _same(st[0], PROLOGUE) or not _assign_to(st[1], 'datatrans') or not _assign_to(st[2], 'modeltrans') \
                or not _assign_to(st[3], 'resid') or not _same(st[4], MASKBLOCK_ANS) or not isinstance(st[5], ast.Return):
            raise pyexpr.Refuse('Anscombe_Poisson_residual: unexpected statement sequence')
        tr = LTr()
        tr.env['datatrans'] = tr.expr(st[1].value)
        tr.env['modeltrans'] = tr.expr(st[2].value)
        tr.env['resid'] = tr.expr(st[3].value)
        term = tr.expr(st[5].value)
        files.append(('C11_ob_anscombe_residual', hdr + '\n'.join([
            'Definition gen_ans (m d : R) : R :=\n  %s.' % term,
            'Lemma ob_ans : forall m d, 0 < m -> 0 < d -> ans_entry None (m, false) (d, false) = RVal (gen_ans m d).',
            'Proof. intros m d P Pd. destruct (anscombe_residual_spec None (m, false) (d, false)) as [_ V].',
            '  destruct (V eq_refl eq_refl P Pd (fun x => x)) as [r [E [F _]]]. rewrite E, F. f_equal.',
            '  unfold gen_ans, anscombeT, ev. cbn [fst].',
            '  replace ((- (1)) / (3)) with (- (1 / 3)) by lra.',
            '  assert (Rpower m (1 / 6) <> 0) by (apply Rgt_not_eq, exp_pos). field. assumption. Qed.', ''])))
    ob('translate Inference.Anscombe_Poisson_residual (prologue, transforms, residual, mask block, sign)', t_ans)
    res = lib.run_case_files(files, timeout=600)
    for n, (rc, so, se, secs) in res.items():
        ctx.obligation('generated obligation %s (source expression = model entry function)' % n, rc == 0, 'translator', se[-600:] if rc else '')
    ctx.checker_cmds.append('coqc build/cases/C11_ob_*.v (regenerated from dadi/Inference.py)')

# ------------------------------------------------------------------------------------------------
# (2) generator

def totals(shape):
    # sum of the multi-index of every entry, C order (last axis fastest)
    out = [0]
    for s in shape:
        out = [t + i for t in out for i in range(s)]
    return out

def py_fold(vals, mask, tot, N):
    """the folding rule (used by the generator only to know which entries will be jointly unmasked)"""
    n = len(vals)
    ov, om = [], []
    for i in range(n):
        j = n - 1 - i
        out = 2 * tot[i] > N
        v = 0.0
        if not out:
            v = vals[i] + (vals[j] if 2 * tot[i] < N else 0.0)
            if 2 * tot[i] == N:
                v += -0.5 * vals[i] + 0.5 * vals[j]
        ov.append(v); om.append(bool(mask[i] or mask[j] or out or i == 0 or i == n - 1))   # Spectrum(...) in fold() masks the corners
    return ov, om

SCAN = [0.5, 0.8, 0.96875, 0.9990234375, 1.0, 1.0009765625, 1.03125, 1.25, 2.0]

def gen_one(rng, cid, stream, big=False, force=None):
    """force (stream 'containers'): dict overriding ndim / kind / d_folded / m_folded / corners / mask densities AFTER the
    random draw, so that the other streams see the same random numbers as before."""
    force = force or {}
    for _attempt in range(200):
        ndim = rng.choice([1, 1, 2, 2, 3])
        ndim = force.get('ndim', ndim)
        if big:                                     # thorough tier only: larger sample sizes
            shape = [[rng.randint(14, 41)], [rng.randint(5, 12), rng.randint(6, 12)],
                     [rng.randint(3, 6), rng.randint(4, 6), rng.randint(4, 7)]][ndim - 1]
        elif ndim == 1:
            shape = [rng.randint(3, 13)]
        elif ndim == 2:
            shape = [rng.randint(2, 6), rng.randint(3, 6)]
        else:
            shape = [rng.randint(2, 4), rng.randint(2, 4), rng.randint(3, 5)]
        n = 1
        for s in shape:
            n *= s
        tot = totals(shape); N = sum(shape) - ndim
        c = {'id': cid, 'stream': stream, 'shape': shape, 'N': N, 'tot': tot}
        corners = rng.choices(['masked', 'unmasked', 'model_unmasked', 'data_unmasked'], [70, 15, 10, 5])[0]
        d_folded = rng.random() < 0.35
        m_folded = d_folded and rng.random() < 0.3
        kind = rng.choice(['int', 'int', 'dyadic', 'dyadic', 'projected'])
        corners = force.get('corners', corners); d_folded = force.get('d_folded', d_folded)
        m_folded = force.get('m_folded', m_folded); kind = force.get('kind', kind)
        if stream == 'foldmismatch':
            d_folded, m_folded, kind = False, True, 'int'
        c['data_kind'] = kind; c['corners'] = corners
        # masks
        pd = rng.choice([0, 0, 0.1, 0.3]); pm = rng.choice([0, 0, 0.1, 0.3])
        pd = force.get('pd', pd); pm = force.get('pm', pm)
        d_mask = [rng.random() < pd for _ in range(n)]
        m_mask = [rng.random() < pm for _ in range(n)]
        for mk, unm in ((d_mask, corners in ('unmasked', 'data_unmasked')), (m_mask, corners in ('unmasked', 'model_unmasked'))):
            mk[0] = mk[-1] = not unm
        # values
        def dval():
            r = rng.random()
            if r < 0.2:
                return 0.0
            if kind == 'int' or kind == 'projected':
                return float(rng.choice([1, 1, 2, 3, 5, 8, 13, 21, 40, 117, 1000]) if r < 0.6 else rng.randint(1, 30))
            return rng.randint(1, 400) / 16.0
        d_vals = [dval() for _ in range(n)]
        m_vals = [lib.dyadic(rng, 1.0 / 64, rng.choice([1, 8, 40]), 8) for _ in range(n)]
        m_vals = [v if v > 0 else 1.0 / 256 for v in m_vals]
        if kind == 'projected':
            big = [s + rng.randint(1, 3) for s in shape]
            nb = 1
            for s in big:
                nb *= s
            c['d_project_from'] = big
            c['d_big'] = [float(rng.randint(0, 40)) if rng.random() > 0.15 else 0.0 for _ in range(nb)]
            c['d_unmask_corners'] = corners in ('unmasked', 'data_unmasked')
            d_mask[0] = d_mask[-1] = False          # extra mask only; the corner state comes from project()/d_unmask_corners
            eff_d_mask = list(d_mask)
            if not c['d_unmask_corners']:
                eff_d_mask[0] = eff_d_mask[-1] = True
            if d_folded:
                _, eff_d_mask = py_fold(d_vals, eff_d_mask, tot, N)
            d_pos = [True] * n                      # unknown values; project of non-negative counts is non-negative
        else:
            if d_folded:
                for i in range(n):
                    if 2 * tot[i] > N:
                        d_vals[i] = 0.0; d_mask[i] = True
            eff_d_mask = list(d_mask)
            d_pos = [v > 0 for v in d_vals]
        if m_folded:
            for i in range(n):
                if 2 * tot[i] > N:
                    m_vals[i] = 0.0; m_mask[i] = True
        # malformed stream: zero / negative model entries
        if stream == 'malformed':
            idx = [i for i in range(n) if not m_mask[i]]
            rng.shuffle(idx)
            for i in idx[:max(1, len(idx) // 4)]:
                m_vals[i] = rng.choice([0.0, 0.0, -lib.dyadic(rng, 1.0 / 16, 2, 6) or -0.5])
        if d_folded and not m_folded:
            mu_vals, mu_mask = py_fold(m_vals, m_mask, tot, N)
        else:
            mu_vals, mu_mask = m_vals, m_mask
        J = [not mu_mask[i] and not eff_d_mask[i] for i in range(n)]
        if stream != 'foldmismatch':
            if sum(1 for i in range(n) if J[i] and mu_vals[i] > 0 and d_pos[i]) < 1:
                continue
            M = sum(mu_vals[i] for i in range(n) if J[i]); Mabs = sum(abs(mu_vals[i]) for i in range(n) if J[i])
            if abs(M) < 0.2 * Mabs or M == 0:
                continue
            if stream == 'malformed' and not any(J[i] and mu_vals[i] <= 0 for i in range(n)):
                continue
        c.update({'d_vals': d_vals, 'd_mask': d_mask, 'd_folded': d_folded, 'm_vals': m_vals, 'm_mask': m_mask, 'm_folded': m_folded})
        c['cut'] = rng.choices([None, 0.0, rng.choice([0.25, 0.5, 1.0, 1.5, 4.0])], [50, 15, 35])[0]
        c['scan'] = SCAN if stream == 'regular' else SCAN[2:7:2] if stream == 'containers' else []
        c['rescale'] = rng.sample([0.25, 0.5, 3.0, 10.0, 1.0 / 1024, 7.5], 2) if stream != 'foldmismatch' else []
        if stream == 'regular' and rng.random() < 0.5:
            K = 3
            c['perturb'] = {'c': rng.choice([0.125, 0.5, 1.0, 2.0]),
                            'factors': [[1 + rng.randint(-32, 64) / 64.0 if k else 1 + rng.randint(-4, 4) / 256.0 for _ in range(n)] for k in range(K)],
                            'zero_fill': [[rng.randint(1, 64) / 64.0 if k != 1 else rng.randint(1, 8) / 1024.0 for _ in range(n)] for k in range(K)]}
        return c
    raise RuntimeError('generator could not produce a valid case')

def gen_cases(ctx):
    rng = ctx.rng
    nreg = ctx.pick(200, 5000); nmal = ctx.pick(40, 600); nfm = ctx.pick(4, 20)
    cases = []
    for _ in range(nreg):
        cases.append(gen_one(rng, len(cases), 'regular', big=(not ctx.quick) and rng.random() < 0.06))
    for _ in range(nmal):
        cases.append(gen_one(rng, len(cases), 'malformed'))
    for _ in range(nfm):
        cases.append(gen_one(rng, len(cases), 'foldmismatch'))
    return cases

def gen_container_cases(ctx, first_id, rounds, big, coq_rounds=99):
    """stream 'containers' (c11_types): systematic bases -- dimension 1-3 x integer / non-integer data, unfolded, with the
    full container and hidden-content lists; folded data with an unfolded (auto-fold) and with a folded model, Spectrum
    containers.  Drawn after all other streams."""
    rng = ctx.rng
    cases = []
    for rd in range(rounds):
        for ndim in (1, 2, 3):
            for kind in ('int', 'dyadic'):
                plans = [(False, False, True)]
                if (ndim + rd) % 2 == (kind == 'int'):
                    plans += [(True, False, False), (True, True, False)]
                for d_folded, m_folded, full in plans:
                    force = {'ndim': ndim, 'kind': kind, 'd_folded': d_folded, 'm_folded': m_folded, 'corners': 'masked',
                             'pd': 0.25, 'pm': 0.25}
                    c = gen_one(rng, first_id + len(cases), 'containers', big=big and rd > 0, force=force)
                    c.pop('perturb', None)
                    c['variants'] = c11_types.variants_for(c, rng, full=full)
                    if rd >= coq_rounds:
                        c['search'] = True          # predicates and variants only, no Coq correspondence case
                    cases.append(c)
    return cases

# ------------------------------------------------------------------------------------------------
# (3) predicates on the implementation

def _isnum(x):
    return isinstance(x, float) or isinstance(x, int)

def qel(vals, mask):
    return '[' + '; '.join('(%s, %s)' % (q(v if _isnum(v) else 0), b(m)) for v, m in zip(vals, mask)) + ']'

def rql(vals, mask):
    out = []
    for v, m in zip(vals, mask):
        out.append('QM' if m else 'QNF' if v == 'NF' else 'QV %s' % q(v))
    return '[' + '; '.join(out) + ']'

def predicates(ctx, c, r, remask):
    """the property itself on what the real code returned.  Returns list of (what, key)."""
    bad = []
    n = len(r['d_vals'])
    dv, dm = r['d_vals'], r['d_mask']
    if r['d_folded'] and not r['m_folded']:
        mu = r.get('m_used')
        if not isinstance(mu, list):
            return [('model.fold() failed inside the auto-fold: %r' % (mu,), None)]
        mv, mm = mu[0], mu[1]
    else:
        mv, mm = r['m_vals'], r['m_mask']
    J = [not mm[i] and not dm[i] for i in range(n)]
    Jp = [J[i] and mv[i] > 0 for i in range(n)]
    regular = c['stream'] in ('regular', 'containers')
    lg = math.lgamma
    def terms(s):
        return [(-s * mv[i], dv[i] * math.log(s * mv[i]), -lg(dv[i] + 1.0)) for i in range(n) if J[i] and s * mv[i] > 0]
    def ll_of(s):
        t = terms(s)
        return sum(sum(x) for x in t), sum(sum(abs(y) for y in x) for x in t) + 1e-300
    # ---- P1: ll = Poisson sum over the jointly unmasked entries (with positive model entry)
    if _isnum(r['ll']):
        want, sc = ll_of(1.0)
        if abs(r['ll'] - want) > FTOL * sc:
            bad.append(('ll is not the Poisson sum over the entries masked in neither: got %r want %r' % (r['ll'], want), None))
        if not _isnum(r.get('minus_ll')) or r['minus_ll'] != -r['ll']:
            bad.append(('minus_ll is not -ll', None))
        pbv, pbm = r['llpb']
        if pbm != [not x for x in Jp]:
            bad.append(('ll_per_bin mask is not (model mask | data mask | model <= 0)', None))
    elif any(Jp):
        bad.append(('ll returned %r although some entries are masked in neither' % (r['ll'],), None))
    # ---- P2: reported scaling = sum(data)/sum(model) over the entries masked in neither
    D = sum(dv[i] for i in range(n) if J[i]); M = sum(mv[i] for i in range(n) if J[i])
    Mabs = sum(abs(mv[i]) for i in range(n) if J[i])
    masks_differ = mm != dm
    quirk = remask and masks_differ and n > 0 and (J[0] or J[-1])
    s_ok = False
    if _isnum(r['scal']):
        want = D / M
        s_ok = abs(r['scal'] - want) <= FTOL * abs(want) * (1 + Mabs / abs(M))
        if not s_ok:
            bad.append(('optimal_sfs_scaling is not sum(data)/sum(model) over the entries masked in neither: got %r want %r '
                        '(masks differ=%s, corner jointly unmasked=%s)' % (r['scal'], want, masks_differ, bool(J[0] or J[-1])),
                        QUIRK_KEY if quirk else None))
    else:
        bad.append(('optimal_sfs_scaling returned %r although %d entries are masked in neither (masks differ=%s, corner jointly unmasked=%s)'
                    % (r['scal'], sum(J), masks_differ, bool(J[0] or J[-1])), QUIRK_KEY if quirk else None))
    # ---- P3: ll_multinom = ll at the reported scaling = max over positive rescalings
    if _isnum(r['scal']) and _isnum(r['llm']):
        s0 = r['scal']
        want, sc = ll_of(s0)
        if abs(r['llm'] - want) > FTOL * sc * (1 + Mabs / abs(M)):
            bad.append(('ll_multinom is not ll(optimal_sfs_scaling*model, data): got %r want %r' % (r['llm'], want), None))
        if not _isnum(r.get('minus_llm')) or r['minus_llm'] != -r['llm']:
            bad.append(('minus_ll_multinom is not -ll_multinom', None))
        if regular and isinstance(r.get('scan'), list):
            for x, v in r['scan']:
                if not _isnum(v):
                    bad.append(('ll(%r*s_opt*model) returned %r' % (x, v), None)); continue
                if x == 1.0 and abs(v - r['llm']) > FTOL * sc:
                    bad.append(('ll(s_opt*model, data) != ll_multinom(model, data): %r vs %r' % (v, r['llm']), None))
                if v > r['llm'] + FTOL * sc:
                    bad.append(('ll_multinom is not the maximum over rescalings: ll(%r*s_opt*model)=%r > ll_multinom=%r' % (x, v, r['llm']),
                                QUIRK_KEY if (quirk and not s_ok) else None))
                    break
            # exact optimum over the jointly unmasked entries, independent of the reported scaling
            if D > 0 and M > 0:
                best, scb = ll_of(D / M)
                if best > r['llm'] + FTOL * scb:
                    bad.append(('ll_multinom=%r is below the maximum %r over positive rescalings of the model' % (r['llm'], best),
                                QUIRK_KEY if (quirk and not s_ok) else None))
        # ---- P4: invariance to rescaling the model
        if isinstance(r.get('rescaled'), list):
            for k, v, s in r['rescaled']:
                if not (_isnum(v) and _isnum(s)):
                    bad.append(('ll_multinom/optimal_sfs_scaling of %r*model returned %r, %r' % (k, v, s), None)); continue
                if abs(v - r['llm']) > FTOL * sc * (1 + Mabs / abs(M)):
                    bad.append(('ll_multinom not invariant to rescaling the model by %r: %r vs %r' % (k, v, r['llm']), None))
                if abs(s * k - s0) > FTOL * abs(s0) * (1 + Mabs / abs(M)):
                    bad.append(('optimal_sfs_scaling(%r*model) is not optimal_sfs_scaling(model)/%r' % (k, k), None))
        oss = r.get('oss')
        if isinstance(oss, list):
            ov, om, of = oss
            if om != r['m_mask'] or of != r['m_folded']:
                bad.append(('optimally_scaled_sfs changed the mask / folded flag of the model', None))
            elif any(not om[i] and abs(ov[i] - s0 * r['m_vals'][i]) > FTOL * abs(s0 * r['m_vals'][i]) for i in range(n)):
                bad.append(('optimally_scaled_sfs is not optimal_sfs_scaling*model', None))
        else:
            bad.append(('optimally_scaled_sfs failed: %r' % (oss,), None))
    elif regular and _isnum(r['scal']):
        bad.append(('ll_multinom returned %r (reported scaling %r)' % (r['llm'], r['scal']), QUIRK_KEY if (quirk and not s_ok) else None))
    # ---- P5: model == const*data is the maximum over models
    p = r.get('perturb')
    if c.get('perturb') is not None:
        if not isinstance(p, dict) or 'error' in p or not _isnum(p.get('ref')):
            bad.append(('ll_multinom(const*data, data) failed: %r' % (p,), None))
        else:
            sc = sum(abs(dv[i]) * (1 + abs(math.log(dv[i]))) + abs(lg(dv[i] + 1)) for i in range(n) if not dm[i] and dv[i] > 0) + 1e-300
            for a in p['alts']:
                if not _isnum(a) or a > p['ref'] + FTOL * sc:
                    bad.append(('a perturbed model has a higher ll_multinom (%r) than model = %r*data (%r)' % (a, c['perturb']['c'], p['ref']), None))
                    break
    # ---- P6: residuals: masks and sign
    cut = c.get('cut')
    def cutp(i):
        return cut is not None and mv[i] <= cut and dv[i] <= cut
    for name in ('lin', 'ans'):
        rr = r.get(name)
        if not isinstance(rr, list):
            bad.append(('%s residual failed: %r' % (name, rr), None)); continue
        vals, mk = rr
        for i in range(n):
            if name == 'lin':
                wm = mm[i] or dm[i] or mv[i] < 0 or cutp(i)
            else:
                wm = mm[i] or dm[i] or mv[i] <= 0 or dv[i] <= 0 or cutp(i)
            if mk[i] != wm:
                bad.append(('%s residual: entry %d masked=%s, documented masking gives %s (model %r data %r mask arg %r)' % (name, i, mk[i], wm, mv[i], dv[i], cut), None)); break
            if wm:
                continue
            if mv[i] == 0:
                if vals[i] != 'NF':
                    bad.append(('%s residual at model = 0 is %r' % (name, vals[i]), None)); break
                continue
            v = vals[i]
            if not _isnum(v):
                bad.append(('%s residual entry %d is %r' % (name, i, v), None)); break
            sgn = (mv[i] > dv[i]) - (mv[i] < dv[i])
            if name == 'lin':
                want = (mv[i] - dv[i]) / math.sqrt(mv[i]); scl = (abs(mv[i]) + abs(dv[i])) / math.sqrt(mv[i])
            else:
                t = lambda x: x ** (2. / 3) - x ** (-1. / 3) / 9
                want = 1.5 * (t(mv[i]) - t(dv[i])) / mv[i] ** (1. / 6)
                scl = 1.5 * (abs(t(mv[i])) + abs(t(dv[i])) + mv[i] ** (2. / 3) + dv[i] ** (2. / 3)) / mv[i] ** (1. / 6)
            if ((v > 0) - (v < 0)) != sgn and abs(v) > 1e-12 * scl:
                bad.append(('%s residual has the wrong sign: model %r data %r residual %r (documented: positive when the model is high)' % (name, mv[i], dv[i], v), None)); break
            if abs(v - want) > FTOL * scl:
                bad.append(('%s residual value: model %r data %r got %r want %r' % (name, mv[i], dv[i], v, want), None)); break
    if r.get('inputs_unchanged') is False:
        bad.append(('a likelihood/residual function modified its input spectra', None))
    return bad

# ------------------------------------------------------------------------------------------------
# argument types and hidden content

def check_variants(ctx, c, r, remask, viol):
    """stream 'containers': every variant of base case c (record r) against the canonical call and against the property
    predicates.  One obligation per base case; a violation (with the single failing variant as replay input) per
    distinct (entry points, container families, filler) class."""
    T = c11_types
    refs = r.get('refs') or {}
    byvid = {v['vid']: v for v in (r.get('variants') or [])}
    failed = []
    seen = set()
    # the canonical calls with the masks of a mask-less container dropped are ordinary Spectrum calls: predicates on them too
    for key, ref in refs.items():
        cc = dict(c); cc.pop('perturb', None)
        bad = predicates(ctx, cc, ref, remask)
        if key != 'base' and bad:
            failed.append('canonical call %s: %s' % (key, bad[0][0]))
            viol('canonical Spectrum call with the mask of the mask-less side dropped (%s): %s' % (key, bad[0][0]), dict(c, variants=[]), ref, bad[0][1])
    for v in c['variants']:
        vr = byvid.get(v['vid'])
        label = 'model as %s%s, data as %s%s' % (v['mc'], ' (%s under its mask)' % v['hm_name'] if 'hm' in v else '',
                                               v['dc'], ' (%s under its mask)' % v['hd_name'] if 'hd' in v else '')
        ctx.count('variant model=%s' % v['mc']); ctx.count('variant data=%s' % v['dc'])
        ctx.count('variant hidden model=%s data=%s' % (v.get('hm_name', 'generated'), v.get('hd_name', 'generated')))
        if vr is None or 'error' in vr or vr.get('ref') not in refs:
            failed.append('%s: driver error %r' % (label, (vr or {}).get('error')))
            viol('container variant could not be built / evaluated (%s): %r' % (label, (vr or {}).get('error')), dict(c, variants=[v]), vr)
            continue
        ref = refs[vr['ref']]
        keys = T.accepted(v['mc'], v['dc'])
        skipped = {}
        for k in T.ALL:
            if k not in keys:
                skipped.setdefault('raises ' + str(vr[k].get('error', '')).split(':')[0] if isinstance(vr.get(k), dict) else 'returns', []).append(k)
        for outcome, ks in skipped.items():
            ctx.count('not compared (%s model, %s data; not accepted by the unchanged library) %s: %s' % (T.family(v['mc']), T.family(v['dc']), outcome, ','.join(ks)))
        if not keys:
            continue
        ctx.evaluations += 1
        f32 = T.is_f32(v['mc']) or T.is_f32(v['dc'])
        msgs = T.compare(ref, vr, keys, T.F32 if f32 else T.F64)
        if vr.get('inputs_unchanged') is False:
            msgs.append('the call modified its arguments')
        pmsgs = []
        if not f32:                                   # float32 operands: compared with the canonical call only (2e-5)
            cc = dict(c); cc.pop('perturb', None)
            pmsgs = [w for w, _ in predicates(ctx, cc, T.merged_for_predicates(ref, vr, keys), remask)]
        if msgs or pmsgs:
            first = (pmsgs or msgs)[0]
            failed.append('%s: %s' % (label, first))
            cls = (v['tag'], T.family(v['mc']), T.family(v['dc']), v.get('hm_name'), v.get('hd_name'), first.split(' ')[0])
            if cls not in seen:
                seen.add(cls)
                viol('%s: %s' % (label, first), dict(c, variants=[v]), {'variant': vr, 'canonical': ref, 'all': (pmsgs + msgs)[:6]})
    ctx.obligation('case %d: %d container / hidden-content variants agree with the canonical Spectrum call and satisfy the predicates'
                   % (c['id'], len(c['variants'])), not failed, 'predicate', '; '.join(failed[:3])[:500])

def run(ctx):
    ctx.rule = ('cases = (dimension 1-3, shape, data kind integer / dyadic non-integer / really projected, zeros in the data, '
                'independent random masks on model and data, corner masks of each, folded data with unfolded or folded model, residual mask '
                'argument) from one PRNG; a malformed stream with zero / negative model entries and a folded-model/unfolded-data stream; '
                'a containers stream: per round 12 systematic bases (dimension 1-3 x integer / dyadic data unfolded with all container pairs; '
                'folded data with unfolded / folded model with Spectrum containers), each with ~80-330 variants = container of model x container '
                'of data x raw content under the masks of model / data / both; '
                'distinct = distinct full input; non-trivial = at least two jointly unmasked entries')
    ctx.assumptions += ['float64 outputs are compared with exact rational evaluation of the model at 1e-9 x (sum of absolute values of the terms added)',
                        'the model is run over Q with exact field operations and 96-bit fixed-point ln/exp (Model/QFast.v, error < 2^-84) and Qlgamma (Stirling series, argument shifted to >= 20, error < 1e-20); both are compared with math.log / math.lgamma on every run',
                        'data >= 0 on unmasked entries (negative data is outside the property)',
                        'folded data are represented with zero value and mask on the entries a folded spectrum cannot have',
                        'container variants: which (model container family, data container family, entry point) combinations the library accepts was established on the unchanged tree (c11_types.ACCEPTS); only those are compared (1e-10 x sum of |terms| against the canonical Spectrum call; 2e-5 when an operand is float32, where the library computes in float32); an object without a mask (numpy.ma.nomask, ndarray, list) means nothing masked']
    ctx.trusted += ['gammaln as an uninterpreted function lg in the theorems (data_multiple_is_global_max assumes lg 1 = 0; the Poisson-pmf reading assumes lg(k+1) = ln k!)',
                    'fold as a function argument with hypothesis fold(s*l) = s*fold(l); discharged for the executable instance fold_flat (C11_fold_flat_commutes_with_scaling); that fold_flat is Spectrum.fold is checked here only through the correspondence of the folded cases (C09 owns folding)',
                    'numpy masked-array semantics (numpy.ma.log/sqrt/power domains, mask propagation) are modelled by hand and covered by the correspondence only']
    remask = extract_remask(ctx)
    ctx.count('intersect_masks mask_corners=%s' % remask)
    translator_obligations(ctx)
    # a source obligation that no longer checks: targeted search -- the container / hidden-content variants at larger
    # sizes and in more rounds -- before anything is reported without a failing input
    broken = [o['name'] for o in ctx.obligations if o['kind'] == 'translator' and not o['ok']]
    cases = gen_cases(ctx)
    cases += gen_container_cases(ctx, len(cases), rounds=ctx.pick(1, 4) + (2 if broken else 0), big=bool(broken) or not ctx.quick,
                                 coq_rounds=ctx.pick(1, 4))
    if broken:
        ctx.count('targeted search after a broken source obligation: extra container rounds', 2)
    if ctx.replay:
        rp = json.load(open(ctx.replay))
        if rp.get('input') and 'case' in rp['input']:
            c = rp['input']['case']; c['id'] = 0
            cases = [c]
    res = lib.run_impl('c11_impl.py', cases, timeout=1800)
    byid = {r['id']: r for r in res}
    exprs, meta = [], {}
    nviol = {}
    def viol(what, c, r, key=None):
        # at most 2 replays per known-finding key, 8 for anything else
        nviol[key] = nviol.get(key, 0) + 1
        if nviol[key] <= (2 if key else 8):
            ctx.violation(what, data={'case': c, 'impl': r}, key=key)
    for c in cases:
        r = byid[c['id']]
        ctx.count('stream=' + c['stream']); ctx.count('ndim=%d' % len(c['shape'])); ctx.count('entries<=20' if len(c['tot']) <= 20 else 'entries<=80' if len(c['tot']) <= 80 else 'entries>80'); ctx.count('data=' + c['data_kind'])
        ctx.count('corners=' + c['corners']); ctx.count('cut=' + ('none' if c['cut'] is None else 'zero' if c['cut'] == 0 else 'positive'))
        ctx.count('data_folded=%s,model_folded=%s' % (c['d_folded'], c['m_folded']))
        if 'error' in r:
            ctx.count('impl_error')
            viol('the likelihood driver raised %s' % r['error'], c, r)
            continue
        if c['stream'] == 'foldmismatch':
            # a folded model against unfolded data is refused: every likelihood / residual entry point raises.  (Spectrum
            # arithmetic raises ValueError; when no entry is unmasked in both, ll_multinom fails earlier, on the masked
            # scaling, with AttributeError -- still a refusal, and the property does not name the exception: demanding
            # ValueError there was a false alarm of this check, seed 11, case 241.)
            ok = all(isinstance(r.get(k), dict) and r[k].get('error') for k in ('ll', 'llpb', 'llm', 'lin', 'ans'))
            ctx.count('foldmismatch refused by ' + ','.join(sorted({str(r[k].get('error', '')).split(':')[0] for k in ('ll', 'llpb', 'llm', 'lin', 'ans') if isinstance(r.get(k), dict)})))
            ctx.case(signature=None)
            ctx.obligation('case %d: folded model with unfolded data is refused by ll / ll_multinom / residuals' % c['id'], ok, 'predicate',
                           '' if ok else repr({k: r.get(k) for k in ('ll', 'llm', 'lin', 'ans')})[:300])
            if not ok:
                viol('a folded model was combined with unfolded data without an error', c, r)
            continue
        n = len(r['d_vals'])
        nj = sum(1 for i in range(n) if not r['d_mask'][i] and not r['m_mask'][i])
        ctx.count('zeros_in_data' if any(v == 0 and not m for v, m in zip(r['d_vals'], r['d_mask'])) else 'no_zero_in_data')
        ctx.count('masks_differ' if r['d_mask'] != r['m_mask'] else 'masks_equal')
        ctx.case(signature=(c['shape'], r['m_vals'], r['m_mask'], r['d_vals'], r['d_mask'], c['d_folded'], c['m_folded'], c['cut']) if nj >= 2 else None,
                 sample={'shape': c['shape'], 'model': r['m_vals'], 'model_mask': r['m_mask'], 'data': r['d_vals'], 'data_mask': r['d_mask'],
                         'folded': [c['m_folded'], c['d_folded']], 'll': r['ll'], 'scaling': r['scal'], 'll_multinom': r['llm']})
        # --- property predicates on the implementation
        bad = predicates(ctx, c, r, remask)
        ctx.obligation('case %d: property predicates on the implementation' % c['id'], not bad, 'predicate', '; '.join(w for w, _ in bad)[:400])
        if bad and all(k == QUIRK_KEY for _, k in bad):
            ctx.obligations[-1]['known_key'] = QUIRK_KEY      # explained by that finding when it is listed in known_findings.json
            ctx.count('cases hitting ' + QUIRK_KEY)
        for what, key in bad[:2]:
            viol(what, c, r, key)
        if c.get('variants'):
            check_variants(ctx, c, r, remask, viol)
        # --- correspondence case
        if c.get('search'):
            ctx.count('targeted-search base (no Coq correspondence case)')
            continue
        need = ['ll', 'scal', 'llm']
        if not all(_isnum(r.get(k)) for k in need) or not all(isinstance(r.get(k), list) for k in ('llpb', 'llmpb', 'oss', 'lin', 'ans')):
            ctx.count('no_correspondence(non-finite or failed output)')
            if c['stream'] in ('regular', 'containers') and not bad:
                viol('an output is non-finite / masked / failed on a regular input: %r' % ({k: r.get(k) for k in need},), c, r)
            continue
        cut = 'None' if c['cut'] is None else 'Some %s' % q(c['cut'])
        resid = n <= 20          # the residual arrays cost five powers per entry in Coq; all sizes are covered by the predicates
        ctx.count('coq_residuals' if resid else 'coq_no_residuals')
        txt = ('{| lc_N := (%d)%%Z; lc_tot := %s; lc_remask := %s; lc_mf := %s; lc_df := %s; lc_cut := %s;\n lc_m := %s;\n lc_d := %s;\n'
               ' lc_ll := %s; lc_llpb := %s;\n lc_scal := %s; lc_llm := %s; lc_llmpb := %s;\n lc_oss := %s;\n lc_resid := %s; lc_lin := %s;\n lc_ans := %s |}') % (
            c['N'], lib.zl(c['tot']), b(remask), b(r['m_folded']), b(r['d_folded']), cut,
            qel(r['m_vals'], r['m_mask']), qel(r['d_vals'], r['d_mask']),
            q(r['ll']), qel(*r['llpb']), q(r['scal']), q(r['llm']), qel(*r['llmpb']), qel(r['oss'][0], r['oss'][1]),
            b(resid), rql(*r['lin']) if resid else '[]', rql(*r['ans']) if resid else '[]')
        exprs.append((c['id'], txt)); meta[c['id']] = c
    header = ('From Coq Require Import ZArith QArith List.\nFrom Dadi Require Import Base.Num Base.NumQ Model.QFast Model.Likelihood Model.Qlgamma Model.LikelihoodCheck.\n'
              'Import ListNotations.\nOpen Scope Q_scope.')
    results = ctx.coq_cases('corr', header, exprs, '(lcheck %s)' % q(TOL), 'tol 1e-9 x sum of |terms|', shard=ctx.pick(16, 80), timeout=1800)
    nbad = 0
    failing = []
    for cid, c in meta.items():
        rr = results.get(cid)
        ok = rr is not None and rr[0]
        ctx.obligation('corr case %d (ll, ll_per_bin, scaling, scaled sfs, ll_multinom(_per_bin), two residuals)' % cid, ok, 'correspondence',
                       '' if ok else 'model != impl (%r)' % (rr,))
        if not ok:
            failing.append(cid)
    if failing:
        # which of the eight comparisons? (diagnosis, first few)
        names = ['ll_per_bin', 'll', 'optimal_sfs_scaling', 'optimally_scaled_sfs', 'll_multinom_per_bin', 'll_multinom', 'linear residual', 'Anscombe residual']
        sub = [(cid, t) for cid, t in exprs if cid in failing[:6]]
        diag = {}
        body = [header, ''] + ['Definition case_%d := %s.' % (cid, t) for cid, t in sub]
        body.append('Eval vm_compute in [%s].' % '; '.join('(%d%%Z, lcheck_parts %s case_%d)' % (cid, q(TOL), cid) for cid, _ in sub))
        dres = lib.run_case_files([('C11_diag', '\n'.join(body) + '\n')], timeout=900)
        out = dres['C11_diag'][1] if dres['C11_diag'][0] == 0 else ''
        import re
        for m in re.finditer(r'\((\d+)%?Z?,\s*\[([^\]]*)\]\)', out.replace('\n', ' ')):
            flags = [x.strip() == 'true' for x in m.group(2).split(';')]
            diag[int(m.group(1))] = [nm for nm, f in zip(names, flags) if not f]
        for cid in failing:
            nbad += 1
            if nbad <= 3:
                c = meta[cid]
                # a violation of the property itself on this input was already reported by the predicates if there is one
                ctx.violation('implementation disagrees with the likelihood model on case %d (%s): %s' % (
                                  cid, c['stream'], ', '.join(diag.get(cid, ['?']))),
                              data={'case': c, 'impl': byid[cid], 'coq': results.get(cid), 'disagreeing_outputs': diag.get(cid)},
                              no_input=False)
    # --- Qlgamma vs math.lgamma (the approximation used to run the model; also: gammaln is ln Gamma)
    pts = [0.5, 1.0, 1.5, 2.0, 3.0, 7.25, 19.0, 20.0, 21.5, 100.0, 1001.0, 1.0 / 1024, 12345.0625] + [lib.dyadic(ctx.rng, 0.01, 60, 10) or 1.0 for _ in range(12)]
    lex = [(i, '(%s, %s)' % (q(x), q(math.lgamma(x)))) for i, x in enumerate(pts)]
    lres = ctx.coq_cases('lgamma', header, lex, '(lgcheck %s)' % q(Fraction(1, 10 ** 13)), 'tol 1e-13 x (1+|lgamma|)', shard=100)
    okl = all(lres.get(i, (False, 0))[0] for i, _ in lex)
    ctx.obligation('Qlgamma agrees with math.lgamma at %d points to 1e-13' % len(pts), okl, 'correspondence', '' if okl else repr(lres))
    lnx = [(i, '(%s, %s)' % (q(x), q(math.log(x)))) for i, x in enumerate(pts)]
    nres = ctx.coq_cases('ln', header, lnx, '(lncheck %s)' % q(Fraction(1, 10 ** 14)), 'tol 1e-14 x (1+|ln|)', shard=100)
    okn = all(nres.get(i, (False, 0))[0] for i, _ in lnx)
    ctx.obligation('Qln_fast agrees with math.log at %d points to 1e-14' % len(pts), okn, 'correspondence', '' if okn else repr(nres))
