"""C03 — AMPLITUDE and DURATION regimes of the linearity / rescaling statements.

The linearity theorems (Props/C03.v: C03_integration_linear_const / _timedep and their corollaries C03_integration_homogeneous_*,
C03_integration_from_nothing_scales_with_theta_*) hold for ALL coefficient pairs and ANY number of time steps: the time steps do
not depend on the density, and each step is a linear map.  The predicates of c03.py draw coefficients of order one and epochs of
one or two steps; a change of the drivers whose effect depends on the SIZE of the density or of theta0 (a stopping rule with an
absolute tolerance, a threshold below which the influx is dropped, a clamp, a "density is negligible" shortcut) or that only acts
after MANY steps (stationarity detection, step-size control) is invisible there.  This stream evaluates, on EVERY run, for 1-5
populations and for both drivers (constants -> the constant-parameter path, functions of time -> the time-dependent path):

  per setting (d, driver, epoch), epoch in
      single   T = 0.6 dt                      (one partial step)
      two      T = 1.5 dt                      (one full step and a partial one)
      few      T = 4.5 dt
      long     T >= 10 * (largest nu)          (an epoch that relaxes to the stationary density; selection and dominance present)
  with two densities X1 = (phi1, th1), X2 = (phi2, th2) of ordinary size, Z = (0, 1) (no density, unit influx), W = (phi1, 0):

  homogeneity      F(s X1)            = s F(X1)                   s in 1e-12 .. 1e12 (and powers of two)
  superposition    F(a X1 + b X2)     = a F(X1) + b F(X2)         (a, b) tiny/tiny, huge/huge, huge/tiny, tiny/huge, mixed signs
  from nothing     F(0, s)            = s F(0, 1)                 s in 1e-12 .. 1e6   (density built up by the influx alone)
  theta0 range     F(phi1, t)         = F(phi1, 0) + t F(0, 1)    t in 1e-12 .. 1e6   (ordinary density, extreme theta0)
  rescaling        F(R_c X) = F(X)    c in {1e-3, 1e3, 2^-10, 2^10, random in [1e-3, 1e3]}, X = X1 and X = 1e-9 X1

compared relative to the largest entry (|a| max|F(X1)|, |b| max|F(X2)|, max|result|): the property is exact linearity of the scheme,
so the tolerance is scale-free (linearity 1e-10, rescaling 1e-12 for powers of two and 1e-9 otherwise: the tolerances of c03.py).
Whole-model programs (c03_orders.gen_program; the one-population model also with a LONG first epoch) and the equilibrium density
are evaluated at theta0 scaled by 1e-12 .. 1e6 and at reference sizes c = 1e-3, 1e3.  A few of the tiny-amplitude multi-step cases go
through the correspondence with the Coq model (corr_cases, c03.run).

Every violation carries the calls involved (replay: `--replay` evaluates exactly those calls again, c03.run dispatches on 'regime').

Targeted search (search): when a translator / source obligation of C03 is broken and no failing input has been found, the functions
the broken obligations name are mapped to (dimension, driver) and this stream is run at thorough size on them before the check
concludes that it found no failing input.
"""
import json, math, random, re, threading
from harness import lib, numgen
from harness.props import c03_orders

TOL_LINEAR = 1e-10
TOL_RESCALE_POW2 = 1e-12
TOL_RESCALE = 1e-9

HOMOG = [1e-12, 1e-9, 1e-6, 1e-4, 1e-3, 1e3, 1e6, 1e12, 2.0 ** -40, 2.0 ** 30]
PAIRS = [(1e-12, 3e-12), (1e12, 2.5e11), (1e12, 1e-12), (1e-12, 1e12), (1e-3, 4e-4), (3e-6, 1e-6), (2e-9, 5e-9), (-2e-9, 5e-9),
         (2.0 ** -40, 3 * 2.0 ** -41)]
FROM_NOTHING = [1e-12, 1e-8, 1e-4, 1e6]
THETA_RANGE = [1e-12, 1e-6, 1e6]
FACTORS = [1e-3, 1e3, 2.0 ** -10, 2.0 ** 10]
TINY = 1e-9          # amplitude of the second rescaling base

EPOCHS = ['single', 'two', 'few', 'long']
EPOCH_NAME = {'single': 'single-step', 'two': 'two-step', 'few': 'few-step', 'long': 'long'}
MODES = {1: [None, 'const', 'lin'], 2: [None, 'const', 'lin'], 3: [None, 'const', 'lin'], 4: [None, 'lin'], 5: [None, 'lin']}
MODE_NAME = {None: 'constants', 'const': 'constant functions', 'lin': 'functions of time'}

def ispow2(k):
    return k > 0 and math.log2(k) == int(math.log2(k))

# ----------------------------------------------------------------------------------------------------------------------
# settings

def max_vm(p, nu):
    """the quantity of Integration._compute_dt for one population"""
    h = p['h']; g = abs(p['gamma'])
    return max(0.25 / nu, sum(p['ms']), g * 2 * max(abs(h + (1 - 2 * h) * 0.5) * 0.25, abs(h + (1 - 2 * h) * 0.25) * 0.1875))

def plan_T(pops, tf, mode, nsteps, min_T=None):
    """walks the driver's own step sequence (dt from the parameters at the start of each step).  nsteps = k + f: T = k full steps
    and the fraction f of the next one; min_T given: T = the middle of the step that contains min_T.  -> (T, number of steps)"""
    t = 0.0; k = 0
    full = int(math.floor(nsteps)); frac = (nsteps - full) or 0.5
    while True:
        dt = tf / max(max_vm(p, p['nu'] + (p.get('nu_slope', 0.0) * t if mode == 'lin' else 0.0)) for p in pops)
        if (min_T is None and k >= full) or (min_T is not None and t + dt > min_T):
            T = t + frac * dt
            # a nearby number with few bits (exact in both worlds); the shift is far less than a step
            e = math.floor(math.log2(T)) - 12
            T = round(T / 2.0 ** e) * 2.0 ** e
            return T, k + 1
        t += dt; k += 1
        if k > 50000:
            raise RuntimeError('plan_T: too many steps')

def gen_setting(rng, d, mode, epoch, rep=0):
    n = {1: rng.randint(9, 14), 2: rng.randint(6, 8), 3: rng.choice([5, 6]), 4: 4, 5: 3}[d]
    if epoch == 'long' and d == 3:
        n = 5
    g = numgen.grid(rng, n, kind=rng.choice(['uniform', 'exp', 'quad', 'random']))
    long_ = epoch == 'long'
    pops = []
    for i in range(d):
        p = {'nu': numgen.logdy(rng, 0.5, 1.5, 3) if long_ else numgen.logdy(rng, 0.1, 8, 4),
             'gamma': 0.0, 'h': 0.5, 'beta': numgen.logdy(rng, 0.5, 2, 3) if (d == 1 and rng.random() < 0.5) else 1.0,
             'ms': [0.0] * (d - 1), 'frozen': False, 'nomut': False}
        # selection / dominance: always somewhere in a long epoch, often elsewhere
        if (long_ and i == 0) or rng.random() < 0.6:
            p['gamma'] = rng.choice([-1, 1]) * lib.dyadic(rng, 1, (4 if d <= 3 else 2) if long_ else 8, 2)
            p['h'] = rng.choice([0.5, 0.25, 0.75, 0.0, 1.0]) if not (long_ and i == 0) else rng.choice([0.25, 0.75, 0.0, 1.0, 0.5])
        if d > 1:
            cap = (1.0 if long_ else 4.0) / (d - 1)
            p['ms'] = [lib.dyadic(rng, 0, cap, 3) if rng.random() < 0.7 else 0.0 for _ in range(d - 1)]
        pops.append(p)
    if d >= 2 and not long_ and rng.random() < 0.3:
        f = rng.randrange(d)
        pops[f]['frozen'] = True
        for i, p in enumerate(pops):
            others = [j for j in range(d) if j != i]
            p['ms'] = [0.0 if (i == f or j == f) else m for j, m in zip(others, p['ms'])]
    if d == 2 and not long_ and rng.random() < 0.3:
        pops[rng.randrange(2)]['nomut'] = True
    if mode == 'lin':
        for p in pops:
            p['nu_slope'] = lib.dyadic(rng, 0, 0.125, 5) if long_ else lib.dyadic(rng, 0, 2, 3)
    tf = {1: 1 / 32, 2: 1 / 16, 3: 1 / 8, 4: 1 / 8, 5: 1 / 8}[d] if long_ else rng.choice([1 / 64, 1 / 128, 1 / 256])
    if long_:
        T, steps = plan_T(pops, tf, mode, 0.5, min_T=(10.5 + 2 * rng.random()) * max(p['nu'] for p in pops))
    else:
        T, steps = plan_T(pops, tf, mode, {'single': 0.6, 'two': 1.5, 'few': 4.5}[epoch])
    base = {'kind': 'driver', 'shape': [n] * d, 'grid': g, 'pops': pops, 'tf': tf, 'delj': False, 'T': T, 'as_func': mode}
    size = n ** d
    lin = mode == 'lin'
    k1 = ['random', 'smooth', 'spike'][rep % 3] if rng.random() < 0.7 else 'signed'
    inputs = {'X1': (numgen.density(rng, size, kind=k1), lib.dyadic(rng, 0.25, 4, 4), lib.dyadic(rng, 0, 1, 3) if lin else 0.0),
              'X2': (numgen.density(rng, size), lib.dyadic(rng, 0.25, 4, 4), lib.dyadic(rng, 0, 1, 3) if lin else 0.0),
              'Z': ([0.0] * size, 1.0, lib.dyadic(rng, 0, 0.5, 3) if lin else 0.0)}
    inputs['W'] = (list(inputs['X1'][0]), 0.0, 0.0)
    return {'d': d, 'mode': mode, 'epoch': epoch, 'steps': steps, 'base': base, 'inputs': inputs,
            'c_random': numgen.logdy(rng, 1e-3, 1e3, 6)}

def combo_input(st, a, u, b, v):
    """the input a*u + b*v of a setting -> (phi, theta0, theta_slope)"""
    pu, tu, su = st['inputs'][u]
    if v is None or b == 0:
        return [a * x for x in pu], a * tu, a * su
    pv, tv, sv = st['inputs'][v]
    return [a * x + b * y for x, y in zip(pu, pv)], a * tu + b * tv, a * su + b * sv

def case_of(st, inp):
    phi, th, sl = inp
    c = json.loads(json.dumps(st['base']))
    c['phi'] = phi; c['theta0'] = th; c['theta_slope'] = sl
    return c

def plan(st, size):
    """-> (calls {key: case}, checks [dict]) of one setting"""
    homog, pairs, fromn, thr = HOMOG, PAIRS, FROM_NOTHING, THETA_RANGE
    calls = {}; checks = []
    for name in ('X1', 'X2', 'Z', 'W'):
        calls[name] = case_of(st, combo_input(st, 1.0, name, 0.0, None))
    def lin(kind, a, u, b, v):
        th = a * st['inputs'][u][1] + (b * st['inputs'][v][1] if v else 0.0)
        sl = a * st['inputs'][u][2] + (b * st['inputs'][v][2] if v else 0.0)
        if th < 0 or sl < 0:
            a = abs(a)        # the drivers reject a negative theta0: keep the combination admissible
        key = '%s a=%r %s b=%r %s' % (kind, a, u, b, v)
        calls[key] = case_of(st, combo_input(st, a, u, b, v))
        checks.append({'type': 'linear', 'family': kind, 'a': a, 'u': u, 'b': b, 'v': v, 'call': key})
    for s in homog:
        lin('homogeneity', s, 'X1', 0.0, None)
    for a, b in pairs:
        lin('superposition', a, 'X1', b, 'X2')
    for s in fromn:
        lin('from nothing', s, 'Z', 0.0, None)
    for t in thr:
        lin('theta0 range', 1.0, 'W', t, 'Z')
    # rescaling: the ordinary input and the same at amplitude 1e-9
    tiny_key = 'homogeneity a=%r X1 b=0.0 None' % TINY
    if tiny_key not in calls:
        calls[tiny_key] = case_of(st, combo_input(st, TINY, 'X1', 0.0, None))
    facs = FACTORS + [st['c_random']]
    from harness.props import c03
    for c in facs:
        for bk in ('X1', tiny_key):
            key = 'rescale c=%r of %s' % (c, bk)
            calls[key] = c03.rescale_case(calls[bk], c)
            checks.append({'type': 'rescale', 'family': 'rescaling', 'c': c, 'base': bk, 'call': key})
    return calls, checks

def gen_settings(rng, size, only=None, reps=None):
    out = []
    reps = reps or (2 if size == 'quick' else 8)
    for d in range(1, 6):
        for mode in MODES[d]:
            if only is not None and (d, mode) not in only:
                continue
            for epoch in EPOCHS:
                for rep in range(reps if epoch != 'long' else max(1, reps - 1)):
                    out.append(gen_setting(rng, d, mode, epoch, rep))
    return out

# ----------------------------------------------------------------------------------------------------------------------
# whole models and the equilibrium density

PROG_SCALES = [1e-12, 1e-6, 1e6, 2.0 ** -40]
PROG_FACTORS = [1e-3, 1e3]

def gen_programs(rng, size):
    out = []
    plan_ = [(1, 0, False), (1, 3, True), (1, 0, True), (2, 0, False), (3, 0, False), (4, 0, False), (5, 0, False)]
    if size == 'thorough':
        plan_ += [(1, 1, False), (2, 2, False), (2, 3, True), (2, 1, False), (3, 3, True), (3, 2, False)]
    for d, variant, long_ in plan_:
        P = c03_orders.gen_program(rng, d, variant)
        if long_:       # the epoch after the equilibrium relaxes to the new stationary density: T = 10..12 nu
            st = P['steps'][1]
            st['nu'] = numgen.logdy(rng, 0.125, 1.0, 3)
            st['T'] = lib.dyadic(rng, 10, 12, 4) * st['nu']
            P['tf'] = 1 / 32
        vname = ['dominance', 'genic strong selection', 'functions of time', 'neutral'][variant]
        out.append({'what': '%d-D whole model (%s%s)' % (d, vname, ', long first epoch' if long_ else ''), 'P': P, 'd': d, 'long': long_,
                    'quad': P['steps'][0]['h'] != 0.5})
    return out

PHI_CASES = [('neutral', 0.0, 0.5), ('genic', -6.0, 0.5), ('genic', 3.0, 0.5), ('genic beyond the guard', -400.0, 0.5),
             ('dominance', -3.0, 0.25), ('dominance', 2.0, 0.75)]
PHI_THETAS = [1e-12, 1e-6, 1e6]

def gen_phi(rng, size):
    out = []
    for name, geff, h in PHI_CASES:
        n = rng.choice([9, 13, 17])
        g = numgen.grid(rng, n, kind=rng.choice(['exp', 'quad', 'uniform']))
        nu = rng.choice([0.5, 2.0, 3.0, 1.0]); beta = rng.choice([1.0, 1.0, 3.0, 0.5])
        X = {'kind': 'phi1d', 'grid': g, 'nu': nu, 'theta0': lib.dyadic(rng, 0.5, 4, 3), 'gamma': geff / (nu * c03_orders.bf(beta)), 'h': h, 'beta': beta}
        out.append({'what': 'phi_1D %s, beta=%g, h=%g' % (name, beta, h), 'X': X, 'genic': h == 0.5})
    return out

# ----------------------------------------------------------------------------------------------------------------------
# evaluation

def run_calls(calls, jobs=2):
    """calls: list of cases (ids assigned here) -> list of result records in the same order"""
    for i, c in enumerate(calls):
        c['id'] = i
    if not calls:
        return []
    # interleave so that the long calls are spread over the processes
    jobs = max(1, min(jobs, len(calls) // 50 + 1))
    chunks = [calls[i::jobs] for i in range(jobs)]
    from concurrent.futures import ThreadPoolExecutor
    with ThreadPoolExecutor(max_workers=jobs) as ex:
        outs = list(ex.map(lambda ch: lib.run_impl('c03_impl.py', ch, timeout=6000), chunks))
    byid = {}
    for o in outs:
        for r in o:
            byid[r['id']] = r
    return [byid[c['id']] for c in calls]

def finite(xs):
    return all(isinstance(x, float) and math.isfinite(x) for x in xs)

def linear_dev(a, fu, b, fv, got):
    """max |a fu + b fv - got| relative to max(|a| max|fu|, |b| max|fv|, max|got|)"""
    if fv is None:
        fv = [0.0] * len(fu); b = 0.0
    if not (len(fu) == len(fv) == len(got)):
        return float('inf'), None
    if not (finite(fu) and finite(fv) and finite(got)):
        return float('inf'), None
    want = [a * x + b * y for x, y in zip(fu, fv)]
    s = max(abs(a) * max(abs(x) for x in fu), abs(b) * max(abs(x) for x in fv), max(abs(x) for x in got), 1e-300)
    return max(abs(x - y) for x, y in zip(want, got)) / s, want

def reldev(a, b):
    if len(a) != len(b) or not (finite(a) and finite(b)):
        return float('inf')
    s = max(1e-300, max(abs(x) for x in a + b))
    return max(abs(x - y) for x, y in zip(a, b)) / s

def strip(c):
    return {k: v for k, v in c.items() if k != 'id' and not k.startswith('_')}

def describe_setting(st):
    b = st['base']
    return '%d-population integration (%s, %s epoch: T=%.6g, about %d steps, nu=%s, gamma=%s, h=%s)' % (
        st['d'], MODE_NAME[st['mode']], EPOCH_NAME[st['epoch']], b['T'], st['steps'], ['%.4g' % p['nu'] for p in b['pops']],
        ['%.4g' % p['gamma'] for p in b['pops']], ['%g' % p['h'] for p in b['pops']])

def check_text(chk):
    if chk['type'] == 'rescale':
        return 'rescaling c=%g of %s' % (chk['c'], 'the ordinary input' if chk['base'] == 'X1' else 'the input at amplitude %g' % TINY)
    if chk['v'] is None or chk['b'] == 0:
        return '%s: F(s*%s) = s*F(%s), s=%g' % (chk['family'], chk['u'], chk['u'], chk['a'])
    return '%s: F(a*%s + b*%s) = a*F(%s) + b*F(%s), a=%g b=%g' % (chk['family'], chk['u'], chk['v'], chk['u'], chk['v'], chk['a'], chk['b'])

def eval_check(chk, res):
    """res: key -> result record.  -> (dev, tol, text or None, keys involved, extra)"""
    if chk['type'] == 'rescale':
        r0, r1 = res[chk['base']], res[chk['call']]
        keys = [chk['base'], chk['call']]
        tol = TOL_RESCALE_POW2 if ispow2(chk['c']) else TOL_RESCALE
        if 'error' in r0 or 'error' in r1:
            return float('inf'), tol, 'error: %s' % (r0.get('error') or r1.get('error')), keys, {}
        dev = reldev(r0['res'], r1['res'])
        return dev, tol, None, keys, {'out_base': r0['res'], 'out_rescaled': r1['res']}
    ru, rg = res[chk['u']], res[chk['call']]
    rv = res[chk['v']] if chk['v'] else None
    keys = [chk['u']] + ([chk['v']] if chk['v'] else []) + [chk['call']]
    for r in (ru, rv, rg):
        if r is not None and 'error' in r:
            return float('inf'), TOL_LINEAR, 'error: %s' % r['error'], keys, {}
    dev, want = linear_dev(chk['a'], ru['res'], chk['b'], rv['res'] if rv else None, rg['res'])
    return dev, TOL_LINEAR, None, keys, {'want': want, 'got': rg['res']}

def evaluate_settings(ctx, settings, plans, results, tag='', max_reports=3):
    """plans: [(calls, checks)], results: [ {key: record} ] -> number of failing checks"""
    nbad = 0; reported = {}
    for st, (calls, checks), res in zip(settings, plans, results):
        worst = {}; bad = []
        for chk in checks:
            dev, tol, err, keys, extra = eval_check(chk, res)
            fam = chk['family']
            ok = dev <= tol
            worst[fam] = max(worst.get(fam, 0.0), dev)
            ctx.case(signature=('regime', st['d'], st['mode'], st['epoch'], fam, chk.get('a'), chk.get('b'), chk.get('c'), chk.get('base'), st['base']['T']),
                     sample={'predicate': 'regime ' + fam, 'd': st['d'], 'driver': MODE_NAME[st['mode']], 'epoch': st['epoch'], 'steps': st['steps'],
                             'a': chk.get('a'), 'b': chk.get('b'), 'c': chk.get('c'), 'rel_dev': dev} if ctx.evaluations % 97 == 0 else None)
            ctx.count('regime d=%d %s epoch / %s' % (st['d'], st['epoch'], fam))
            if not ok:
                bad.append((chk, dev, tol, err, keys, extra))
        ctx.count('regime setting d=%d %s' % (st['d'], MODE_NAME[st['mode']]))
        ctx.obligation('%samplitude / duration regimes, %s: %d identities (%s)' % (
            tag, describe_setting(st)[:160], len(checks), ', '.join('%s %.2g' % (f, w) for f, w in sorted(worst.items()))),
            not bad, 'predicate', '' if not bad else '; '.join('%s: rel dev %.3g > %g%s' % (check_text(c), dv, tl, (' ' + e) if e else '') for c, dv, tl, e, _, _ in bad[:4]))
        nbad += len(bad)
        # report the clearest failures: the largest deviation of each family
        best = {}
        for item in bad:
            f = item[0]['family']
            if f not in best or item[1] > best[f][1]:
                best[f] = item
        for fam, (chk, dev, tol, err, keys, extra) in sorted(best.items()):
            rk = (st['d'], fam)
            if reported.get(rk, 0) >= 1 or sum(reported.values()) >= max_reports * 3 or sum(1 for k in reported if k[1] == fam) >= max_reports:
                continue
            reported[rk] = 1
            if chk['type'] == 'rescale':
                msg = '%s: re-expressing the integration relative to a reference size %g times larger (%s) changes the density by %.3g of its largest entry (tolerance %g)%s' % (
                    describe_setting(st), chk['c'], 'density and theta0 of ordinary size' if chk['base'] == 'X1' else 'density and theta0 scaled by %g' % TINY, dev, tol, (': ' + err) if err else '')
            elif chk['v'] is None or chk['b'] == 0:
                msg = '%s is not homogeneous in (density, theta0): the result for %g*(%s) differs from %g*(result for %s) by %.3g of the largest entry (tolerance %g)%s' % (
                    describe_setting(st), chk['a'], 'phi=0, theta0=1' if chk['u'] == 'Z' else 'phi1, theta1', chk['a'], 'phi=0, theta0=1' if chk['u'] == 'Z' else 'phi1, theta1', dev, tol, (': ' + err) if err else '')
            else:
                msg = '%s: the result for a*(%s) + b*(%s) differs from a*F(%s) + b*F(%s) with a=%g, b=%g by %.3g of the largest entry (tolerance %g)%s' % (
                    describe_setting(st), chk['u'], chk['v'], chk['u'], chk['v'], chk['a'], chk['b'], dev, tol, (': ' + err) if err else '')
            data = {'regime': {'kind': 'driver', 'check': chk, 'calls': {k: strip(calls[k]) for k in keys}, 'setting': {k: st[k] for k in ('d', 'mode', 'epoch', 'steps')},
                               'rel_dev': dev, 'tol': tol}}
            if sum(len(v) for v in extra.values() if isinstance(v, list)) < 3000:
                data['regime'].update(extra)
            ctx.violation(msg, data=data)
    return nbad

def evaluate_programs(ctx, progs, res, tag=''):
    """res: per program {key: record}"""
    nbad = 0; rep = 0
    for pg, r in zip(progs, res):
        P = pg['P']
        probs = []
        for s in PROG_SCALES:
            dev, where = c03_orders.linear_dev(r['X'], r['X'], r['s=%r' % s], s, 0.0)
            ctx.case(signature=('regime program', pg['what'], 's', s, c03_orders.ckey(P)))
            ctx.count('regime whole model d=%d: theta0 scaled' % pg['d'])
            if not dev <= TOL_LINEAR:
                probs.append(('s=%r' % s, 'theta0 scaled by %g: every density and the spectrum should scale by the same factor; rel dev %.3g%s (tolerance %g)' % (s, dev, (' (%s)' % where) if where else '', TOL_LINEAR), dev))
        for c in PROG_FACTORS:
            dev, where = c03_orders.rescale_dev(r['X'], r['c=%r' % c])
            tol = 1e-7 if pg['quad'] else 1e-9
            ctx.case(signature=('regime program', pg['what'], 'c', c, c03_orders.ckey(P)))
            ctx.count('regime whole model d=%d: reference size 1e-3 / 1e3' % pg['d'])
            if not dev <= tol:
                probs.append(('c=%r' % c, 're-expressed relative to a reference size %g times larger: rel dev %.3g%s (tolerance %g)' % (c, dev, (' (%s)' % where) if where else '', tol), dev))
        ctx.obligation('%samplitude regimes, %s: theta0 x {%s} scales every density and the spectrum; reference size x {%s} leaves them unchanged' % (
            tag, pg['what'], ', '.join('%g' % s for s in PROG_SCALES), ', '.join('%g' % c for c in PROG_FACTORS)), not probs, 'predicate', '; '.join(p[1] for p in probs[:3]))
        nbad += len(probs)
        if probs and rep < 3:
            rep += 1
            key, text, dev = max(probs, key=lambda p: p[2] if p[2] == p[2] else float('inf'))
            ctx.violation('%s (%s): %s' % (pg['what'], c03_orders.describe(P), text),
                          data={'regime': {'kind': 'program', 'what': pg['what'], 'quad': pg['quad'], 'key': key, 'calls': {'X': pg['calls']['X'], key: pg['calls'][key]}, 'rel_dev': dev}})
    return nbad

def evaluate_phi(ctx, phis, res, tag=''):
    nbad = 0; rep = 0
    for ph, r in zip(phis, res):
        probs = []
        X = ph['X']
        for t in PHI_THETAS:
            r0, r1 = r['X'], r['t=%r' % t]
            if 'error' in r0 or 'error' in r1:
                dev = float('inf')
            else:
                dev, _ = linear_dev(t / X['theta0'], r0['res'], 0.0, None, r1['res'])
            ctx.case(signature=('regime phi1d', ph['what'], 't', t, c03_orders.ckey(X)))
            ctx.count('regime phi_1D: theta0 1e-12 .. 1e6')
            if not dev <= TOL_LINEAR:
                probs.append(('t=%r' % t, 'theta0=%g: the density should be %g/%g times the one for theta0=%g; rel dev %.3g (tolerance %g)' % (t, t, X['theta0'], X['theta0'], dev, TOL_LINEAR), dev))
        for c in PROG_FACTORS:
            r0, r1 = r['X'], r['c=%r' % c]
            dev = float('inf') if ('error' in r0 or 'error' in r1) else reldev(r0['res'], r1['res'])
            tol = 1e-9 if ph['genic'] else 1e-7
            ctx.case(signature=('regime phi1d', ph['what'], 'c', c, c03_orders.ckey(X)))
            ctx.count('regime phi_1D: reference size 1e-3 / 1e3')
            if not dev <= tol:
                probs.append(('c=%r' % c, 're-expressed relative to a reference size %g times larger: rel dev %.3g (tolerance %g)' % (c, dev, tol), dev))
        ctx.obligation('%samplitude regimes, %s: linear in theta0 over {%s}; unchanged at reference sizes {%s}' % (
            tag, ph['what'], ', '.join('%g' % t for t in PHI_THETAS), ', '.join('%g' % c for c in PROG_FACTORS)), not probs, 'predicate', '; '.join(p[1] for p in probs[:3]))
        nbad += len(probs)
        if probs and rep < 2:
            rep += 1
            key, text, dev = max(probs, key=lambda p: p[2] if p[2] == p[2] else float('inf'))
            ctx.violation('%s: %s' % (c03_orders.describe(X), text),
                          data={'regime': {'kind': 'phi1d', 'what': ph['what'], 'genic': ph['genic'], 'key': key, 'calls': {'X': ph['calls']['X'], key: ph['calls'][key]}, 'rel_dev': dev}})
    return nbad

# ----------------------------------------------------------------------------------------------------------------------
# the stream

def build(rng, size, only=None, reps=None, with_models=True):
    settings = gen_settings(rng, size, only=only, reps=reps)
    plans = [plan(st, size) for st in settings]
    progs = gen_programs(rng, size) if with_models else []
    for pg in progs:
        P = pg['P']
        pg['calls'] = {'X': c03_orders.cp(P)}
        for s in PROG_SCALES:
            pg['calls']['s=%r' % s] = c03_orders.scale_key(P, 'theta0', s)
        for c in PROG_FACTORS:
            pg['calls']['c=%r' % c] = c03_orders.prog_rescale(P, c)
    phis = gen_phi(rng, size) if with_models else []
    for ph in phis:
        X = ph['X']
        ph['calls'] = {'X': c03_orders.cp(X)}
        for t in PHI_THETAS:
            ph['calls']['t=%r' % t] = dict(c03_orders.cp(X), theta0=t)
        for c in PROG_FACTORS:
            ph['calls']['c=%r' % c] = c03_orders.phi_rescale(X, c)
    return {'settings': settings, 'plans': plans, 'progs': progs, 'phis': phis, 'size': size}

def execute(h):
    flat = []; index = []
    for si, (calls, _) in enumerate(h['plans']):
        for k, c in calls.items():
            index.append(('s', si, k)); flat.append(json.loads(json.dumps(strip(c))))
    for pi, pg in enumerate(h['progs']):
        for k, c in pg['calls'].items():
            index.append(('p', pi, k)); flat.append(json.loads(json.dumps(strip(c))))
    for pi, ph in enumerate(h['phis']):
        for k, c in ph['calls'].items():
            index.append(('e', pi, k)); flat.append(json.loads(json.dumps(strip(c))))
    recs = run_calls(flat)
    rs = [dict() for _ in h['plans']]; rp = [dict() for _ in h['progs']]; re_ = [dict() for _ in h['phis']]
    for (fam, i, k), r in zip(index, recs):
        {'s': rs, 'p': rp, 'e': re_}[fam][i][k] = r
    h['ncalls'] = len(flat)
    h['results'] = (rs, rp, re_)

RULE = (' || amplitude / duration regimes (c03_regimes.py), every run, d=1..5, both drivers, epochs of 0.6 / 1.5 / 4.5 steps and T >= 10 nu (selection, dominance): homogeneity '
        's in 1e-12..1e12, superposition (a,b) tiny/tiny, huge/huge, huge/tiny, tiny/huge, mixed signs, phi=0 with theta0 1e-12..1e6, ordinary phi with theta0 1e-12..1e6, rescaling '
        'c in {1e-3, 1e3, 2^-10, 2^10, random} of the ordinary and of the 1e-9 input; whole models and phi_1D at theta0 x 1e-12..1e6 and c = 1e-3, 1e3; relative to the largest entry')

def start(ctx):
    rng = random.Random('C03-regimes-%d-%s' % (ctx.seed, ctx.tier))
    ctx.rule += RULE
    h = build(rng, ctx.tier)
    def work():
        try:
            execute(h)
        except BaseException as e:
            h['error'] = e
    h['thread'] = threading.Thread(target=work, daemon=True)
    h['thread'].start()
    return h

def account(ctx, h, tag=''):
    rs, rp, re_ = h['results']
    n = evaluate_settings(ctx, h['settings'], h['plans'], rs, tag=tag)
    n += evaluate_programs(ctx, h['progs'], rp, tag=tag)
    n += evaluate_phi(ctx, h['phis'], re_, tag=tag)
    return n

def finish(ctx, h):
    h['thread'].join()
    if 'error' in h:
        raise h['error']
    ctx.notes.append('amplitude / duration regimes: %d settings (d, driver, epoch), %d whole models, %d equilibrium densities, %d calls of the implementation' % (
        len(h['settings']), len(h['progs']), len(h['phis']), h['ncalls']))
    return account(ctx, h)

# ----------------------------------------------------------------------------------------------------------------------
# correspondence with the Coq model: a few tiny-amplitude multi-step cases (c03.run appends them to its driver batch)

def corr_cases(ctx):
    """driver cases (as c02.gen_driver_cases) for the correspondence with the model: per dimension one two-step epoch at amplitude
    1e-12 (d <= 3: the constant-parameter path; d >= 4: constant functions), and in one dimension a 'few'-step epoch started from
    no density with theta0 = 1e-8 and a longer epoch (about 24 steps) at amplitude 1e-9"""
    rng = random.Random('C03-regimes-corr-%d-%s' % (ctx.seed, ctx.tier))
    out = []
    for d in range(1, 6):
        mode = None if d <= 3 else 'const'
        st = gen_setting(rng, d, mode, 'two')
        c = case_of(st, combo_input(st, 1e-12, 'X1', 0.0, None)); c['_regime'] = 'two steps, amplitude 1e-12'
        out.append(c)
    st = gen_setting(rng, 1, 'const', 'few')
    c = case_of(st, combo_input(st, 1e-8, 'Z', 0.0, None)); c['_regime'] = 'few steps from no density, theta0 1e-8'
    out.append(c)
    for mode in ([None] if ctx.quick else [None, 'const']):
        st = gen_setting(rng, 1, mode, 'long')
        b = st['base']
        b['shape'] = [7]; b['grid'] = numgen.grid(rng, 7, kind='quad'); b['tf'] = 1 / 8
        b['T'], st['steps'] = plan_T(b['pops'], b['tf'], mode, 0.5, min_T=10.5 * b['pops'][0]['nu'])
        st['inputs']['X1'] = (numgen.density(rng, 7, kind='random'), 1.5, 0.0)
        c = case_of(st, combo_input(st, 1e-9, 'X1', 0.0, None)); c['_regime'] = 'long epoch (%d steps), amplitude 1e-9' % st['steps']
        out.append(c)
    return out

# ----------------------------------------------------------------------------------------------------------------------
# targeted search on the functions named by broken obligations

def targets_of(names):
    """obligation names -> (set of (d, mode) or None for everything, with_models, text)"""
    only = set(); everything = False; models = False; named = []
    for n in names:
        hit = False
        for m in re.finditer(r'_(one|two|three)_pops?_const_params', n):
            d = {'one': 1, 'two': 2, 'three': 3}[m.group(1)]; only.add((d, None)); named.append(m.group(0)); hit = True
        for m in re.finditer(r'_inject_mutations_(\d)D', n):
            d = int(m.group(1)); only.update((d, md) for md in MODES[d]); named.append(m.group(0)); hit = True
        for m in re.finditer(r'implicit_(?:precalc_)?(\d)D[xyzab]?|integration(\d)D\.c', n):
            d = int(m.group(1) or m.group(2)); only.update((d, md) for md in MODES[d]); named.append(m.group(0)); hit = True
        if re.search(r'_Vfunc/_Mfunc1D-3D|_Vfunc|_Mfunc\dD', n) and not hit:
            only.update((d, None) for d in (1, 2, 3)); named.append('_Vfunc/_Mfunc*D'); hit = True
        if re.search(r'phi_1D', n):
            models = True; named.append('phi_1D'); hit = True
        if not hit:
            everything = True; named.append(n[:60])
    if everything or not only:
        return None, True, named
    return only, models, named

def search(ctx, failed_names):
    """-> number of failing identities found (violations are registered)"""
    only, models, named = targets_of(failed_names)
    rng = random.Random('C03-regimes-search-%d' % ctx.seed)
    h = build(rng, 'thorough', only=only, reps=3 if only is None else 12, with_models=models)
    execute(h)
    ctx.notes.append('broken obligation(s) name %s: targeted search = the amplitude / duration regimes at thorough size on %s (%d settings, %d calls)' % (
        ', '.join(sorted(set(named)))[:300], 'every dimension and driver' if only is None else ', '.join('d=%d %s' % (d, MODE_NAME[m]) for d, m in sorted(only, key=lambda x: (x[0], str(x[1])))),
        len(h['settings']), h['ncalls']))
    return account(ctx, h, tag='search: '), h

# ----------------------------------------------------------------------------------------------------------------------

def replay(ctx, inp):
    """--replay of a recorded regime violation: exactly the recorded calls again, the recorded identity again"""
    rg = inp['regime']
    keys = list(rg['calls'])
    recs = run_calls([json.loads(json.dumps(rg['calls'][k])) for k in keys], jobs=1)
    res = dict(zip(keys, recs))
    ctx.notes.append('replay of a recorded amplitude / duration regime violation (%d calls)' % len(keys))
    if rg['kind'] == 'driver':
        chk = rg['check']
        dev, tol, err, _, _ = eval_check(chk, res)
        ok = dev <= tol
        ctx.case(signature=('regime replay', json.dumps(chk, sort_keys=True)))
        ctx.obligation('replay: %s' % check_text(chk), ok, 'predicate', 'rel dev %.3g (tolerance %g)%s' % (dev, tol, (' ' + err) if err else ''))
        if not ok:
            ctx.violation('replay: %d-population integration (%s, %s epoch), %s: rel dev %.3g (tolerance %g)' % (
                rg['setting']['d'], MODE_NAME[rg['setting']['mode']], EPOCH_NAME[rg['setting']['epoch']], check_text(chk), dev, tol), data=inp)
        return
    key = rg['key']
    r0, r1 = res['X'], res[key]
    val = float(key.split('=')[1])
    if rg['kind'] == 'program':
        if key.startswith('s='):
            dev, _ = c03_orders.linear_dev(r0, r0, r1, val, 0.0); tol = TOL_LINEAR
        else:
            dev, _ = c03_orders.rescale_dev(r0, r1); tol = 1e-7 if rg.get('quad') else 1e-9
    else:
        if 'error' in r0 or 'error' in r1:
            dev = float('inf'); tol = TOL_LINEAR
        elif key.startswith('t='):
            dev, _ = linear_dev(val / rg['calls']['X']['theta0'], r0['res'], 0.0, None, r1['res']); tol = TOL_LINEAR
        else:
            dev = reldev(r0['res'], r1['res']); tol = 1e-9 if rg.get('genic') else 1e-7
    ok = dev <= tol
    ctx.case(signature=('regime replay', rg['kind'], key))
    ctx.obligation('replay: %s, %s' % (rg.get('what'), key), ok, 'predicate', 'rel dev %.3g (tolerance %g)' % (dev, tol))
    if not ok:
        ctx.violation('replay: %s, %s: rel dev %.3g (tolerance %g)' % (rg.get('what'), key, dev, tol), data=inp)
