"""C07 -- argument types (stream 'types').

The property quantifies over all grid spacings; the model (Model/Extrap.v) runs over a field and a spacing the caller writes as
an integer enters as the number it denotes (`xval`, `extrap_entry_typed`; Props/C07.v: C07_typing_of_spacings_irrelevant,
C07_integer_spacings_exact, C07_integer_weights_refuted).  The main generator hands over floats only (seed C07f: the weights of
cubic / quartic / quintic_extrap were kept in numpy.empty_like(xs), an INTEGER array when every abscissa is integer-typed -- the
documented type of extrap_x_l is list[int]).  This stream, on EVERY run, for every k = 1..6, linear and log mode, array- and
Spectrum-valued results, hands the same numbers to the real code in every type the unchanged library accepts:

   extrap_x_l         list / tuple / ndarray (int64, int32, strided, object, masked) of python ints, lists of numpy int64 / int32 scalars,
                      int/float mixtures (python and numpy), 0-d arrays, float32 (own tolerance); float64 in other containers
   .extrap_x          of the results (no explicit list): python int, numpy int64 / int32 / float64 / float32, 0-d arrays, mixtures
   pts                list / tuple / ndarray of ints, numpy ints, floats; scalars for one grid size
   results            float64 / int64 / int32 / float32 arrays, strided, masked arrays, lists / tuples (log mode), scalars (one grid)
   fail_mag           int / float / numpy scalars;     extrap_log: bool / int / numpy.bool_;     make_extrap_log_func
   linear_extrap ... quintic_extrap called directly with every xs type x every ys type (arrays and scalars, int and float)

Lists that mix integers with genuinely fractional floats ([22, 7.5, 31, 9.25]: every integral number as an int, the others as
floats) have their own base cases (a coercion to the type of the first element, numpy.array(x_l, dtype=type(x_l[0])), shows there).

Integer spacings are drawn so that the case is SENSITIVE: with the Lagrange weights cut to integers (toward zero, floored or
rounded) the result would move by more than 1000 x the tolerance (certified with exact fractions when the case is generated;
[1,2,3,4] has integer weights and would not do).  Every variant wraps once and calls positionally and by keyword; it must
  - be accepted (a variant of the table below that raises is a violation),
  - agree with the canonical call (floats in lists, float64 arrays) on the same numbers,
  - return the value at zero spacing (polynomial data), and
  - agree with the Coq model evaluated over Q on the typed node list (XInt / XNum).
What the unchanged library accepts was established once on the unchanged tree (numpy 2.x) and is written down in the tables below;
types it rejects or treats differently (fixed-width integers that wrap around, half precision, scalar results for k >= 2:
item assignment on a numpy scalar) are executed and counted in the evidence only.
"""
import math
from fractions import Fraction
from harness import lib
from harness.lib import q, ql, b

EXACT = 1e-9                       # value at zero spacing, x conditioning scale (as in the main stream)
F64 = Fraction(1, 10 ** 11)        # variant vs canonical call, and vs the Coq model (the main stream's tolerance)
F32 = Fraction(1, 50000)           # a float32 operand: the library then forms the weights / the sum in float32
SENSITIVITY = 1000                 # a certified case moves by > SENSITIVITY x EXACT x scale under integer-cut weights

# ---- what the unchanged tree accepts ---------------------------------------------------------------------------------
# extrap_x_l / xs of the closed formulas.  is-int per element decides XInt / XNum in the Coq node list.
SEQ_F64 = ['tuple_float', 'nd_float64', 'list_np_float64', 'nd_view_float',
           'list_int', 'tuple_int', 'nd_int64', 'nd_int32', 'list_np_int64', 'list_np_int32', 'tuple_np_int64',
           'mixed_first_float', 'mixed_last_float', 'mixed_np', 'mixed_np32',
           'list_0d_int', 'list_0d_float', 'nd_object_int', 'nd_view_int', 'nd_ma_int']
SEQ_F32 = ['nd_float32', 'list_np_float32']
# executed, counted, not compared: numpy fixed-width arithmetic wraps around in the products of the closed formulas (int8/int16,
# unsigned differences) and float16 has 11 bits -- on the unchanged tree as well
SEQ_NOT_COMPARED = ['nd_int16', 'nd_int8', 'nd_uint8', 'nd_uint64', 'nd_float16']
ALL_INT = {'list_int', 'tuple_int', 'nd_int64', 'nd_int32', 'list_np_int64', 'list_np_int32', 'tuple_np_int64', 'list_0d_int',
           'nd_object_int', 'nd_view_int', 'nd_ma_int', 'nd_int16', 'nd_int8', 'nd_uint8', 'nd_uint64'}

SEQ_FRAC_F64 = ['tuple_float', 'nd_float64', 'list_np_float64', 'nd_view_float', 'list_0d_float',
                'mixed_intlike', 'tuple_mixed_intlike', 'mixed_intlike_np', 'mixed_intlike_np32', 'nd_object_mixed_intlike']
INTLIKE = {'mixed_intlike', 'tuple_mixed_intlike', 'mixed_intlike_np', 'mixed_intlike_np32', 'nd_object_mixed_intlike'}

def seq_is_int(kind, xs):
    n = len(xs)
    if kind in INTLIKE:
        return [float(x).is_integer() for x in xs]
    if kind in ALL_INT:
        return [True] * n
    if kind == 'mixed_first_float':
        return [False] + [True] * (n - 1)
    if kind == 'mixed_last_float':
        return [True] * (n - 1) + [False]
    if kind == 'mixed_np':
        return [i % 2 == 0 for i in range(n)]
    if kind == 'mixed_np32':
        return [i % 2 == 1 for i in range(n)]
    return [False] * n

ATTR_F64 = ['int', 'np_int64', 'np_int32', 'np_float64', '0d_int', '0d_float', 'mixed']
ATTR_F32 = ['np_float32']
ATTR_INT = {'int', 'np_int64', 'np_int32', '0d_int'}

PTS_KINDS = ['tuple_int', 'nd_int64', 'nd_int32', 'list_np_int64', 'list_np_int32', 'list_float', 'nd_float64']
PTS_SCALARS = ['scalar_int', 'scalar_np_int64', 'scalar_np_int32', 'scalar_float', 'scalar_np_float64']     # one grid size
PTS_AXIS = ['tuple_int', 'nd_int32', 'list_np_int64', 'list_float']          # crossed with integer spacings in every size

RES_FLOAT = ['nd_view_float64', 'ma_float64', 'ma_masked']     # same numbers, float64
RES_INT = ['int64', 'int32', 'ma_int64']                       # integer-valued data
RES_F32 = ['float32']
RES_SEQ = ['list', 'tuple']                                    # accepted in log mode (numpy.log makes an array) and for one grid size
RES_SCALAR_FLOAT = ['pyfloat', 'np_float64']                   # accepted for one grid size (k >= 2: item assignment on a numpy scalar)
RES_SCALAR_INT = ['pyint', 'np_int64']

FM_KINDS = ['int', 'float', 'np_float64', 'np_int64', 'np_float32']
FLAG_KINDS = ['int', 'np_bool']

# the closed formulas called directly: ys
YS_ARRAYS_F64 = ['tuple_f64_arrays', 'list_int64_arrays', 'list_int32_arrays', 'nd2_f64', 'nd2_int64', 'list_ma_int']
YS_ARRAYS_F32 = ['list_f32_arrays']
YS_SCALARS = ['list_pyint', 'tuple_pyint', 'list_np_int64', 'list_np_int32', 'list_np_float64', 'nd1_int64', 'nd1_f64']
FUNCS = {2: 'linear_extrap', 3: 'quadratic_extrap', 4: 'cubic_extrap', 5: 'quartic_extrap', 6: 'quintic_extrap'}

# ---- exact helpers ---------------------------------------------------------------------------------------------------
def weights(xs):
    fx = [Fraction(x) for x in xs]
    ws = []
    for i in range(len(fx)):
        w = Fraction(1)
        for j in range(len(fx)):
            if j != i:
                w *= fx[j] / (fx[j] - fx[i])
        ws.append(w)
    return ws

def peval(cs, x):
    v = Fraction(0)
    for c in reversed(cs):
        v = v * Fraction(x) + Fraction(c)
    return v

def cuts(w):
    t = Fraction(int(w))                                   # toward zero
    f = Fraction(math.floor(w))
    r = Fraction(round(w))
    return [t, f, r]

def sensitivity(xs, coefs, log):
    """smallest change of the result (relative to the conditioning scale of the tolerance) over: weights cut toward zero / floored /
    rounded.  The data are the exact polynomial values (their logarithms in log mode)."""
    ws = weights(xs)
    worst = None
    alts = [[cuts(w)[n] for w in ws] for n in range(3)]
    ixs = [int(x) for x in xs]
    if ixs != list(xs):                      # fractional spacings: the weights of the spacings cut to integers (where those stay distinct)
        if len(set(ixs)) == len(ixs) and 0 not in ixs:
            alts.append(weights(ixs))
    for cs in coefs:
        ps = [peval(cs, x) for x in xs]
        sc = sum(abs(w * p) for w, p in zip(ws, ps))
        true = sum(w * p for w, p in zip(ws, ps))
        for aw in alts:
            alt = sum(a * p for a, p in zip(aw, ps))
            if log:
                d = abs(math.expm1(max(-50.0, min(50.0, float(alt - true)))))         # relative change of exp(.)
                rel = d / (1 + float(sc))
            else:
                rel = float(abs(alt - true)) / (float(sc) + abs(float(true)))
            worst = rel if worst is None else min(worst, rel)
    return worst

def conditioning(xs, coefs, log):
    """sum |w_i y_i| / |value at zero spacing| (log mode: sum |w_i ln y_i|, the absolute conditioning of the exponent), worst entry"""
    ws = weights(xs)
    worst = 0.0
    for cs in coefs:
        ps = [peval(cs, x) for x in xs]
        sc = float(sum(abs(w * p) for w, p in zip(ws, ps)))
        worst = max(worst, sc * 10 if log else sc / abs(float(cs[0])))
    return worst

# ---- generator -------------------------------------------------------------------------------------------------------
def gen_coefs(rng, k, log, family, nent):
    coefs = []
    for e in range(nent):
        if family == 'int':
            cs = [float(rng.randint(1, 6))] + [float(rng.randint(0, 3)) for _ in range(k - 1)]
            if k > 1:
                cs[-1] = float(rng.randint(1, 3))
        else:
            cs = [lib.dyadic(rng, 1, 4, 4) + e] + [lib.dyadic(rng, -2, 2, 4) / 32.0 ** d for d in range(1, k)]
            if k > 1 and cs[-1] == 0:
                cs[-1] = 1.0 / 32.0 ** (k - 1)
            if log:
                cs = [c / 2 for c in cs]
        coefs.append(cs)
    return coefs

def frac_spacings(rng, k, first_int):
    """k distinct spacings, integers and quarter-integers mixed (at least one of each)"""
    xs = [float(x) for x in rng.sample(range(2, 41), k)]
    idx = list(range(1, k)) if first_int else list(range(k))
    rng.shuffle(idx)
    nfrac = rng.randint(1, max(1, len(idx) - (0 if first_int else 1)))
    for i in idx[:nfrac]:
        xs[i] += rng.choice([0.5, 0.25, 0.75])
    if not first_int and float(xs[0]).is_integer():
        xs[0] += 0.5
    if all(not x.is_integer() for x in xs):
        xs[-1] = float(int(xs[-1]))
    return xs

def gen_base(rng, bid, k, log, mode, x_from, family, frac=None):
    nent = 4 if mode == 'spectrum' else 3
    for attempt in range(500):
        xs = rng.sample(range(2, 41), k) if frac is None else frac_spacings(rng, k, frac == 'first_int')     # any order
        if len(set(xs)) != k or len(set(int(4 * x) for x in xs)) != k:
            continue
        coefs = gen_coefs(rng, k, log, family, nent)
        ok = True
        for cs in coefs:
            for x in xs:
                v = peval(cs, x)
                if (log and not (-2 <= v <= 5)) or (not log and v <= 0):
                    ok = False
        if not ok:
            continue
        if k >= 2 and sensitivity(xs, coefs, log) <= SENSITIVITY * EXACT:
            continue
        # float32 variants (weights or sum formed in float32: relative error ~1e-6 x conditioning) must stay far from the discontinuity
        # of the fallback test (extrapolated value 0 or of the other sign): bases that carry them are well conditioned
        if family != 'int' and conditioning(xs, coefs, log) > 1e4:
            continue
        c = {'id': bid, 'k': k, 'log': log, 'mode': mode, 'x_from': x_from, 'family': family, 'xs': xs, 'frac': frac,
             'pts': [int(4 * x) + 3 for x in xs], 'coefs': coefs}
        if mode == 'spectrum':
            c['shape'] = [4]; c['mask_corners'] = True; c['pop_ids'] = [rng.choice(['A', 'pop one', 'YRI'])]
        return c
    raise RuntimeError('no sensitive integer spacings found for k=%d' % k)

def variants_of(c, full):
    k, log, mode = c['k'], c['log'], c['mode']
    V = []
    def add(name, ref='canon', tol='F64', compare=True, **kw):
        d = {'name': name, 'ref': ref, 'tol': tol, 'compare': compare}
        d.update(kw)
        V.append(d)
    pts_kinds = PTS_KINDS + (PTS_SCALARS if k == 1 else [])
    if c.get('frac'):
        if c['x_from'] == 'attr':
            add('canon', ref=None, attr='float')
            for ak in ('intlike', 'intlike_np'):
                add('extrap_x of the results as %s (integral numbers as integers, the others as floats)' % ak, attr=ak)
                add('extrap_x of the results as %s, pts as nd_int32' % ak, attr=ak, pts='nd_int32')
            return V
        add('canon', ref=None, xl='list_float')
        for kind in SEQ_FRAC_F64:
            add('extrap_x_l as %s' % kind, xl=kind)
        add('extrap_x_l as nd_float32', xl='nd_float32', tol='F32')
        for kind in sorted(INTLIKE):
            for pk in PTS_AXIS:
                add('extrap_x_l as %s, pts as %s' % (kind, pk), xl=kind, pts=pk)
        add('extrap_x_l as mixed_intlike, fail_mag as np_int64, extrap_log as int', xl='mixed_intlike', fm='np_int64', logflag='int')
        if log:
            add('make_extrap_log_func, extrap_x_l as mixed_intlike', xl='mixed_intlike', via_log_func=True)
            add('make_extrap_log_func, extrap_x_l as mixed_intlike_np', xl='mixed_intlike_np', via_log_func=True)
        if mode == 'array':
            for rk in RES_FLOAT:
                add('extrap_x_l as mixed_intlike, results as %s' % rk, xl='mixed_intlike', res=rk)
            add('extrap_x_l as mixed_intlike, results as float32', xl='mixed_intlike', res='float32', tol='F32', ref=None)
        return V
    if c['x_from'] == 'attr':
        add('canon', ref=None, attr='float')
        for ak in ATTR_F64:
            add('extrap_x of the results as %s' % ak, attr=ak)
        for ak in ATTR_F32:
            add('extrap_x of the results as %s' % ak, attr=ak, tol='F32')
        for ak in ('int', 'np_int64') if full else ('int',):
            for pk in pts_kinds:
                add('extrap_x of the results as %s, pts as %s' % (ak, pk), attr=ak, pts=pk)
        if log:
            add('make_extrap_log_func, extrap_x of the results as int', attr='int', via_log_func=True)
            add('make_extrap_log_func, extrap_x of the results as np_int32', attr='np_int32', via_log_func=True)
        return V
    add('canon', ref=None, xl='list_float')
    for kind in SEQ_F64:
        add('extrap_x_l as %s' % kind, xl=kind)
    f32 = c['family'] != 'int'      # integer-valued data are ill-conditioned (values up to 3e8 extrapolate to ~3): in float32 the extrapolated
    #                                 value may legitimately come out as 0 or negative, where the fallback test is discontinuous
    for kind in SEQ_F32 if f32 else []:
        add('extrap_x_l as %s' % kind, xl=kind, tol='F32')
    for kind in SEQ_NOT_COMPARED:
        add('extrap_x_l as %s' % kind, xl=kind, compare=False)
    for xl in ('list_float', 'list_int'):
        for pk in pts_kinds:
            add('extrap_x_l as %s, pts as %s' % (xl, pk), xl=xl, pts=pk)
    for xl in (SEQ_F64 if full else ['nd_int64', 'list_np_int32', 'mixed_np']):
        for pk in PTS_AXIS:
            add('extrap_x_l as %s, pts as %s' % (xl, pk), xl=xl, pts=pk)
    for fm in FM_KINDS:
        add('extrap_x_l as list_int, fail_mag as %s' % fm, xl='list_int', fm=fm)
    for lf in FLAG_KINDS:
        add('extrap_x_l as tuple_int, extrap_log as %s' % lf, xl='tuple_int', logflag=lf)
    if log:
        for xl in ('list_int', 'nd_int64', 'list_np_int32', 'mixed_last_float'):
            add('make_extrap_log_func, extrap_x_l as %s' % xl, xl=xl, via_log_func=True)
    if mode == 'array':
        intdata = (c['family'] == 'int')
        rnd = 0
        if log:
            # integer-valued results in log mode: the model rounds 64 x value; the reference does the same with a float64 array
            rnd = 64
            add('canon_round', ref=None, xl='list_float', round=rnd, poly=False)
        ref_i = 'canon_round' if log else 'canon'
        xls = ['list_float', 'list_int', 'nd_int32', 'list_np_int64']
        for xl in xls:
            for rk in RES_FLOAT:
                add('extrap_x_l as %s, results as %s' % (xl, rk), xl=xl, res=rk)
            for rk in RES_F32 if f32 else []:
                add('extrap_x_l as %s, results as %s' % (xl, rk), xl=xl, res=rk, tol='F32', ref=None)
            if intdata or log:
                for rk in RES_INT:
                    add('extrap_x_l as %s, results as %s' % (xl, rk), xl=xl, res=rk, ref=ref_i, round=rnd, poly=not log)
            for rk in RES_SEQ:
                add('extrap_x_l as %s, results as %s' % (xl, rk), xl=xl, res=rk, compare=(log or k == 1))
            for rk in RES_SCALAR_FLOAT:
                add('extrap_x_l as %s, results as %s' % (xl, rk), xl=xl, res=rk, compare=(k == 1), ref='canon', scalar=True)
            if intdata or log:
                for rk in RES_SCALAR_INT:
                    add('extrap_x_l as %s, results as %s' % (xl, rk), xl=xl, res=rk, compare=(k == 1), ref=ref_i, round=rnd, poly=not log, scalar=True)
        # everything integer-typed at once
        if intdata:
            add('everything integer-typed: extrap_x_l nd_int64, pts nd_int32, results int64, fail_mag np_int64', xl='nd_int64', pts='nd_int32',
                res='int64', fm='np_int64')
            add('everything integer-typed: extrap_x_l list_int, pts list_np_int64, results int32, extrap_log int', xl='list_int', pts='list_np_int64',
                res='int32', logflag='int')
    return V

def gen_direct(rng, did, k, frac=None):
    for attempt in range(500):
        xs = rng.sample(range(2, 41), k) if frac is None else frac_spacings(rng, k, frac == 'first_int')
        if len(set(xs)) != k:
            continue
        coefs = gen_coefs(rng, k, False, 'int', 3)
        if sensitivity(xs, coefs, False) > SENSITIVITY * EXACT:
            break
    else:
        raise RuntimeError('no sensitive integer spacings found (direct, k=%d)' % k)
    rows = [[float(peval(cs, x)) for cs in coefs] for x in xs]       # integers, or multiples of 4^-5 below 2^53: exact
    V = []
    def add(name, ref, tol='F64', compare=True, **kw):
        d = {'name': name, 'ref': ref, 'tol': tol, 'compare': compare}
        d.update(kw); V.append(d)
    add('canon', None, ys='list_f64_arrays', xs='list_float')
    add('canon_scalar', None, ys='list_pyfloat', xs='list_float', scalar=True)
    if frac is not None:
        for xk in sorted(INTLIKE) + ['tuple_float', 'nd_float64']:
            for yk in ('list_f64_arrays', 'tuple_f64_arrays', 'nd2_f64'):
                add('ys as %s, xs as %s' % (yk, xk), 'canon', ys=yk, xs=xk)
            for yk in ('list_pyfloat', 'list_np_float64', 'nd1_f64'):
                add('ys as %s, xs as %s' % (yk, xk), 'canon_scalar', ys=yk, xs=xk, scalar=True)
        return {'id': did, 'k': k, 'fn': FUNCS[k], 'xs': xs, 'coefs': coefs, 'rows': rows, 'variants': V}
    xs_axis = ['list_float', 'list_int', 'nd_int64', 'list_np_int32', 'mixed_last_float']
    for yk in YS_ARRAYS_F64 + YS_ARRAYS_F32:
        for xk in xs_axis:
            add('ys as %s, xs as %s' % (yk, xk), 'canon', tol='F32' if yk in YS_ARRAYS_F32 else 'F64', ys=yk, xs=xk)
    for yk in YS_SCALARS:
        for xk in xs_axis:
            add('ys as %s, xs as %s' % (yk, xk), 'canon_scalar', ys=yk, xs=xk, scalar=True)
    for xk in SEQ_F64 + SEQ_F32 + SEQ_NOT_COMPARED:
        tol = 'F32' if xk in SEQ_F32 else 'F64'
        add('ys as list_f64_arrays, xs as %s' % xk, 'canon', tol=tol, compare=xk not in SEQ_NOT_COMPARED, ys='list_f64_arrays', xs=xk)
        add('ys as list_pyint, xs as %s' % xk, 'canon_scalar', tol=tol, compare=xk not in SEQ_NOT_COMPARED, ys='list_pyint', xs=xk, scalar=True)
    return {'id': did, 'k': k, 'fn': FUNCS[k], 'xs': xs, 'coefs': coefs, 'rows': rows, 'variants': V}

def generate(ctx, full):
    """systematic: every k, both modes, array / Spectrum (explicit list and .extrap_x), float and integer-valued data"""
    rng = ctx.rng
    typed, direct = [], []
    reps = 3 if full else 1
    for rep in range(reps):
        for k in range(1, 7):
            for log in (False, True):
                combos = [('array', 'explicit', 'dyadic'), ('spectrum', 'explicit', 'dyadic'), ('spectrum', 'attr', 'dyadic')]
                if not log:
                    combos.append(('array', 'explicit', 'int'))
                fcombos = []
                if k >= 2:          # integers mixed with fractional floats; which type comes first alternates (both in the full size)
                    firsts = ['first_int', 'first_float'] if full else [['first_int', 'first_float'][(k + int(log) + rep) % 2]]
                    fcombos = [('array', 'explicit', 'dyadic', f) for f in firsts] + [('spectrum', 'attr', 'dyadic', firsts[-1])]
                    if full:
                        fcombos.append(('spectrum', 'explicit', 'dyadic', firsts[0]))
                for mode, x_from, fam, fr in [cb + (None,) for cb in combos] + fcombos:
                    c = gen_base(rng, len(typed), k, log, mode, x_from, fam, fr)
                    c['variants'] = variants_of(c, full)
                    typed.append(c)
        for k in range(2, 7):
            direct.append(gen_direct(rng, len(direct), k))
            direct.append(gen_direct(rng, len(direct), k, ['first_int', 'first_float'][(k + rep) % 2]))
    return typed, direct

# ---- evaluation ------------------------------------------------------------------------------------------------------
def nodes_text(xs, is_int):
    return 'xnodes [%s]' % '; '.join(('XInt (%d)%%Z' % x) if i else ('XNum %s' % q(float(x))) for x, i in zip(xs, is_int))

class Stream:
    def __init__(self, ctx, violation, full, replay=None):
        self.ctx, self.violation, self.full = ctx, violation, full
        self.jobs = []
        self.batches = {}         # (kind, tol name, log, nodes text) -> {'items', 'index', 'meta'}
        self.vstate = {}          # (stream, case id, variant name) -> {'ok': bool, 'why': str}
        self.reported_keys = set()
        if replay is not None:
            self.typed = [replay['typed_case']] if 'typed_case' in replay else []
            self.direct = [replay['direct_case']] if 'direct_case' in replay else []
        else:
            self.typed, self.direct = generate(ctx, full)

    # -- replay data: the failing variant with the calls it is compared with
    def replay_typed(self, c, v, extra):
        names = {v['name'], v.get('ref'), 'canon'}
        cc = dict(c); cc['variants'] = [w for w in c['variants'] if w['name'] in names]
        d = {'typed_case': cc, 'failing_variant': v['name']}
        d.update(extra)
        return d

    def replay_direct(self, c, v, extra):
        names = {v['name'], v.get('ref'), 'canon'}
        cc = dict(c); cc['variants'] = [w for w in c['variants'] if w['name'] in names]
        d = {'direct_case': cc, 'failing_variant': v['name']}
        d.update(extra)
        return d

    def describe(self, c, v, passing=None):
        return '%s [k=%d, %s mode, %s-valued, spacings %r%s]' % (
            v['name'], c['k'], 'log' if c['log'] else 'linear', c['mode'], c['xs'],
            '' if passing is None else ', pts passed %s' % ('by keyword' if passing == 'kw' else 'positionally'))

    def report(self, kind, stream, c, what, data):
        """hand at most one violation per (kind, stream, number of grid sizes) to the collector: a broken type shows in many variants"""
        key = (kind, stream, c['k'])
        self.ctx.count('types: violations (%s)' % kind)
        if key in self.reported_keys:
            return
        self.reported_keys.add(key)
        self.violation(kind, what, data)

    def fail(self, stream, c, v, why):
        st = self.vstate.setdefault((stream, c['id'], v['name']), {'ok': True, 'why': ''})
        if st['ok']:
            st['ok'] = False; st['why'] = why

    def add_item(self, kind, tolname, log, ntext, ys, out, meta):
        bt = self.batches.setdefault((kind, tolname, log, ntext), {'items': [], 'index': {}, 'meta': []})
        ikey = (tuple(ys), out)
        n = bt['index'].get(ikey)
        if n is None:
            n = len(bt['items'])
            bt['index'][ikey] = n
            bt['items'].append('(%s, %s)' % (ql(ys), q(out)))
            bt['meta'].append([])
        bt['meta'][n].append(meta)

    def scale_of(self, c_log, ws, ys_e, out):
        if c_log:
            sc = sum(abs(w * Fraction(math.log(y))) for w, y in zip(ws, ys_e))
            return (1 + float(sc)) * abs(out)
        return float(sum(abs(w * Fraction(y)) for w, y in zip(ws, ys_e))) + abs(out)

    def run_impl(self):
        ctx = self.ctx
        res = lib.run_impl('c07_impl_types.py', {'typed': self.typed, 'direct': self.direct}, timeout=900)
        self.eval_typed({r['id']: r for r in res['typed']})
        self.eval_direct({r['id']: r for r in res['direct']})
        # Coq jobs: one per (kind, tolerance)
        groups = {}
        for (kind, tolname, log, ntext), bt in self.batches.items():
            groups.setdefault((kind, tolname), []).append(((kind, tolname, log, ntext), bt))
        self.group_index = {}
        for (kind, tolname), lst in sorted(groups.items()):
            exprs = []
            for n, (bkey, bt) in enumerate(lst):
                exprs.append((n, '{| xb_log := %s; xb_fm := 10; xb_xs := %s; xb_items := [%s] |}' % (b(bkey[2]), bkey[3], '; '.join(bt['items']))))
            tag = 'types_%s_%s' % (kind, tolname.lower())
            tol = F64 if tolname == 'F64' else F32
            fn = 'xcheck_batch' if kind == 'wrapped' else 'xcheck_direct_batch'
            self.group_index[tag] = lst
            self.jobs.append((tag, exprs, '(%s %s)' % (fn, q(tol)), 'tol %s x conditioning scale' % ('1e-11' if tolname == 'F64' else '2e-5 (float32 operand)')))
            ctx.count('types: correspondence batches (%s, %s)' % (kind, tolname), len(exprs))
            ctx.count('types: distinct correspondence evaluations (%s, %s)' % (kind, tolname), sum(len(bt['items']) for _, bt in lst))

    # -- make_extrap_func / make_extrap_log_func
    def eval_typed(self, byid):
        ctx = self.ctx
        for c in self.typed:
            r = {v['name']: v for v in byid[c['id']]['variants']}
            k = c['k']; xs = c['xs']
            ws = weights(xs)
            byname = {v['name']: v for v in c['variants']}
            ctx.count('types: base cases k=%d' % k)
            for v in c['variants']:
                o = r[v['name']]
                vkey = ('typed', c['id'], v['name'])
                self.vstate[vkey] = {'ok': True, 'why': ''}
                ctx.count('types: variants')
                for fld in ('xl', 'attr', 'pts', 'res', 'fm', 'logflag'):
                    if v.get(fld) is not None and v['name'] != 'canon':
                        ctx.count('types: %s as %s' % ({'xl': 'extrap_x_l', 'attr': 'extrap_x attribute', 'res': 'results', 'fm': 'fail_mag',
                                                         'logflag': 'extrap_log'}.get(fld, fld), v[fld]))
                calls = o.get('calls', [])
                err = o.get('error') or next((cl['error'] for cl in calls if 'error' in cl), None)
                if not v['compare']:
                    outcome = 'raises' if err else 'returns'
                    ctx.count('types: not compared (rejected or treated differently by the unchanged library): %s' % outcome)
                    del self.vstate[vkey]
                    continue
                if err:
                    self.fail('typed', c, v, err)
                    self.report('raise', 'typed', c, 'a type of argument the unchanged library accepts now raises %s: %s' % (err, self.describe(c, v)),
                                   self.replay_typed(c, v, {'impl': o}))
                    continue
                if o.get('fname') != 'model':
                    self.fail('typed', c, v, 'lost __name__')
                    self.report('glue', 'typed', c, 'extrapolated function lost __name__: %s' % self.describe(c, v), self.replay_typed(c, v, {'impl': o}))
                ref = r.get(v['ref']) if v.get('ref') else None
                if ref is not None and (ref.get('error') or any('error' in cl for cl in ref.get('calls', []))):
                    ref = None        # the reference itself is reported under its own name
                if v.get('attr') is not None:
                    if v['attr'] in ('intlike', 'intlike_np'):
                        is_int = [float(x).is_integer() for x in xs]
                    else:
                        is_int = [v['attr'] in ATTR_INT] * k if v['attr'] != 'mixed' else [False] + [True] * (k - 1)
                else:
                    is_int = seq_is_int(v['xl'], xs)
                ntext = nodes_text(xs, is_int)
                tol = float(F64 if v['tol'] == 'F64' else F32)
                poly = v.get('poly', True)
                ctx.case(signature=(k, tuple(xs), c['log'], c['mode'], c['x_from'], c['family'], v['name']) if k >= 2 else None,
                         sample={'k': k, 'xs': xs, 'log': c['log'], 'mode': c['mode'], 'variant': v['name'], 'impl': calls[0].get('res')})
                bad = False
                for ci, cl in enumerate(calls):
                    where = self.describe(c, v, cl['passing'])
                    if cl.get('evaluated') != list(c['pts']) or cl.get('ys') is None:
                        self.fail('typed', c, v, 'model evaluated at %r' % cl.get('evaluated'))
                        self.report('glue', 'typed', c, 'the model was evaluated at %r for pts=%r: %s' % (cl.get('evaluated'), c['pts'], where),
                                       self.replay_typed(c, v, {'impl': cl}))
                        bad = True; break
                    out, mask, ys = cl['res'], cl['mask'], cl['ys']
                    nent = len(ys)
                    if len(out) != nent:
                        self.fail('typed', c, v, 'result has %d entries' % len(out))
                        self.report('glue', 'typed', c, 'result has %d entries, the model returned %d: %s' % (len(out), nent, where), self.replay_typed(c, v, {'impl': cl}))
                        bad = True; break
                    want_mask = [False] * nent
                    if c['mode'] == 'spectrum':
                        want_mask = [True, False, False, True]
                        if cl.get('pop_ids') != c['pop_ids'] or not cl.get('is_spectrum') or cl.get('shape') != c['shape']:
                            self.fail('typed', c, v, 'labels/type/shape')
                            self.report('glue', 'typed', c, 'Spectrum-valued extrapolation lost labels/type/shape (%r %r %r): %s'
                                           % (cl.get('pop_ids'), cl.get('type'), cl.get('shape'), where), self.replay_typed(c, v, {'impl': cl}))
                            bad = True
                    elif v.get('res') == 'ma_masked':
                        want_mask = [True] + [False] * (nent - 1)
                    if mask != want_mask:
                        self.fail('typed', c, v, 'mask %r' % mask)
                        self.report('glue', 'typed', c, 'mask of the result is %r, expected %r: %s' % (mask, want_mask, where), self.replay_typed(c, v, {'impl': cl}))
                        bad = True; break
                    rcl = ref['calls'][ci] if ref is not None else None
                    for e in range(nent):
                        if mask[e]:
                            continue
                        if not (out[e] == out[e]) or abs(out[e]) == float('inf') or (c['log'] and min(ys[e]) <= 0):
                            self.fail('typed', c, v, 'non-finite result')
                            self.report('exact', 'typed', c, 'non-finite result %r (entry %d): %s' % (out[e], e, where), self.replay_typed(c, v, {'entry': e, 'impl': cl}))
                            bad = True; break
                        scale = self.scale_of(c['log'], ws, ys[e], out[e])
                        # (a) the value at zero spacing
                        if poly:
                            cs = c['coefs'][e]
                            want = math.exp(cs[0]) if c['log'] else cs[0]
                            best = ys[e][min(range(k), key=lambda i: xs[i])]
                            fb = k > 1 and want != 0 and best != 0 and want / best > 0 and abs(math.log10(want / best)) > 10 * (1 - 1e-6)
                            if fb:
                                ctx.count('types: fallback applies')
                            else:
                                ctx.count('types: predicate evaluations')
                                etol = EXACT if v['tol'] == 'F64' else tol
                                if not abs(out[e] - want) <= etol * (scale + abs(want)):
                                    self.fail('typed', c, v, 'value at zero spacing')
                                    self.report('exact', 'typed', c, 'extrapolation of a degree<k polynomial is not the value at zero spacing for this type of argument: '
                                                   'got %r want %r (entry %d; the same numbers as floats give %r): %s'
                                                   % (out[e], want, e, rcl['res'][e] if rcl else None, where),
                                                   self.replay_typed(c, v, {'entry': e, 'impl': out[e], 'want': want}))
                                    bad = True; break
                        # (b) the canonical call on the same numbers
                        if rcl is not None:
                            if rcl['ys'] is None or rcl['ys'][e] != ys[e]:
                                self.fail('typed', c, v, 'model values differ from the reference')
                                self.report('glue', 'typed', c, 'the model produced other values than for the reference call (harness): %s' % where,
                                               self.replay_typed(c, v, {'impl': cl, 'ref': rcl}))
                                bad = True; break
                            ctx.count('types: comparisons with the canonical call')
                            if not abs(out[e] - rcl['res'][e]) <= tol * scale:
                                self.fail('typed', c, v, 'differs from the canonical call')
                                self.report('exact', 'typed', c, 'the result depends on how the arguments are typed: got %r, the same numbers handed over as floats '
                                               '(%s) give %r (entry %d): %s' % (out[e], v['ref'], rcl['res'][e], e, where),
                                               self.replay_typed(c, v, {'entry': e, 'impl': cl, 'ref': rcl}))
                                bad = True; break
                        # (c) the Coq model on the typed node list
                        self.add_item('wrapped', v['tol'], c['log'], ntext, ys[e], out[e], ('typed', c, v, ci, e))
                    if bad:
                        break

    # -- linear_extrap ... quintic_extrap
    def eval_direct(self, byid):
        ctx = self.ctx
        for c in self.direct:
            r = {v['name']: v for v in byid[c['id']]['variants']}
            k = c['k']; xs = c['xs']
            ws = weights(xs)
            for v in c['variants']:
                o = r[v['name']]
                vkey = ('direct', c['id'], v['name'])
                ctx.count('types: direct calls of the closed formulas')
                where = '%s(ys, xs) with %s [spacings %r]' % (c['fn'], v['name'], xs)
                if not v['compare']:
                    ctx.count('types: not compared (rejected or treated differently by the unchanged library): %s' % ('raises' if 'error' in o else 'returns'))
                    continue
                self.vstate[vkey] = {'ok': True, 'why': ''}
                if 'error' in o:
                    self.fail('direct', c, v, o['error'])
                    self.report('raise', 'direct', c, 'a type of argument the unchanged library accepts now raises %s: %s' % (o['error'], where),
                                   self.replay_direct(c, v, {'impl': o}))
                    continue
                nent = 1 if v.get('scalar') else len(c['coefs'])
                out = o['res']
                if len(out) != nent:
                    self.fail('direct', c, v, 'shape')
                    self.report('glue', 'direct', c, 'result has %d entries, expected %d: %s' % (len(out), nent, where), self.replay_direct(c, v, {'impl': o}))
                    continue
                ref = r.get(v['ref']) if v.get('ref') else None
                if ref is not None and 'error' in ref:
                    ref = None
                tol = float(F64 if v['tol'] == 'F64' else F32)
                ntext = nodes_text(xs, seq_is_int(v['xs'], xs))
                ctx.case(signature=('direct', k, tuple(xs), v['name']))
                for e in range(nent):
                    ys_e = [c['rows'][i][e] for i in range(k)]
                    if not (out[e] == out[e]) or abs(out[e]) == float('inf'):
                        self.fail('direct', c, v, 'non-finite')
                        self.report('exact', 'direct', c, 'non-finite result %r: %s' % (out[e], where), self.replay_direct(c, v, {'entry': e, 'impl': o}))
                        break
                    scale = self.scale_of(False, ws, ys_e, out[e])
                    want = c['coefs'][e][0]
                    ctx.count('types: predicate evaluations')
                    if not abs(out[e] - want) <= (EXACT if v['tol'] == 'F64' else tol) * (scale + abs(want)):
                        self.fail('direct', c, v, 'value at zero spacing')
                        self.report('exact', 'direct', c, 'extrapolation of a degree<k polynomial is not the value at zero spacing for this type of argument: got %r '
                                       'want %r (entry %d; the same numbers as floats give %r): %s' % (out[e], want, e, ref['res'][e] if ref else None, where),
                                       self.replay_direct(c, v, {'entry': e, 'impl': out[e], 'want': want}))
                        break
                    if ref is not None:
                        ctx.count('types: comparisons with the canonical call')
                        if not abs(out[e] - ref['res'][e]) <= tol * scale:
                            self.fail('direct', c, v, 'differs from the canonical call')
                            self.report('exact', 'direct', c, 'the result depends on how the arguments are typed: got %r, floats give %r (entry %d): %s'
                                           % (out[e], ref['res'][e], e, where), self.replay_direct(c, v, {'entry': e, 'impl': o, 'ref': ref}))
                            break
                    self.add_item('direct', v['tol'], False, ntext, ys_e, out[e], ('direct', c, v, 0, e))

    # -- after the Coq jobs
    def finish(self, results_by_tag):
        ctx = self.ctx
        reported = set()
        for tag, lst in self.group_index.items():
            results = results_by_tag.get(tag, {})
            toltext = 'tol 1e-11 x conditioning scale' if tag.endswith('f64') else 'tol 2e-5 x conditioning scale (float32 operand)'
            for n, (bkey, bt) in enumerate(lst):
                rr = results.get(n)
                if rr is not None and rr[0]:
                    ctx.err('types corr ' + ('f64' if tag.endswith('f64') else 'f32'), rr[1], toltext)
                for i, metas in enumerate(bt['meta']):
                    if rr is None:
                        ok, detail = False, 'batch was not evaluated'
                    elif rr[0] or i < rr[1]:
                        ok, detail = True, ''
                    elif i == rr[1]:
                        ok, detail = False, 'model != impl'
                    else:
                        ok, detail = False, 'not evaluated: an earlier item of the same batch (same node list) disagrees'
                    if ok:
                        continue
                    for (stream, c, v, ci, e) in metas:
                        first = self.vstate.get((stream, c['id'], v['name']), {'ok': True})['ok']
                        self.fail(stream, c, v, 'Coq model: ' + detail)
                        if detail == 'model != impl' and first and (stream, c['id'], v['name']) not in reported:
                            reported.add((stream, c['id'], v['name']))
                            rp = self.replay_typed if stream == 'typed' else self.replay_direct
                            self.report('corr', stream, c, 'disagrees with the Lagrange model on the typed node list %s (entry %d): %s'
                                           % (bkey[3], e, self.describe(c, v) if stream == 'typed' else '%s with %s' % (c['fn'], v['name'])),
                                           rp(c, v, {'entry': e, 'call': ci, 'nodes_of_the_model': bkey[3]}))
        for (stream, cid, name), st in self.vstate.items():
            ctx.obligation('types %s case %d: %s' % (stream, cid, name), st['ok'], 'correspondence', st['why'])
