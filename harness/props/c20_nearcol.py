"""C20 — the NEAR-COLLISION stream: for every memoised family and EVERY argument of every public entry point that feeds it,
pairs of calls (A, B) that differ in exactly that one argument.  The harness runs A then B (and B then A) in one process and
compares the second call bitwise with its value in a pristine interpreter: the concrete test of key completeness
(Props/C20.v: C20_near_collision_pair_decides, C20_key_incomplete_iff_some_pair_fails).

An ENTRY is {'entry': dotted name, 'families': [...], 'src': [(file relative to dadi/, qualified name)...], 'base': spec,
             'vars': {argument label: [variant spec, ...]}, 'skip': {parameter: reason}}
The argument labels are checked against the signature read from the source (fail-closed): every parameter must occur as a
label (`p`, `p[i]`, `p.xxx`) or in 'skip' with a reason.  Labels not in the signature ('self', 'call.params' - the arguments of
a generated closure) are allowed.

`nval` alternative values per argument, `nbase` base calls per entry: small in the quick tier, thorough-size for a family whose
source obligation broke.
"""
import copy

FAMILY_OF_CACHE = {'_projection_cache': 'projection', '_multinomln_cache': 'multinomln', '_BetaBinomln_cache': 'BetaBinomln',
                   '_part_cache': 'partition', '_part_precalc_cache': 'partition', '_dbeta_cache': 'dbeta'}
# which families to search when the memo-state table of a source file no longer matches
FAMILIES_OF_FILE = {
    'Numerics.py': ['projection', 'multinomln', 'BetaBinomln', 'partition', 'model'],
    'Spectrum_mod.py': ['dbeta', 'projection', 'BetaBinomln', 'partition', 'demes'],
    'Godambe.py': ['godambe'],
    'LowPass/LowPass.py': ['lowpass', 'lowpass-helpers'],
    'Inference.py': ['inference', 'godambe'],
    'Misc.py': ['inference'],
    'Integration.py': ['model', 'demes'],
    'PhiManip.py': ['model', 'demes'],
    'Demes/__init__.py': ['demes'], 'Demes/Demes.py': ['demes'], 'Demes/Inference.py': ['demes', 'inference'],
    'Demographics1D.py': ['model'], 'Demographics2D.py': ['model'], 'Demographics3D.py': ['model'],
}
ALL_FAMILIES = ['projection', 'multinomln', 'BetaBinomln', 'partition', 'dbeta', 'lowpass', 'lowpass-helpers', 'godambe', 'demes', 'inference', 'model']


def V(base, **kw):
    s = copy.deepcopy(base)
    s.update(copy.deepcopy(kw))
    return s


def setidx(lst, i, val):
    l = copy.deepcopy(list(lst)); l[i] = val
    return l


def alts(cur, pool, n):
    out = []
    for x in pool:
        if x != cur and x not in out:
            out.append(x)
    return out[:n]


def perm_cov(cov, k):
    """same support (same length), different probabilities (dyadic, sum 1)"""
    c = list(cov)
    if k % 2 == 0:
        c = c[::-1]
    else:
        c = c[1:] + c[:1]
    if c == list(cov):
        c = [c[0] / 2.0] + c[1:-1] + [c[-1] + c[0] / 2.0]
    return c


def entries(cat, rng, nval_of, nbase_of, gen_fs, gen_phi):
    """nval_of(family list) / nbase_of(family list) -> int.  Returns the list of ENTRY dicts."""
    E = []

    def add(entry, families, src, base, vars_, skip=None):
        E.append({'entry': entry, 'families': families, 'src': src, 'base': base, 'vars': {k: v for k, v in vars_.items() if v}, 'skip': skip or {},
                  'declared': sorted(vars_)})

    # ---------------------------------------------------------------- projection cache
    fam = ['projection']
    for _ in range(nbase_of(fam)):
        n = nval_of(fam)
        to, frm = rng.choice([2, 3, 4]), rng.choice([6, 8])
        hits = rng.randint(1, frm - 1)
        base = {'op': 'num', 'f': '_cached_projection', 'a': [to, frm, hits]}
        add('Numerics._cached_projection', fam, [('Numerics.py', '_cached_projection')], base, {
            'proj_to': [V(base, a=[x, frm, hits]) for x in alts(to, [3, 2, 4, 5, 1], n)],
            'proj_from': [V(base, a=[to, x, hits]) for x in alts(frm, [8, 6, 7, 10, 12], n)],
            'hits': [V(base, a=[to, frm, x]) for x in alts(hits, [hits + 1, hits - 1, 0, frm, 2, 3], n)]})
        # Spectrum.project, 1-D and 2-D
        nf = rng.choice([6, 8]); m = rng.choice([3, 4])
        fs = gen_fs(rng, [nf + 1])
        base = {'op': 'sp', 'm': 'project', 'fs': fs, 'a': [[m]]}
        fsv = copy.deepcopy(fs); fsv['vals'] = list(reversed(fs['vals']))
        fsv2 = copy.deepcopy(fs); fsv2['vals'] = [v + 1.0 for v in fs['vals']]
        add('Spectrum.project (1 population)', fam, [('Spectrum_mod.py', 'Spectrum.project')], base, {
            'ns': [V(base, a=[[x]]) for x in alts(m, [2, 3, 4, 5], n)],
            'self': [V(base, fs=x) for x in [fsv, fsv2][:n]],
            'self.shape': [V(base, fs=gen_fs(rng, [x + 1])) for x in alts(nf, [7, 10, 9, 12], n)],
            'self.folded': [V(base, fs=dict(copy.deepcopy(fs), fold=True))],
            'self.mask': [V(base, fs=dict(copy.deepcopy(fs), mask=[2]))]})
        sh = rng.choice([(5, 4), (6, 5)])
        fs = gen_fs(rng, sh)
        base = {'op': 'sp', 'm': 'project', 'fs': fs, 'a': [[3, 2]]}
        fsv = copy.deepcopy(fs); fsv['vals'] = list(reversed(fs['vals']))
        add('Spectrum.project (2 populations)', fam, [('Spectrum_mod.py', 'Spectrum.project')], base, {
            'ns[0]': [V(base, a=[[x, 2]]) for x in alts(3, [2, 4, 1], n)],
            'ns[1]': [V(base, a=[[3, x]]) for x in alts(2, [3, 1], n)],
            'self': [V(base, fs=fsv)],
            'self.shape': [V(base, fs=gen_fs(rng, x)) for x in alts(sh, [(6, 4), (5, 5), (7, 4)], n)]})
        # from_data_dict -> _from_count_dict -> _cached_projection
        dd = cat.g_dd(); dd['pop_ids'] = ['YRI', 'CEU']; dd['proj'] = [3, 3]; dd['polarized'] = True
        snps_a = copy.deepcopy(dd['snps']); snps_a[0][2]['YRI'] = [snps_a[0][2]['YRI'][0] + 1, snps_a[0][2]['YRI'][1]]
        snps_b = copy.deepcopy(dd['snps'])[:-1]
        snps_c = copy.deepcopy(dd['snps']); snps_c[1][2]['CEU'] = [snps_c[1][2]['CEU'][1], snps_c[1][2]['CEU'][0] + 1]
        add('Spectrum.from_data_dict', fam, [('Spectrum_mod.py', 'Spectrum.from_data_dict')], dd, {
            'data_dict': [V(dd, snps=x) for x in [snps_a, snps_b, snps_c][:max(2, n)]],
            'pop_ids': [V(dd, pop_ids=['CEU', 'YRI'])],
            'projections[0]': [V(dd, proj=[x, 3]) for x in alts(3, [2, 4], n)],
            'projections[1]': [V(dd, proj=[3, x]) for x in alts(3, [2, 4], n)],
            'mask_corners': [V(dd, mask_corners=False)],
            'polarized': [V(dd, polarized=False)]})

    # ---------------------------------------------------------------- multinomln
    fam = ['multinomln']
    for _ in range(nbase_of(fam)):
        n = nval_of(fam)
        N = [rng.randint(0, 4) for _ in range(3)]
        base = {'op': 'num', 'f': 'multinomln', 'a': [N]}
        vs = {'N[%d]' % i: [V(base, a=[setidx(N, i, x)]) for x in alts(N[i], [N[i] + 1, N[i] + 2, 0, 5], n)] for i in range(3)}
        vs['N.length'] = [V(base, a=[N + [1]]), V(base, a=[N[:2]])][:max(1, n)]
        add('Numerics.multinomln', fam, [('Numerics.py', 'multinomln')], base, vs)

    # ---------------------------------------------------------------- BetaBinomln / partitions
    fam = ['BetaBinomln']
    for _ in range(nbase_of(fam)):
        n = nval_of(fam)
        i, nn = rng.randint(0, 2), 2
        a, b_ = rng.choice([0.5, 1.5]), rng.choice([0.5, 2.5])
        base = {'op': 'num', 'f': 'BetaBinomln', 'a': [i, nn, a, b_]}
        add('Numerics.BetaBinomln', fam, [('Numerics.py', 'BetaBinomln')], base, {
            'i': [V(base, a=[x, nn, a, b_]) for x in alts(i, [0, 1, 2], n)],
            'n': [V(base, a=[i, x, a, b_]) for x in alts(nn, [3, 4, 6], n)],
            'a': [V(base, a=[i, nn, x, b_]) for x in alts(a, [1.5, 0.5, 2.5, 0.25], n)],
            'b': [V(base, a=[i, nn, a, x]) for x in alts(b_, [2.5, 0.5, 1.5, 0.25], n)]})
    fam = ['BetaBinomln', 'partition', 'multinomln']
    for _ in range(nbase_of(fam)):
        n = nval_of(fam)
        nn = rng.choice([2, 3]); i = rng.randint(0, 2 * nn)
        a, b_ = rng.choice([0.5, 1.5]), rng.choice([0.5, 2.5])
        base = {'op': 'num', 'f': 'bbconv', 'a': [i, nn, a, b_, 2]}
        add('Numerics.BetaBinomConvolution', fam, [('Numerics.py', 'BetaBinomConvolution')], base, {
            'i': [V(base, a=[x, nn, a, b_, 2]) for x in alts(i, [i + 1 if i < 2 * nn else i - 1, 0, 2 * nn, 1], n)],
            'n': [V(base, a=[i, x, a, b_, 2]) for x in alts(nn, [3, 4, 2], n)],
            'alpha': [V(base, a=[i, nn, x, b_, 2]) for x in alts(a, [1.5, 0.5, 2.5], n)],
            'beta': [V(base, a=[i, nn, a, x, 2]) for x in alts(b_, [2.5, 0.5, 1.5], n)],
            'ploidy': [V(base, a=[i, nn, a, b_, x]) for x in alts(2, [4, 3], n)]})
    fam = ['partition']
    for _ in range(nbase_of(fam)):
        n = nval_of(fam)
        for f in ('cached_part', 'cached_part_precalc'):
            nn = rng.choice([2, 3]); x0 = rng.randint(1, 2 * nn - 1)
            base = {'op': 'num', 'f': f, 'a': [x0, nn, 0, 2]}
            add('Numerics.' + f, fam + (['multinomln'] if f.endswith('precalc') else []), [('Numerics.py', f)], base, {
                'x': [V(base, a=[x, nn, 0, 2]) for x in alts(x0, [x0 + 1, x0 - 1, 0, 2 * nn], n)],
                'n': [V(base, a=[x0, x, 0, 2]) for x in alts(nn, [3, 2, 4], n)],
                'minval': [V(base, a=[x0, nn, x, 2]) for x in alts(0, [1, -1], n)],
                'maxval': [V(base, a=[x0, nn, 0, x]) for x in alts(2, [3, 1, 4], n)]})

    # ---------------------------------------------------------------- _dbeta_cache
    fam = ['dbeta']
    for _ in range(nbase_of(fam)):
        n = nval_of(fam)
        nx, P = rng.choice([3, 4]), rng.choice([6, 8])
        base = {'op': 'num', 'f': 'cached_dbeta', 'a': [nx, {'pts': P, 'kind': None}]}
        add('Spectrum_mod.cached_dbeta', fam, [('Spectrum_mod.py', 'cached_dbeta')], base, {
            'nx': [V(base, a=[x, {'pts': P, 'kind': None}]) for x in alts(nx, [2, 3, 4, 5], n)],
            'xx': [V(base, a=[nx, {'pts': P, 'kind': k}]) for k in ['lin', 'bump1', 'sq', 'bump3'][:max(2, n)]],
            'xx.length': [V(base, a=[nx, {'pts': x, 'kind': None}]) for x in alts(P, [P + 1, P + 2, 5], n)]})
    # Spectrum.from_phi d = 1..5 (2..5 go through cached_dbeta)
    for d in (1, 2, 3, 4, 5):
        fam = ['dbeta']
        for _ in range(nbase_of(fam)):
            n = nval_of(fam)
            pts = min(p for (dd_, p) in cat.phis if dd_ == d)
            rec = cat.phis[(d, pts)]
            ns = [rng.choice([2, 3]) for _ in range(d)]
            base = {'op': 'from_phi', 'd': d, 'pts': pts, 'phi': copy.deepcopy(rec[0]), 'ns': ns}
            vs = {'phi': [V(base, phi=rec[1])] + ([V(base, phi=gen_phi(rng, d, pts))] if n > 2 else [])}
            for i in range(d):
                vs['ns[%d]' % i] = [V(base, ns=setidx(ns, i, x)) for x in alts(ns[i], [3, 2, 4] if d <= 3 else [3, 2], n)]
                vs['xxs[%d]' % i] = [V(base, grids=setidx([None] * d, i, k)) for k in ['lin', 'bump1', 'sq'][:n]]
            vs['mask_corners'] = [V(base, mask_corners=False)]
            vs['pop_ids'] = [V(base, pop_ids=['q%d' % i for i in range(d)])]
            skip = {}
            if 2 <= d <= 4:
                ap = [[1.0 if i == j else 0.0 for j in range(d)] for i in range(d)]
                ap[0] = [0.25, 0.75] + [0.0] * (d - 2)
                vs['admix_props'] = [V(base, admix=ap)]
            else:
                skip['admix_props'] = 'only implemented for 2-4 populations'
            if d <= 4:
                vs['het_ascertained'] = [V(base, het='xx')]
                vs['force_direct'] = [V(base, force=True)]
            else:
                skip['het_ascertained'] = skip['force_direct'] = 'no direct method for 5 populations'
            add('Spectrum.from_phi (%d population%s)' % (d, '' if d == 1 else 's'), fam + ['projection'], [('Spectrum_mod.py', 'Spectrum.from_phi')], base, vs, skip)
    # from_phi_inbreeding (BetaBinomConvolution: _BetaBinomln_cache, partition caches)
    for d in (1, 2):
        fam = ['BetaBinomln', 'partition']
        for _ in range(nbase_of(fam)):
            n = nval_of(fam)
            pts = min(p for (dd_, p) in cat.phis if dd_ == d)
            rec = cat.phis[(d, pts)]
            ns = [4] * d
            Fs = [rng.choice([0.125, 0.5]) for _ in range(d)]
            base = {'op': 'from_phi', 'd': d, 'pts': pts, 'phi': copy.deepcopy(rec[0]), 'ns': ns, 'inb': True, 'Fs': Fs, 'ploidys': [2] * d}
            vs = {'phi': [V(base, phi=rec[1])]}
            for i in range(d):
                vs['ns[%d]' % i] = [V(base, ns=setidx(ns, i, x)) for x in alts(4, [2, 6], n)]
                vs['xxs[%d]' % i] = [V(base, grids=setidx([None] * d, i, k)) for k in ['lin', 'bump1'][:n]]
                vs['Fs[%d]' % i] = [V(base, Fs=setidx(Fs, i, x)) for x in alts(Fs[i], [0.25, 0.5, 0.125], n)]
                vs['ploidys[%d]' % i] = [V(base, ploidys=setidx([2] * d, i, 4))]
            vs['mask_corners'] = [V(base, mask_corners=False)]
            vs['pop_ids'] = [V(base, pop_ids=['q%d' % i for i in range(d)])]
            vs['het_ascertained'] = [V(base, het='xx')]
            vs['force_direct'] = [V(base, force=False)]
            ap = [[1.0 if i == j else 0.0 for j in range(d)] for i in range(d)]
            vs['admix_props'] = [V(base, admix=ap)]
            add('Spectrum.from_phi_inbreeding (%d population%s)' % (d, '' if d == 1 else 's'), fam, [('Spectrum_mod.py', 'Spectrum.from_phi_inbreeding')], base, vs)

    # ---------------------------------------------------------------- low-pass helpers (partition, multinomln, projection caches)
    fam = ['lowpass-helpers', 'partition', 'multinomln', 'projection', 'BetaBinomln']
    for _ in range(nbase_of(fam)):
        n = nval_of(fam)
        F = rng.choice([0, 0.25])
        base = {'op': 'lp', 'f': 'projmat', 'nseq': 6, 'nsub': 4, 'F': F}
        add('LowPass.projection_matrix', fam, [('LowPass/LowPass.py', 'projection_matrix')], base, {
            'n_sequenced': [V(base, nseq=x) for x in alts(6, [8, 10], n)],
            'n_subsampling': [V(base, nsub=x) for x in alts(4, [2, 6], n)],
            'F': [V(base, F=x) for x in alts(F, [0.25, 0, 0.5], n)]})
        nn = rng.choice([4, 6]); af = rng.randint(1, nn - 1)
        base = {'op': 'lp', 'f': 'partprob', 'n': nn, 'type': 'allele_frequency', 'Fx': F, 'af': af}
        add('LowPass.partitions_and_probabilities', fam, [('LowPass/LowPass.py', 'partitions_and_probabilities')], base, {
            'n_sequenced': [V(base, n=x) for x in alts(nn, [6, 4, 8], n)],
            'partition_type': [V(base, type='genotype')],
            'Fx': [V(base, Fx=x) for x in alts(F, [0.25, 0, 0.5], n)],
            'allele_frequency': [V(base, af=x) for x in alts(af, [af + 1, af - 1, 0, nn], n)]})
        cov = rng.choice(cat.covs)
        for f, key2, a2, lab2 in (('nocall', 'n', [4, 6, 8], 'n_sequenced'), ('cem', 'nsub', [2, 4, 6], 'n_subsampling')):
            v0 = rng.choice(a2[:2])
            base = {'op': 'lp', 'f': f, 'cov': cov, key2: v0, 'Fx': F}
            add('LowPass.' + {'nocall': 'probability_of_no_call_1D_GATK_multisample', 'cem': 'calling_error_matrix'}[f], fam,
                [('LowPass/LowPass.py', {'nocall': 'probability_of_no_call_1D_GATK_multisample', 'cem': 'calling_error_matrix'}[f])], base, {
                    'coverage_distribution': [V(base, cov=perm_cov(cov, k)) for k in range(max(2, n))][:max(2, n)],
                    lab2: [V(base, **{key2: x}) for x in alts(v0, a2, n)],
                    'Fx': [V(base, Fx=x) for x in alts(F, [0.25, 0, 0.5], n)]})
        base = {'op': 'lp', 'f': 'enough', 'cov': cov, 'nseq': 6, 'nsub': 4}
        add('LowPass.probability_enough_individuals_covered', fam, [('LowPass/LowPass.py', 'probability_enough_individuals_covered')], base, {
            'coverage_distribution': [V(base, cov=perm_cov(cov, k)) for k in range(max(2, n))],
            'n_sequenced': [V(base, nseq=x) for x in alts(6, [8, 10], n)],
            'n_subsampling': [V(base, nsub=x) for x in alts(4, [2, 6], n)]})

    # ---------------------------------------------------------------- the low-pass wrapper and its precalc cache
    fam = ['lowpass']
    for bi in range(nbase_of(fam)):
        n = nval_of(fam)
        covs = [rng.choice(cat.covs) for _ in range(2)]
        for npop, kind, kind2, p in ((1, 'two_epoch', 'growth', [rng.choice([0.5, 2.0]), 0.5]),
                                     (2, 'split_mig', 'split_mig_sw', [rng.choice([0.5, 2.0]), 1.5, 0.25, 1.0])):
            for thr, nsim in ((1, 1000), (0.0625, 12)):           # fully analytic / simulated entries (numpy generator seeded by the driver)
                if npop == 2 and thr != 1 and bi > 0:
                    continue
                pops = [{'cov': covs[i], 'nseq': [6, 4][i], 'nsub': [4, 2][i], 'F': [0, 0.25][i]} for i in range(npop)]
                base = {'op': 'lp', 'f': 'func', 'kind': kind, 'p': p, 'pts': 8, 'pops': pops, 'sim_threshold': thr, 'nsim': nsim, 'seed': 7}
                vs = {}
                for i in range(npop):
                    def pv(key, val, i=i):
                        q = copy.deepcopy(pops); q[i][key] = val
                        return V(base, pops=q)
                    # SAME population names (the keys of the cov_dist dictionary), different depth-of-coverage distribution
                    vs['cov_dist[%d]' % i] = [pv('cov', perm_cov(covs[i], k)) for k in range(max(2, n))] + \
                                             [pv('cov', x) for x in alts(covs[i], cat.covs, 1)]
                    vs['nseq[%d]' % i] = [pv('nseq', x) for x in alts(pops[i]['nseq'], [8, 6, 10], n)]
                    vs['nsub[%d]' % i] = [pv('nsub', x) for x in alts(pops[i]['nsub'], [2, 4] if pops[i]['nseq'] >= 6 else [4, 2], n)]
                    vs['Fx[%d]' % i] = [pv('F', x) for x in alts(pops[i]['F'], [0.25, 0, 0.5], n)]
                vs['Fx'] = [V(base, Fx_none=True)]
                vs['cov_dist.keys'] = [V(base, names=['popA', 'popB'][:npop])]
                vs['pop_ids'] = [V(base, pop_ids=['idA', 'idB'][:npop])]
                vs['sim_threshold'] = [V(base, sim_threshold=x) for x in alts(thr, [0.0625, 1, 0.25, 0], n)]
                vs['nsim'] = [V(base, nsim=x) for x in alts(nsim, [12, 20, 1000, 5], n)]
                vs['func'] = [V(base, kind=kind2)]
                for i in range(len(p)):
                    vs['call.params[%d]' % i] = [V(base, p=setidx(p, i, x)) for x in alts(p[i], [p[i] * 2, p[i] / 2], 1 if i else n)]
                vs['call.ns'] = [V(base, ns=[q['nsub'] + 1 for q in pops])]
                vs['call.pts'] = [V(base, pts=x) for x in alts(8, [10, 12], n)]
                add('LowPass.make_low_pass_func_GATK_multisample (%d population%s, %s)' % (npop, '' if npop == 1 else 's', 'analytic' if thr == 1 else 'simulated entries'),
                    fam, [('LowPass/LowPass.py', 'make_low_pass_func_GATK_multisample')], base, vs)
        # ONE generated function evaluated for two argument lists in a row (the closure-level dictionary is shared by the two)
        pops = [{'cov': covs[0], 'nseq': 6, 'nsub': 4, 'F': 0}]
        a0 = [[rng.choice([0.5, 2.0]), 0.5], [4], 8]
        base = {'op': 'lp', 'f': 'func', 'kind': 'two_epoch', 'pops': pops, 'sim_threshold': 1, 'evals': [a0]}
        E.append({'entry': 'the function generated by LowPass.make_low_pass_func_GATK_multisample, called twice', 'families': fam, 'src': [], 'base': base, 'skip': {},
                  'declared': ['params[0]', 'params[1]', 'ns', 'pts'], 'seq': True,
                  'vars': {'params[0]': [V(base, evals=[[[a0[0][0] * 2, 0.5], [4], 8]])], 'params[1]': [V(base, evals=[[[a0[0][0], 0.25], [4], 8]])],
                           'ns': [V(base, evals=[[a0[0], [5], 8]])], 'pts': [V(base, evals=[[a0[0], [4], 10]])]}})

    # ---------------------------------------------------------------- Godambe.cache
    fam = ['godambe']
    for _ in range(nbase_of(fam)):
        n = nval_of(fam)
        nu = rng.choice([2.0, 3.0])
        big = copy.deepcopy(cat.data1); big['shape'] = [7]; big['vals'] = [0.0, 50.0, 30.0, 17.0, 11.0, 6.0, 0.0]
        # multinom=False: func_ex itself is the cached function object, so Godambe.cache is SHARED by successive top-level calls;
        # multinom=True (and LRT_adjust always): every call wraps func_ex in a new closure
        for f, mn in (('FIM', True), ('FIM', False), ('GIM', True), ('GIM', False), ('LRT', True), ('LRT', False)):
            base = cat.g_gim(f, nu)
            base['multinom'] = mn
            p0 = base['p0']
            vs = {'func_ex': [V(base, kind='growth')],
                  'grid_pts': [V(base, pts=x) for x in [[12], [8, 10]][:n]],
                  'p0[0]': [V(base, p0=[x, p0[1]]) for x in alts(nu, [2.0, 3.0, 4.0], n)],
                  'p0[1]': [V(base, p0=[p0[0], x]) for x in alts(p0[1], [0.25, 1.0], n)],
                  'data': [V(base, data=cat.boots[0])],
                  'data.shape': [V(base, data=big, **({'boots': [big, big]} if f != 'FIM' else {}))],
                  'multinom': [V(base, multinom=not mn)],
                  'eps': [V(base, eps=x) for x in [0.02, 0.005][:n]]}
            skip = {}
            if f in ('FIM', 'GIM'):
                vs['log'] = [V(base, log=True)]
                vs['return_FIM' if f == 'FIM' else 'return_GIM'] = [V(base, return_mat=True)]
            if f in ('GIM', 'LRT'):
                vs['all_boot'] = [V(base, boots=list(reversed(copy.deepcopy(cat.boots)))), V(base, boots=[cat.boots[0], cat.data1])][:max(1, n)]
                vs['boot_theta_adjusts'] = [V(base, boot_theta_adjusts=[1.0, 2.0])]
            if f == 'LRT':
                vs['nested_indices'] = [V(base, nested=[0])]
            if not mn and f == 'GIM':
                vs['boot_theta_adjusts'] = [V(base, boot_theta_adjusts=[1.0, 2.0])]
            add('Godambe.%s (multinom=%s)' % ({'FIM': 'FIM_uncert', 'GIM': 'GIM_uncert', 'LRT': 'LRT_adjust'}[f], mn), fam,
                [('Godambe.py', {'FIM': 'FIM_uncert', 'GIM': 'GIM_uncert', 'LRT': 'LRT_adjust'}[f])], base, vs, skip)

    # ---------------------------------------------------------------- demes front end (Demes.cache event trace, _imported_demes)
    fam = ['demes']
    for _ in range(nbase_of(fam)):
        n = nval_of(fam)
        base = {'op': 'demes', 'builder': 'split2:500', 'sampled': ['A', 'B'], 'sizes': [3, 3], 'pts': [8]}
        add('Spectrum.from_demes', fam, [('Spectrum_mod.py', 'Spectrum.from_demes')], base, {
            'g': [V(base, builder='split2:%d' % x) for x in [3000, 250][:n]],
            'sampled_demes': [V(base, sampled=['B', 'A'])],
            'sample_sizes[0]': [V(base, sizes=[x, 3]) for x in alts(3, [4, 2], n)],
            'sample_sizes[1]': [V(base, sizes=[3, x]) for x in alts(3, [4, 2], n)],
            'pts': [V(base, pts=x) for x in [[10], [8, 10]][:n]],
            'log_extrap': [V(base, log_extrap=True)],
            'Ne': [V(base, Ne=500.0)]},
            {'sample_times': 'ancient samples are not part of the demes differential',
             'ancestral_misid': 'True changes the arity of the model function (an extra parameter that from_demes cannot pass): not a value of this call'})
        y = {'op': 'demes', 'yaml': 'gutenkunst_ooa.yaml', 'sampled': ['YRI', 'CEU'], 'sizes': [3, 3], 'pts': [8]}
        add('Spectrum.from_demes (tests/demes/gutenkunst_ooa.yaml)', fam, [], y, {
            'sampled_demes': [V(y, sampled=['CEU', 'CHB']), V(y, sampled=['CEU', 'YRI'])][:max(1, n - 1)],
            'g': [V(y, yaml='browning_america.yaml', sampled=['AFR', 'EUR'])]})

    # ---------------------------------------------------------------- Inference._object_func (_counter, _theta_store)
    fam = ['inference']
    for _ in range(nbase_of(fam)):
        n = nval_of(fam)
        base = {'op': 'opt', 'f': 'object_func', 'kind': 'two_epoch', 'params': [rng.choice([2.0, 3.0]), 0.5], 'data': copy.deepcopy(cat.data1), 'pts': [8, 10],
                'lower': None, 'upper': None, 'fixed': None, 'multinom': True}
        p = base['params']
        add('Inference._object_func', fam, [('Inference.py', '_object_func')], base, {
            'params[0]': [V(base, params=[x, p[1]]) for x in alts(p[0], [2.0, 3.0, 0.5], n)],
            'params[1]': [V(base, params=[p[0], x]) for x in alts(p[1], [0.25, 1.0], n)],
            'data': [V(base, data=cat.boots[0])],
            'model_func': [V(base, kind='growth')],
            'pts': [V(base, pts=x) for x in [[10, 12], [8]][:n]],
            'lower_bound': [V(base, lower=[p[0] + 1, None]), V(base, lower=[0.01, 0.01])][:max(1, n)],
            'upper_bound': [V(base, upper=[p[0] - 0.25, None]), V(base, upper=[100, 10])][:max(1, n)],
            'multinom': [V(base, multinom=False)],
            'fixed_params': [V(base, params=[p[0]], fixed=[None, 0.25])],
            'll_scale': [V(base, kw={'ll_scale': 2.0})],
            'store_thetas': [V(base, kw={'store_thetas': True})],
            'verbose': [V(base, kw={'verbose': 1})]},
            {'flush_delay': 'timing of output flushes, no value', 'func_args': 'the catalogue models take no extra positional arguments',
             'func_kwargs': 'the catalogue models take no extra keyword arguments', 'output_stream': 'where the trace is printed, no value'})

    # ---------------------------------------------------------------- model spectra through make_extrap_func
    fam = ['model']
    for _ in range(nbase_of(fam)):
        n = nval_of(fam)
        for kind, kind2, p, ns in (('two_epoch', 'growth', [rng.choice([0.5, 2.0]), 0.5], [rng.choice([4, 6])]),
                                   ('split_mig', 'split_mig_sw', [rng.choice([0.5, 2.0]), 1.5, 0.25, 1.0], [3, 4])):
            base = {'op': 'model', 'kind': kind, 'p': p, 'ns': ns, 'pts': [8, 10, 12] if len(ns) == 1 else [8, 10], 'shared_ex': True}
            vs = {'func': [V(base, kind=kind2)], 'pts': [V(base, pts=x) for x in [[10, 12], [8, 12]][:n]]}
            for i in range(len(p)):
                vs['params[%d]' % i] = [V(base, p=setidx(p, i, x)) for x in alts(p[i], [p[i] * 2, p[i] / 2], 1 if i else n)]
            for i in range(len(ns)):
                vs['ns[%d]' % i] = [V(base, ns=setidx(ns, i, x)) for x in alts(ns[i], [ns[i] + 1, ns[i] - 1], 1 if i else n)]
            E.append({'entry': 'Numerics.make_extrap_func(Demographics.%s)(params, ns, pts)' % kind, 'families': fam + ['dbeta', 'projection'], 'src': [], 'base': base,
                      'vars': vs, 'skip': {}, 'declared': sorted(vs)})
    return E


def check_signatures(ctx, entries_, root, scan):
    """fail-closed: every parameter of every public entry point occurs in the variation table (or is skipped with a reason)"""
    seen = set()
    empty = sorted((e['entry'], l) for e in entries_ for l in e['declared'] if not e['vars'].get(l))
    ctx.obligation('near-collision table: every declared argument has at least one variant call', not empty, 'harness', repr(empty)[:300])
    for e in entries_:
        for rel, qual in e['src']:
            tag = (e['entry'], rel, qual)
            if tag in seen:
                continue
            seen.add(tag)
            try:
                import os
                params = scan.signature(os.path.join(root, rel), qual)
            except Exception as ex:
                ctx.obligation('near-collision table: signature of %s read from the source' % qual, False, 'translator', str(ex))
                continue
            labels = set(e['declared'])
            roots = set(l.split('[')[0].split('.')[0] for l in labels)
            missing = [p for p in params if p.lstrip('*') not in roots and p not in e['skip']]
            unknown_skip = [p for p in e['skip'] if p not in params]
            ctx.obligation('near-collision table names every parameter of %s %r (skipped with a reason: %s)' % (e['entry'], params, sorted(e['skip']) or 'none'),
                           not missing and not unknown_skip, 'translator', 'not varied: %r; skipped but not a parameter: %r' % (missing, unknown_skip))


# ======================================================================================================================
# SETTING-COLLISION pairs.  dadi's documented module-level settings (Integration.timescale_factor, use_delj_trick, use_old_timestep /
# old_timescale_factor, ...) and the seeds of the random sources are ARGUMENTS of every call that reads them, handed over by plain
# attribute assignment (`dadi.Integration.timescale_factor = x`) instead of through the parameter list.  For every integrator d = 1..5 and
# one_pop_X (constant and time-dependent paths), from_phi d = 1..5, extrapolated models, the demes front end, Godambe, the objective function
# and the random helpers: calls A, B that differ ONLY in one setting - A under value 1, then the assignment of value 2 (plain assignment, AND
# through the setter where one exists), then B; B is compared bitwise with B in a pristine interpreter that had value 2 from the start, and A
# again after value 1 is restored.  (Model/Memo.v section SettingMemo, Props/C20.v C20_setting_outside_key_refuted: a memo keyed on the
# arguments only is not transparent for such a pair; the failing pair - with the assignment in between - is the replay.)
#
# role: 'value'       exercised: 'alts' alternative values, 'context' other settings that must hold for the setting to be read,
#                     'setter' [(function, args)] documented functions that assign it
#       'bookkeeping' counters / lazy-import flags: written by dadi itself, not a value handed to a computation
#       'constant'    never meant to be re-bound, only read
#       'unavailable' cannot take another value in this environment
#       'unexercised' read by a function outside the catalogue of the check (reason given)
#       'outside'     modules outside the families the property names
SETTING_TABLE = {
    ('Integration.py', 'timescale_factor'): {'role': 'value', 'alts': [0.002, 0.0005, 0.004, 0.00075, 0.00025],
                                             'setter': [('Integration.set_timescale_factor', [8, 2]), ('Integration.set_timescale_factor', [10, 1])]},
    ('Integration.py', 'use_delj_trick'): {'role': 'value', 'alts': [True]},
    ('Integration.py', 'use_old_timestep'): {'role': 'value', 'alts': [True]},
    ('Integration.py', 'old_timescale_factor'): {'role': 'value', 'alts': [0.05, 0.2, 0.025, 0.15], 'context': {('Integration.py', 'use_old_timestep'): True}},
    ('Integration.py', 'cuda_enabled'): {'role': 'unavailable', 'why': 'True needs pycuda and a GPU (dadi.cuda_enabled(True) imports dadi.cuda)'},
    ('Godambe.py', 'two_pt_deriv_test'): {'role': 'value', 'alts': [True]},
    ('Inference.py', '_out_of_bounds_val'): {'role': 'value', 'alts': [-1e9, -1e7, -5e8]},
    ('Inference.py', '_counter'): {'role': 'bookkeeping', 'why': 'number of objective-function evaluations, only printed'},
    ('Misc.py', 'code'): {'role': 'constant', 'why': 'the nucleotide order CGTA of make_fux_table (file utility)'},
    ('Spectrum_mod.py', '_imported_demes'): {'role': 'bookkeeping', 'why': 'lazy-import flag of from_demes'},
    ('Demes/Demes.py', '_imported_demes'): {'role': 'bookkeeping', 'why': 'records whether `import demes` worked'},
    ('Demes/Inference.py', '_counter'): {'role': 'bookkeeping', 'why': 'number of objective-function evaluations, only printed'},
    ('Demes/Inference.py', '_out_of_bounds_val'): {'role': 'unexercised', 'why': 'the demes optimiser (Demes.Inference.optimize) is not in the catalogue: it writes YAML files and runs a full optimisation'},
    ('LowPass/LowPass.py', 'rng'): {'role': 'rng', 'why': 'random SOURCE of the simulated low-pass entries: re-seeded by the driver before every call; the seed is varied as an argument'},
}
SETTING_OUTSIDE_DIRS = ('TwoLocus', 'Triallele', 'cuda')

# which files' settings are arguments of which kind of entry point
SETTING_FILES_OF = {
    'integ': ['Integration.py', 'Numerics.py', 'PhiManip.py'],
    'from_phi': ['Integration.py', 'Numerics.py', 'Spectrum_mod.py'],
    'model': ['Integration.py', 'Numerics.py', 'PhiManip.py', 'Spectrum_mod.py', 'Demographics1D.py', 'Demographics2D.py', 'Demographics3D.py'],
    'demes': ['Integration.py', 'Numerics.py', 'PhiManip.py', 'Spectrum_mod.py', 'Demes/Demes.py', 'Demes/__init__.py'],
    'godambe': ['Godambe.py', 'Integration.py'],
    'inference': ['Inference.py', 'Misc.py', 'Integration.py'],
}


def setting_modname(rel):
    p = rel[:-3].split('/')
    if p[-1] == '__init__':
        p = p[:-1]
    return '.'.join(p)


def setting_role(rel, name):
    if rel.split('/')[0] in SETTING_OUTSIDE_DIRS:
        return {'role': 'outside', 'why': 'module outside the families the property names'}
    return SETTING_TABLE.get((rel, name))


def auto_alts(default):
    """alternative values for a setting the table does not know (a NEW setting: the table obligation fails, the pairs run all the same)"""
    if isinstance(default, bool):
        return [not default]
    if isinstance(default, (int, float)):
        return [default * 2, default / 2.0] if default else [1, 0.5]
    return []


def setting_entries(cat, rng, nval_of, nbase_of, defaults, gen_fs, quick):
    """defaults: {(file relative to dadi/, name): literal default} as read from the source (c20_scan.settings_state).
    Same ENTRY format as entries(); the labels start with 'setting ' / 'random seed'."""
    E = []
    value_settings = {}
    for (rel, name), dflt in sorted(defaults.items()):
        ro = setting_role(rel, name)
        if ro is None:
            if auto_alts(dflt):
                value_settings[(rel, name)] = {'role': 'value', 'alts': auto_alts(dflt), 'auto': True}
        elif ro['role'] == 'value':
            value_settings[(rel, name)] = ro

    def assign(key, val):
        return {'name': setting_modname(key[0]) + '.' + key[1], 'how': 'assign', 'value': val}

    def add(entry, kind, families, spec, only=None, vacuous_ok=False, nmax=None):
        """one ENTRY: base = spec with every applicable setting assigned its default explicitly; per setting the calls that differ in it only"""
        keys = [k for k in sorted(value_settings) if k[0] in SETTING_FILES_OF[kind] and (only is None or k in only)]
        if not keys:
            return
        n = nval_of(families + ['settings'])
        if nmax is not None and quick and not (set(families + ['settings']) & BROKEN[0]):
            n = min(n, nmax)
        if quick:
            n = min(n, 3)
        def with_(over, calls=()):
            st = [assign(k, over.get(k, defaults[k])) for k in keys]
            st += [{'name': f, 'how': 'call', 'args': list(a)} for f, a in calls]
            return dict(copy.deepcopy(spec), settings=st)
        base = with_({})
        vs = {}
        for k in keys:
            ro = value_settings[k]
            nm = setting_modname(k[0]) + '.' + k[1]
            ctx = dict(ro.get('context') or {})
            ctx = {c: v for c, v in ctx.items() if c in keys}
            alts_ = [a for a in ro['alts'] if a != defaults[k]][:max(1, n)]
            if ctx:
                how = ', '.join('%s = %r' % (c[1], v) for c, v in sorted(ctx.items()))
                # the setting is read only under the context: the chain is (context, default), then (context, value 2), ... - neighbours differ in this setting only
                vs['setting %s (plain assignment, under %s)' % (nm, how)] = [with_(dict(ctx))] + [with_(dict(list(ctx.items()) + [(k, a)])) for a in alts_]
            else:
                vs['setting %s (plain assignment)' % nm] = [with_({k: a}) for a in alts_]
            for f, a in (ro.get('setter') or [])[:max(1, n - 1)]:
                vs['setting %s (through %s%r)' % (nm, f, tuple(a))] = [with_({}, calls=[(f, a)])]
        E.append({'entry': entry, 'families': families + ['settings'], 'src': [], 'base': base, 'vars': vs, 'skip': {}, 'declared': sorted(vs),
                  'setting': True, 'vacuous_ok': vacuous_ok, 'aba': True})

    I = 'Integration.py'
    # ---------------------------------------------------------------- every integrator, constant and time-dependent parameters
    fam = ['model']
    for _ in range(min(2, nbase_of(fam + ['settings']))):
        for d, X in ((1, False), (2, False), (3, False), (4, False), (5, False), (1, True)):
            for nonconst in ((False,) if X else (False, True)):       # one_pop_X: "currently only implemented for constant parameters"
                pts = min(p for (dd_, p) in cat.phis if dd_ == d)
                s = {'op': 'integ', 'd': d, 'pts': pts, 'phi': copy.deepcopy(cat.phis[(d, pts)][0]), 'T': rng.choice([0.0625, 0.125]),
                     'nu': [rng.choice([0.5, 1.0, 2.0]) for _ in range(d)], 'gamma': [rng.choice([1.0, -1.0])] + [rng.choice([0, 1.0, -1.0]) for _ in range(d - 1)],
                     'h': [rng.choice([0.5, 0.25])] + [0.5] * (d - 1), 'theta0': 1.0, 'nonconst': nonconst}
                if d > 1:
                    s['m'] = [[0 if i == j else rng.choice([0, 0.5, 1.0]) for j in range(d)] for i in range(d)]
                    s['m'][0][1] = rng.choice([0.5, 1.0])
                if X:
                    s['X'] = True
                name = 'Integration.%s (%s parameters)' % ('one_pop_X' if X else INTEG_NAME[d], 'time-dependent' if nonconst else 'constant')
                add(name, 'integ', fam, s)
    # ---------------------------------------------------------------- from_phi d = 1..5 (reads no setting today: B must still be its pristine value)
    for d in (1, 2, 3, 4, 5):
        pts = min(p for (dd_, p) in cat.phis if dd_ == d)
        s = {'op': 'from_phi', 'd': d, 'pts': pts, 'phi': copy.deepcopy(cat.phis[(d, pts)][0]), 'ns': [rng.choice([2, 3]) for _ in range(d)]}
        add('Spectrum.from_phi (%d population%s) under the module-level settings' % (d, '' if d == 1 else 's'), 'from_phi', ['dbeta', 'projection'], s, vacuous_ok=True, nmax=1)
    # ---------------------------------------------------------------- extrapolated model spectra
    fam = ['model']
    models = [('two_epoch', [rng.choice([0.5, 2.0]), 0.5], [4], [8, 10, 12]), ('growth', [rng.choice([0.5, 2.0]), 0.25], [4], [8, 10, 12]),
              ('split_mig', [rng.choice([0.5, 2.0]), 1.5, 0.25, 1.0], [3, 4], [8, 10]), ('IM', [0.5, 2.0, 0.5, 0.125, 1.0, 0.5], [3, 3], [8, 10]),
              ('m3', [0.5, 1.0, 2.0, 0.0625, 0.0625, 1.0], [2, 2, 2], 6)]
    if not quick or (set(fam + ['settings']) & BROKEN[0]):
        models += [('m4', [0.5, 1.0, 2.0, 1.5, 0.0625, 1.0], [2, 2, 2, 2], 5), ('m5', [0.5, 1.0, 2.0, 1.5, 0.25, 0.0625, 1.0], [2, 2, 2, 2, 2], 4),
                   ('bottlegrowth_2d', [0.5, 2.0, 0.25], [3, 3], [8, 10])]
    for kind, p, ns, pts in models:
        s = {'op': 'model', 'kind': kind, 'p': p, 'ns': ns, 'pts': pts, 'shared_ex': True}
        add('Numerics.make_extrap_func(%s)(params, ns, pts) under the module-level settings' % kind, 'model', fam + ['dbeta', 'projection'], s, nmax=1)
    # ---------------------------------------------------------------- the demes front end
    fam = ['demes']
    dm = [{'op': 'demes', 'builder': 'split2:500', 'sampled': ['A', 'B'], 'sizes': [3, 3], 'pts': [8]}]
    if not quick:
        dm.append({'op': 'demes', 'yaml': 'gutenkunst_ooa.yaml', 'sampled': ['YRI', 'CEU'], 'sizes': [3, 3], 'pts': [8]})
    for s in dm:
        add('Spectrum.from_demes (%s) under the module-level settings' % (s.get('yaml') or s['builder']), 'demes', fam, s, nmax=1)
    # ---------------------------------------------------------------- Godambe (Godambe.cache keeps model spectra between top-level calls)
    fam = ['godambe']
    for mn in (True, False):
        s = cat.g_gim('FIM', rng.choice([2.0, 3.0]))
        s['multinom'] = mn
        s['return_mat'] = True          # the information matrix itself (the uncertainties alone are NaN for the small catalogue data when theta is a parameter)
        add('Godambe.FIM_uncert (multinom=%s) under the module-level settings' % mn, 'godambe', fam, s,
            only=[('Godambe.py', 'two_pt_deriv_test'), (I, 'timescale_factor')] + [k for k in value_settings if k[0] == 'Godambe.py'], nmax=1)
    # ---------------------------------------------------------------- the objective function (out of bounds: returns _out_of_bounds_val; in bounds: the model)
    fam = ['inference']
    p0 = rng.choice([2.0, 3.0])
    base = {'op': 'opt', 'f': 'object_func', 'kind': 'two_epoch', 'params': [p0, 0.5], 'data': copy.deepcopy(cat.data1), 'pts': [8, 10],
            'lower': [p0 + 1, None], 'upper': None, 'fixed': None, 'multinom': True}
    add('Inference._object_func (parameter below its lower bound) under the module-level settings', 'inference', fam, base,
        only=[k for k in value_settings if k[0] in ('Inference.py', 'Misc.py')], nmax=1)
    add('Inference._object_func under the module-level settings', 'inference', fam, dict(copy.deepcopy(base), lower=None),
        only=[(I, 'timescale_factor')] + [k for k in value_settings if k[0] in ('Inference.py', 'Misc.py') and value_settings[k].get('auto')], nmax=1)

    # ---------------------------------------------------------------- random helpers: the seed of the random source is the argument
    def add_seed(entry, families, spec, seeds):
        vs = {'random seed (numpy.random.seed / LowPass.rng set before the call)': [dict(copy.deepcopy(spec), seed=x) for x in seeds if x != spec['seed']]}
        E.append({'entry': entry, 'families': families + ['settings'], 'src': [], 'base': copy.deepcopy(spec), 'vars': vs, 'skip': {}, 'declared': sorted(vs),
                  'setting': True, 'vacuous_ok': False, 'aba': True})
    n = nval_of(['settings'])
    fs = gen_fs(rng, [9]); fs['vals'] = [v + 1.0 for v in fs['vals']]
    add_seed('Spectrum.sample', ['projection'], {'op': 'sp', 'm': 'sample', 'fs': fs, 'a': [], 'seed': 11}, [12, 13, 14][:n])
    add_seed('Spectrum.fixed_size_sample', ['projection'], {'op': 'sp', 'm': 'fixed_size_sample', 'fs': copy.deepcopy(fs), 'a': [25], 'seed': 11}, [12, 13, 14][:n])
    add_seed('Misc.perturb_params', ['inference'], {'op': 'opt', 'f': 'perturb', 'params': [1.0, 2.0, 0.5], 'lower': None, 'upper': None, 'seed': 1, 'fold': 1}, [2, 3, 4][:n])
    cov = cat.covs[0]
    add_seed('LowPass.make_low_pass_func_GATK_multisample (simulated entries)', ['lowpass'],
             {'op': 'lp', 'f': 'func', 'kind': 'two_epoch', 'p': [2.0, 0.5], 'pts': 8, 'pops': [{'cov': cov, 'nseq': 6, 'nsub': 4, 'F': 0}],
              'sim_threshold': 0.0625, 'nsim': 12, 'seed': 7}, [8, 9, 10][:n])
    return E


INTEG_NAME = {1: 'one_pop', 2: 'two_pops', 3: 'three_pops', 4: 'four_pops', 5: 'five_pops'}
BROKEN = [set()]          # set by c20.run before the tables are built: the families whose source obligations broke
