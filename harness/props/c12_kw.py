"""C12 -- keyword / optional-argument combinations of the optimiser wrappers.

Every wrapper C12 covers (NLopt_mod.opt with log_opt off and on, the seven scipy wrappers, optimize_grid) is called, on EVERY run,
with every combination of its optional bound arguments

    only lower_bound | only upper_bound | both | neither | a None entry in lower_bound only | a None entry in upper_bound only
    | only lower_bound, with a None entry | only upper_bound, with a None entry

crossed with every way of saying which parameters are fixed (fixed_params left out, None, a list of None, one parameter fixed,
two fixed) and with the other arguments the model knows (multinom x ll_scale x full_output, in rotation), and each such call in
every SPELLING Python allows: the keyword left out altogether vs handed over as None, bounds by keyword vs positionally (in the
order of the documented signature, which is pinned by a fail-closed source obligation), fixed_params / multinom / ll_scale /
full_output left to their defaults vs given.  Every other optional keyword of the wrapper (verbose, flush_delay, epsilon, gtol,
pgtol, maxiter, func_args, func_kwargs, output_file, the constraint arguments, nlopt's tolerances and limits) is switched on
alone, in pairs and all at once on top of a call with a single bound list.

Scripted runs: the stub optimiser HONOURS the box it is handed (Model/Optim.v scripted_clip; C12_clipping_script_honours_contract:
it satisfies the optimiser contract for every script) and its script proposes, for every free parameter, a point beyond the
lower and a point beyond the upper end of the user's box; the quadratic likelihoods peak beyond the box.  A bound the wrapper
does not hand over (or does not test) therefore shows as a model evaluation beyond it and as a returned point beyond it -- a
failing input of the property -- and as a disagreement with the Coq model, which is handed the same script.  Calls that differ
only in spelling or in a keyword the property does not speak about must give the very same run (start, box, trace, evaluations,
returned vector, reported value) as their base call, which is compared with the Coq model.

Real runs: every real optimiser, the data's parameters beyond the bound(s) that were given (so that each given bound binds),
the property clauses evaluated on every logged model evaluation and on the returned point.

targeted_search: when a source obligation or a correspondence of a wrapper breaks, the same streams are run for that wrapper
alone with random boxes, every subset of fixed parameters and many more scripts before anything is reported without an input.
"""
import ast, copy, itertools, math, os, random
from harness import lib
from harness.props import c12 as base

# ------------------------------------------------------------------------------------------------
# the documented signatures (parameter order and defaults): positional calls depend on the order, omitted keywords on the
# defaults.  Re-read from the source on every run; a parameter that is added, dropped, moved or given another default fails
# the obligation (fail-closed), and the streams below call the wrappers positionally in THIS order.

REQ = ['p0', 'data', 'model_func', 'pts']
_SC = [('lower_bound', 'None'), ('upper_bound', 'None'), ('verbose', '0'), ('flush_delay', '0.5')]
_TAIL = [('func_args', '[]'), ('func_kwargs', '{}'), ('fixed_params', 'None')]
SIGNATURES = {
    ('NLopt_mod', 'opt'): (REQ, [('multinom', 'True'), ('lower_bound', 'None'), ('upper_bound', 'None'), ('fixed_params', 'None'),
                                 ('ineq_constraints', '[]'), ('eq_constraints', '[]'), ('algorithm', 'nlopt.LN_BOBYQA'),
                                 ('ftol_abs', '1e-06'), ('xtol_abs', '1e-06'), ('maxeval', 'int(1000000000.0)'), ('maxtime', 'np.inf'),
                                 ('stopval', '0'), ('log_opt', 'False'), ('local_optimizer', 'nlopt.LN_BOBYQA'), ('verbose', '0'),
                                 ('func_args', '[]'), ('func_kwargs', '{}')]),
    ('Inference', 'optimize'): (REQ, _SC + [('epsilon', '0.001'), ('gtol', '1e-05'), ('multinom', 'True'), ('maxiter', 'None'),
                                            ('full_output', 'False')] + _TAIL + [('ll_scale', '1'), ('output_file', 'None')]),
    ('Inference', 'optimize_log'): (REQ, _SC + [('epsilon', '0.001'), ('gtol', '1e-05'), ('multinom', 'True'), ('maxiter', 'None'),
                                                ('full_output', 'False')] + _TAIL + [('ll_scale', '1'), ('output_file', 'None')]),
    ('Inference', 'optimize_lbfgsb'): (REQ, _SC + [('epsilon', '0.001'), ('pgtol', '1e-05'), ('multinom', 'True'), ('maxiter', '100000.0'),
                                                   ('full_output', 'False')] + _TAIL + [('ll_scale', '1'), ('output_file', 'None')]),
    ('Inference', 'optimize_log_lbfgsb'): (REQ, _SC + [('epsilon', '0.001'), ('pgtol', '1e-05'), ('multinom', 'True'), ('maxiter', '100000.0'),
                                                       ('full_output', 'False')] + _TAIL + [('ll_scale', '1'), ('output_file', 'None')]),
    ('Inference', 'optimize_log_fmin'): (REQ, _SC + [('multinom', 'True'), ('maxiter', 'None'), ('full_output', 'False')] + _TAIL + [('output_file', 'None')]),
    ('Inference', 'optimize_log_powell'): (REQ, _SC + [('multinom', 'True'), ('maxiter', 'None'), ('full_output', 'False')] + _TAIL + [('output_file', 'None')]),
    ('Inference', 'optimize_cons'): (REQ, [('eq_constraint', 'None'), ('ieq_constraint', 'None')] + _SC
                                     + [('epsilon', '0.0001'), ('gtol', '1e-05'), ('multinom', 'True'), ('maxiter', 'None'), ('full_output', 'False')]
                                     + _TAIL + [('ll_scale', '1'), ('output_file', 'None')]),
    ('Inference', 'optimize_grid'): (['data', 'model_func', 'pts', 'grid'],
                                     [('verbose', '0'), ('flush_delay', '0.5'), ('multinom', 'True'), ('full_output', 'False')] + _TAIL
                                     + [('output_file', 'None')]),
}
OPTIONAL = {name: [k for k, _ in opt] for (_, name), (_, opt) in SIGNATURES.items()}

def _norm_default(node):
    txt = ast.unparse(node).replace(' ', '')
    try:
        v = ast.literal_eval(node)
        if isinstance(v, (int, float)) and not isinstance(v, bool):
            return repr(float(v)) if isinstance(v, float) else repr(v)
    except Exception:
        pass
    return txt

def _norm_expected(txt):
    try:
        return _norm_default(ast.parse(txt, mode='eval').body)
    except SyntaxError:
        return txt

def signature_obligations(ctx):
    """returns the set of wrappers whose signature is not the documented one"""
    broken = set()
    for mod, path in (('Inference', base.INFERENCE), ('NLopt_mod', base.NLOPT_MOD)):
        try:
            tree = ast.parse(open(path).read())
            fns = {}
            for n in tree.body:
                if isinstance(n, ast.FunctionDef):
                    fns.setdefault(n.name, []).append(n)
        except (OSError, SyntaxError) as e:
            ctx.obligation('parse dadi/%s.py (signatures)' % mod, False, 'translator', repr(e))
            broken |= {name for (m, name) in SIGNATURES if m == mod}
            continue
        for (m, name), (req, opt) in SIGNATURES.items():
            if m != mod:
                continue
            what = 'signature of %s.%s: parameter order and defaults are the documented ones (positional calls, omitted keywords)' % (mod, name)
            if len(fns.get(name, [])) != 1:
                ctx.obligation(what, False, 'translator', '%d definitions' % len(fns.get(name, [])))
                broken.add(name)
                continue
            a = fns[name][0].args
            ok = not (a.vararg or a.kwarg or a.kwonlyargs or getattr(a, 'posonlyargs', []))
            names = [x.arg for x in a.args]
            nreq = len(names) - len(a.defaults)
            got = (names[:nreq], [(nm, _norm_default(d)) for nm, d in zip(names[nreq:], a.defaults)])
            want = (list(req), [(nm, _norm_expected(d)) for nm, d in opt])
            ok = ok and got == want
            detail = ''
            if not ok:
                detail = 'source: %r; documented: %r' % ([t for t in got[1] if t not in want[1]] or got, [t for t in want[1] if t not in got[1]] or want)
                broken.add(name)
            ctx.obligation(what, ok, 'translator', detail[:400])
    return broken

# ------------------------------------------------------------------------------------------------
# the combinations

BOUND_KINDS = ['lo', 'up', 'both', 'neither', 'lo_holes', 'up_holes', 'lo_holes_alone', 'up_holes_alone']
FIXED_KINDS = ['absent', 'all_none', 'one', 'two']
SEMANTIC = [(m, s, f) for m in (True, False) for s in (1, 2, 0.5) for f in (True, False)]      # multinom x ll_scale x full_output
DEFAULTS = {'multinom': True, 'll_scale': 1, 'full_output': False, 'fixed_params': None, 'lower_bound': None, 'upper_bound': None}
WRAPPERS = [('opt', False), ('opt', True)] + [(f, False) for f in base.SCIPY_FNS] + [('optimize_grid', False)]

# values for the keywords the property does not speak about: they must not change the run
NEUTRAL = {
    'verbose': [3, 1], 'flush_delay': [0, 0.25], 'epsilon': [0.015625], 'gtol': [0.001], 'pgtol': [0.001], 'maxiter': [7, 23],
    'func_args': [[0.25, 'tag']], 'func_kwargs': [{'extra': 1.5, 'flag': True}], 'output_file': [True],
    'eq_constraint': [None], 'ieq_constraint': [{'kind': 'slack'}, None],
    'ineq_constraints': [[]], 'eq_constraints': [[]], 'algorithm': ['LN_COBYLA', 'LN_NELDERMEAD'], 'ftol_abs': [0.001], 'xtol_abs': [0.001],
    'maxeval': [50], 'maxtime': [30.0], 'stopval': [1e300], 'local_optimizer': ['LN_COBYLA'],
}
NOT_NEUTRAL = {'lower_bound', 'upper_bound', 'fixed_params', 'multinom', 'll_scale', 'full_output', 'log_opt'}

def logspace_of(fn, log_opt):
    return log_opt if fn == 'opt' else base.LOG_SPACE.get(fn, False)

def kw_box(rng, n, positive):
    lower, upper = [], []
    for _ in range(n):
        if positive:
            lo = rng.choice([0.25, 0.5, 1.0]); hi = lo * rng.choice([4, 8])
        else:
            lo = lib.dyadic(rng, -4, 1, 3); hi = lo + rng.choice([1.0, 2.0, 3.5])
        lower.append(lo); upper.append(hi)
    return lower, upper

def fixed_of(rng, rot, n, kind, lower, upper):
    if kind == 'absent':
        return None
    fixed = [None] * n
    if kind == 'one' and n >= 2:
        i = rot.count('kw fixed one') % n
        fixed[i] = base.inside(rng, lower[i], upper[i])
    elif kind == 'two' and n >= 3:
        i = rot.count('kw fixed two') % n
        for j in (i, (i + 1) % n):
            fixed[j] = base.inside(rng, lower[j], upper[j])
    elif kind in ('one', 'two'):
        return None if n < 2 else fixed_of(rng, rot, n, 'one', lower, upper)
    return fixed

def user_bounds(rot, kind, lower, upper, free):
    ulo, uhi = list(lower), list(upper)
    if kind == 'lo':
        uhi = None
    elif kind == 'up':
        ulo = None
    elif kind == 'neither':
        ulo = uhi = None
    elif kind in ('lo_holes', 'lo_holes_alone'):
        ulo[free[rot.count('kw hole') % len(free)]] = None
        if kind == 'lo_holes_alone':
            uhi = None
    elif kind in ('up_holes', 'up_holes_alone'):
        uhi[free[rot.count('kw hole') % len(free)]] = None
        if kind == 'up_holes_alone':
            ulo = None
    return ulo, uhi

def beyond_script(rng, lower, upper, free, p0, logspace):
    """proposals in natural coordinates: for every free parameter one point beyond the lower and one beyond the upper end of
    the box (all other coordinates inside), one point inside, one point beyond in every coordinate at once"""
    def inside_pt():
        return [base.inside(rng, lower[i], upper[i]) for i in free]
    def below(i):
        return lower[i] / rng.choice([2.0, 4.0]) if logspace else lower[i] - (upper[i] - lower[i]) * rng.randint(2, 12) / 32.0
    def above(i):
        return upper[i] * rng.choice([2.0, 4.0]) if logspace else upper[i] + (upper[i] - lower[i]) * rng.randint(2, 12) / 32.0
    props = [inside_pt()]
    for j, i in enumerate(free):
        x = inside_pt(); x[j] = below(i); props.append(x)
        x = inside_pt(); x[j] = above(i); props.append(x)
    props.append([below(i) if (j + len(props)) % 2 else above(i) for j, i in enumerate(free)])
    return props

def kw_ll(rng, rot, lower, upper):
    """a quadratic likelihood that peaks beyond the box: below the lower end in some coordinates, above the upper end in others"""
    n = len(lower)
    cs = []
    for i in range(n):
        w = upper[i] - lower[i]
        cs.append(lower[i] - w * rng.choice([0.5, 0.75]) if rot.count('kw side') % 2 else upper[i] + w * rng.choice([0.5, 0.75]))
    return {'c0': lib.dyadic(rng, -8, 8, 3), 'cs': cs, 'ws': [rng.choice([0.5, 1.0, 2.0, 0.25]) for _ in range(n)], 'nan': None}

def kw_scripted_base(rng, rot, fn, log_opt, n, bkind, fkind, sem):
    logspace = logspace_of(fn, log_opt)
    positive = logspace or fn in base.NEEDS_POSITIVE or rot.count('kw positive') % 3 == 0
    lower, upper = kw_box(rng, n, positive)
    fixed = fixed_of(rng, rot, n, fkind, lower, upper)
    free = [i for i in range(n) if fixed is None or fixed[i] is None]
    multinom, scale, full = sem
    p0 = [base.inside(rng, lower[i], upper[i]) for i in range(n)]
    c = {'fn': fn, 'log_opt': log_opt, 'n': n, 'p0': p0, 'fixed': fixed, 'multinom': multinom,
         'll_scale': scale if fn in base.SCALE_FORWARDED else 1, 'maxiter': 50 if fn == 'optimize_cons' else None,
         'full_output': True if fn == 'opt' else full, 'ret': None, 'clip': True, 'honours_contract': True,
         'llm': kw_ll(rng, rot, lower, upper), 'llp': kw_ll(rng, rot, lower, upper),
         'kw': {'bounds': bkind, 'fixed': fkind}, 'box': [list(lower), list(upper)]}
    if fn == 'optimize_grid':
        c['lower'] = c['upper'] = None
        ranges = []
        for i in free:
            npts = rng.choice([2, 3])
            step = (upper[i] - lower[i]) / 8.0 * rng.choice([1, 2])
            start = lower[i] + step * rng.choice([0, 1])
            ranges.append([start, start + step * npts - step / 2.0, step])
        c['grid'] = ranges
        axes = [[r[0] + k * r[2] for k in range(int(math.ceil((r[1] - r[0]) / r[2])))] for r in ranges]
        c['grid_points'] = [list(t) for t in itertools.product(*axes)]
        c['props'] = []; c['p0'] = None; c['clip'] = False; c['honours_contract'] = False
        return c
    c['lower'], c['upper'] = user_bounds(rot, bkind, lower, upper, free)
    props = beyond_script(rng, lower, upper, free, p0, logspace)
    c['props'] = [[math.log(v) for v in x] for x in props] if logspace else props
    return c

def bound_spellings(fn, c):
    """every way of writing the bound arguments of this call: (positional names, omitted names), the first one being the plain
    keyword form.  An absent list can be left out or handed over as None; given lists go by keyword or by position."""
    opt = OPTIONAL[fn]
    if 'lower_bound' not in opt:
        return [([], [])]
    lead = opt[:opt.index('lower_bound')]                   # what has to be handed over positionally before lower_bound
    out = [([], [])]
    absent = [k for k, v in (('lower_bound', c['lower']), ('upper_bound', c['upper'])) if v is None]
    for r in range(1, len(absent) + 1):
        for om in itertools.combinations(absent, r):
            out.append(([], list(om)))
    out.append((lead + ['lower_bound', 'upper_bound'], []))                 # both positional (None included)
    if c['upper'] is None:
        out.append((lead + ['lower_bound'], ['upper_bound']))               # lower positional, upper left out
    else:
        out.append((lead + ['lower_bound'], []))                            # lower positional, upper by keyword
    return out

def with_call(c, positional=(), omit=(), extra=None, label=''):
    v = copy.deepcopy(c)
    call = {'positional': list(positional), 'omit': list(omit), 'extra': dict(extra or {})}
    # leading positional parameters that are not bounds (opt: multinom; optimize_cons: the two constraints) need a value
    for name in call['positional']:
        if name in ('eq_constraint', 'ieq_constraint') and name not in call['extra']:
            call['extra'][name] = None
    v['call'] = call
    v['spelling'] = label
    return v

def other_spellings(rot, fn, c):
    """fixed_params / multinom / ll_scale / full_output left to their defaults where the value is the default"""
    opt = OPTIONAL[fn]
    can = []
    if c['fixed'] is None:
        can.append('fixed_params')
    if c['multinom'] is True:
        can.append('multinom')
    if 'll_scale' in opt and c['ll_scale'] == 1:
        can.append('ll_scale')
    return can

def gen_kw_scripted(ctx, only=None, reps=1, rng=None, all_subsets=False):
    """the systematic block (every run): returns (bases, variants); variants carry 'kw_base' = index of their base in bases"""
    rng = rng or base.sub_rng(ctx, 'kw scripted')
    rot = base.Rot(ctx.seed + 5)
    bases, variants = [], []
    for fn, log_opt in WRAPPERS:
        if only is not None and fn not in only:
            continue
        bkinds = BOUND_KINDS if fn != 'optimize_grid' else ['neither']
        for rep in range(reps * (3 if fn == 'optimize_grid' else 1)):
            for bkind in bkinds:
                for fkind in FIXED_KINDS:
                    n = 3 if fkind == 'two' else rot.next([2, 3, 2, 1] if fkind != 'one' else [2, 3])
                    if 'holes' in bkind and n == 1:
                        n = 2
                    sem = SEMANTIC[rot.count('kw semantic ' + fn + str(log_opt)) % len(SEMANTIC)]
                    if all_subsets:
                        n = rng.choice([1, 2, 3])
                    c = kw_scripted_base(rng, rot, fn, log_opt, n, bkind, fkind, sem)
                    if all_subsets and fn != 'optimize_grid':
                        lower, upper = c['box']
                        pat = rng.choice(base.subsets(n))
                        c['fixed'] = None if (not pat and rng.random() < 0.5) else [base.inside(rng, lower[i], upper[i]) if i in pat else None for i in range(n)]
                        free = [i for i in range(n) if c['fixed'] is None or c['fixed'][i] is None]
                        c['lower'], c['upper'] = user_bounds(rot, bkind, lower, upper, free)
                        props = beyond_script(rng, lower, upper, free, c['p0'], logspace_of(fn, log_opt))
                        c['props'] = [[math.log(v) for v in x] for x in props] if logspace_of(fn, log_opt) else props
                    c = with_call(c, label='keywords')
                    bi = len(bases)
                    bases.append(c)
                    # the other spellings of the very same call
                    can = other_spellings(rot, fn, c)
                    for k, (pos, om) in enumerate(bound_spellings(fn, c)[1:]):
                        om2 = list(om)
                        if can:                                 # one further keyword left to its default, in rotation
                            om2.append(can[rot.count('kw omit ' + fn) % len(can)])
                        if fn != 'opt' and c['full_output'] is False and rot.count('kw omit full') % 2:
                            om2.append('full_output')
                        pos2 = list(pos)
                        if fn == 'opt' and pos2 and 'multinom' in om2:
                            om2.remove('multinom')              # (opt: multinom comes before the bounds in the signature)
                        v = with_call(c, pos2, om2, label='positional %s / left out %s' % (pos2, om2))
                        v['kw_base'] = bi
                        variants.append(v)
                    if can and fn == 'optimize_grid':
                        v = with_call(c, [], can + (['full_output'] if c['full_output'] is False else []), label='left out %s' % can)
                        v['kw_base'] = bi
                        variants.append(v)
        # every other optional keyword alone, in pairs, all at once -- on a call with a single bound list
        neutral = [k for k in OPTIONAL[fn] if k not in NOT_NEUTRAL]
        unknown = [k for k in neutral if k not in NEUTRAL]
        if unknown:
            ctx.obligation('every optional keyword of %s has a value in the keyword-combination stream' % fn, False, 'translator', repr(unknown))
        neutral = [k for k in neutral if k in NEUTRAL]
        singles = [{k: NEUTRAL[k][rot.count('kw value ' + k) % len(NEUTRAL[k])]} for k in neutral]
        pairs = []
        for j in range(len(neutral)):
            a, b_ = neutral[j], neutral[(j + 1 + rot.count('kw pair ' + fn) % max(1, len(neutral) - 1)) % len(neutral)]
            if a != b_:
                pairs.append({a: NEUTRAL[a][0], b_: NEUTRAL[b_][-1]})
        everything = {k: NEUTRAL[k][0] for k in neutral}
        combos = singles + pairs + [everything]
        kbases = []
        for bkind in (['lo', 'up', 'both'] if fn != 'optimize_grid' else ['neither']):
            fkind = rot.next(FIXED_KINDS)
            n = 3 if fkind == 'two' else 2
            sem = SEMANTIC[rot.count('kw semantic ' + fn + str(log_opt)) % len(SEMANTIC)]
            c = with_call(kw_scripted_base(rng, rot, fn, log_opt, n, bkind, fkind, sem), label='keywords')
            kbases.append(len(bases))
            bases.append(c)
        for k, extra in enumerate(combos):
            bi = kbases[k % len(kbases)]
            v = with_call(bases[bi], extra=extra, label='with ' + ', '.join('%s=%r' % kv for kv in sorted(extra.items())))
            v['kw_base'] = bi
            variants.append(v)
    return bases, variants

# ------------------------------------------------------------------------------------------------
# predicates on the spelled calls

SAME_RUN = ['x', 'f', 'evals']
SAME_ORACLE = ['lo', 'hi', 'start', 'trace', 'vals']

def same_run(rb, rv):
    if ('error' in rb) != ('error' in rv):
        return 'one call raises (%s), the other does not' % (rb.get('error') or rv.get('error'))
    if 'error' in rb:
        return None if rb['error'].split(':')[0] == rv['error'].split(':')[0] else 'different exceptions: %s / %s' % (rb['error'], rv['error'])
    for k in SAME_RUN:
        if rb.get(k) != rv.get(k):
            return '%s differs: %r / %r' % (k, rb.get(k), rv.get(k))
    ob, ov = rb.get('oracle') or {}, rv.get('oracle') or {}
    for k in SAME_ORACLE:
        if ob.get(k) != ov.get(k):
            return 'what the optimiser was handed / did differs in %s: %r / %r' % (k, ob.get(k), ov.get(k))
    return None

def call_text(c):
    call = c.get('call') or {}
    bits = []
    if call.get('positional'):
        bits.append('positionally: ' + ', '.join(call['positional']))
    if call.get('omit'):
        bits.append('left out: ' + ', '.join(call['omit']))
    if call.get('extra'):
        bits.append('also: ' + ', '.join('%s=%r' % kv for kv in sorted(call['extra'].items())))
    sem = 'multinom=%r ll_scale=%r full_output=%r' % (c.get('multinom'), c.get('ll_scale'), c.get('full_output'))
    return base.inputs_text(c) + ' ' + sem + (' [' + '; '.join(bits) + ']' if bits else '')

def extra_args_fail(c, r):
    """the model function is handed func_args after (params, ns) and func_kwargs (plus pts) by keyword, at every evaluation;
    the caller's func_kwargs dictionary comes back as it went in"""
    extra = (c.get('call') or {}).get('extra') or {}
    if 'error' in r:
        return None
    want_a = list(extra.get('func_args', []))
    want_k = dict(extra.get('func_kwargs', {})); want_k['pts'] = None
    for a, k in r.get('model_args') or []:
        if list(a) != want_a or dict((kk, vv) for kk, vv in k) != want_k:
            return 'model function called with extra arguments %r %r, expected %r %r' % (a, k, want_a, sorted(want_k.items()))
    if r.get('func_kwargs_after') is not None and r['func_kwargs_after'] != r.get('func_kwargs_before'):
        return "the caller's func_kwargs dictionary was modified: %r -> %r" % (r.get('func_kwargs_before'), r['func_kwargs_after'])
    return None

def check_spellings(ctx, bases, variants, byid, seen, mode):
    """variants give the very same run as their base (scripted: bit for bit; real: the optimisers are deterministic too)"""
    nbad = 0
    for v in variants:
        b_ = bases[v['kw_base']]
        rb, rv = byid[b_['id']], byid[v['id']]
        ctx.count('%s keyword spelling: %s' % (mode, 'neutral keywords' if (v['call'].get('extra') and set(v['call']['extra']) - {'eq_constraint', 'ieq_constraint'}) else 'left out / positional'))
        extra = (v['call'].get('extra') or {})
        diff = same_run(rb, rv)
        if diff is not None and mode == 'real' and set(extra) & {'epsilon', 'gtol', 'pgtol', 'maxiter', 'algorithm', 'ftol_abs', 'xtol_abs', 'maxeval', 'maxtime', 'stopval', 'local_optimizer', 'ieq_constraint', 'eq_constraint'}:
            diff = None                                   # (these steer a real optimiser; the property clauses are checked on the run)
        margs = extra_args_fail(v, rv)
        ok = diff is None and margs is None
        ctx.obligation('%s call %d (%s%s) spelled [%s] is the run of its keyword form' % (mode, v['id'], v['fn'], '+log_opt' if v.get('log_opt') else '', v.get('spelling', '')),
                       ok, 'predicate', '' if ok else (diff or margs)[:300])
        if ok:
            continue
        nbad += 1
        clause = 'call-spelling-changes-the-run' if diff is not None else 'model-called-with-wrong-extra-arguments'
        key = base.vkey(v, clause)
        if key in seen:
            seen[key] += 1
            continue
        seen[key] = 1
        ctx.violation('%s%s (%s run) %s: %s -- the same call in keyword form: %s' % (
            v['fn'], ' log_opt=True' if v.get('log_opt') else '', mode, call_text(v), diff or margs, call_text(b_)),
            data={'mode': mode, 'case': v, 'impl': rv, 'clause': clause, 'call': call_text(v), 'base_case': b_, 'base_impl': rb}, key=key)
    return nbad

# ------------------------------------------------------------------------------------------------
# real optimisers: the data's parameters beyond the given bound(s)

def safe_model(rng, n, lower, upper, truth):
    """closed-form Spectrum-valued model, entrywise positive for ALL real parameters (a side the user left open is harmless)"""
    m = rng.randint(6, 9)
    basev = [0.0] + [float(rng.randint(16, 48)) * 8 for _ in range(m - 2)] + [0.0]
    cs = [base.inside(rng, lower[i], upper[i]) for i in range(n)]
    quad = [[0.0] + [lib.dyadic(rng, 0.0, 0.5, 5) for _ in range(m - 2)] + [0.0] for _ in range(n)]
    for k in range(n):
        quad[k][1 + k % (m - 2)] = 0.375
    spec = {'base': basev, 'quad': quad, 'lin': [[0.0] * m for _ in range(n)], 'cs': cs}
    data = list(basev)
    for k in range(n):
        for j in range(m):
            data[j] += quad[k][j] * (truth[k] - cs[k]) ** 2
    theta = rng.choice([1.0, 2.0, 0.5])
    spec['data'] = [round(theta * d * 8) / 8 for d in data]
    spec['truth'] = truth
    return spec

REAL_BUDGET = {'optimize_cons': ('maxiter', 40), 'optimize': ('maxiter', 25), 'optimize_log': ('maxiter', 25), 'optimize_lbfgsb': ('maxiter', 400),
               'optimize_log_lbfgsb': ('maxiter', 400), 'optimize_log_fmin': ('maxiter', 60), 'optimize_log_powell': ('maxiter', 6)}

def kw_real_case(rng, rot, fn, log_opt, alg, n, bkind, fkind, multinom):
    logspace = logspace_of(fn, log_opt)
    lower, upper = kw_box(rng, n, True if (logspace or fn in base.NEEDS_POSITIVE) else rot.count('kw real positive') % 2 == 0)
    fixed = fixed_of(rng, rot, n, fkind, lower, upper)
    free = [i for i in range(n) if fixed is None or fixed[i] is None]
    ulo, uhi = user_bounds(rot, bkind, lower, upper, free)
    # the data's parameters: beyond a bound that was given (so that it binds), inside where none was
    truth = [base.inside(rng, lower[i], upper[i]) for i in range(n)]
    k = rot.count('kw press')
    for j, i in enumerate(free):
        w = upper[i] - lower[i]
        lo_given = ulo is not None and ulo[i] is not None
        hi_given = uhi is not None and uhi[i] is not None
        side = None
        if lo_given and hi_given:
            side = 'lo' if (k + j) % 2 else 'hi'
        elif lo_given:
            side = 'lo'
        elif hi_given:
            side = 'hi'
        if side == 'lo':
            truth[i] = lower[i] * 0.5 if logspace or lower[i] > 0 else lower[i] - w * 0.5
        elif side == 'hi':
            truth[i] = upper[i] + w * 0.5
    for i in range(n):
        if i not in free:
            truth[i] = fixed[i]
    c = {'fn': fn, 'log_opt': log_opt, 'algorithm': alg, 'n': n, 'p0': [base.inside(rng, lower[i], upper[i]) for i in range(n)], 'fixed': fixed,
         'lower': ulo, 'upper': uhi, 'multinom': multinom, 'll_scale': rot.next([1, 2, 1, 0.5]) if fn in base.SCALE_FORWARDED else 1,
         'full_output': True, 'model': safe_model(rng, n, lower, upper, truth), 'seed': rng.randint(1, 10 ** 6),
         'box': [list(lower), list(upper)], 'kw': {'bounds': bkind, 'fixed': fkind}}
    if fn == 'opt':
        c['maxeval'] = 150 if alg in base.GLOBAL_NLOPT else 300
        if alg in base.GLOBAL_NLOPT:
            c['global'] = True
    else:
        key, val = REAL_BUDGET[fn]
        c[key] = val
    return c

def gen_kw_real(ctx, only=None, reps=1, rng=None, thorough=None):
    rng = rng or base.sub_rng(ctx, 'kw real')
    rot = base.Rot(ctx.seed + 6)
    thorough = (not ctx.quick) if thorough is None else thorough
    bases, variants = [], []
    for fn, log_opt, alg in base.real_variants():
        if fn == 'optimize_grid' or (only is not None and fn not in only):
            continue
        bkinds = BOUND_KINDS if alg not in base.GLOBAL_NLOPT else ['both']          # (a global search needs a finite box)
        for rep in range(reps):
            for bkind in bkinds:
                k0 = rot.count('kw real fixed')
                fkinds = FIXED_KINDS if thorough else [FIXED_KINDS[k0 % len(FIXED_KINDS)], FIXED_KINDS[(k0 + 2) % len(FIXED_KINDS)]]
                for fkind in fkinds:
                    n = 3 if fkind == 'two' else rot.next([2, 3, 2])
                    c = kw_real_case(rng, rot, fn, log_opt, alg, n, bkind, fkind, bool(rot.count('kw real multinom') % 2))
                    sp = bound_spellings(fn, c)
                    pos, om = sp[rot.count('kw real spelling') % len(sp)]
                    om = list(om)
                    can = other_spellings(rot, fn, c)
                    if can and rot.count('kw real omit') % 2:
                        om.append(can[rot.count('kw real omit which') % len(can)])
                    if fn == 'opt' and pos and 'multinom' in om:
                        om.remove('multinom')
                    extra = {}
                    if rot.count('kw real extra') % 3 == 0:
                        extra = {'func_args': [0.25, 'tag'], 'func_kwargs': {'extra': 1.5}}
                    elif rot.count('kw real extra2') % 4 == 0:
                        extra = {'verbose': 5} if fn == 'opt' else {'verbose': 5, 'flush_delay': 0, 'output_file': True}
                    c = with_call(c, pos, om, extra, label='positional %s / left out %s / with %s' % (pos, om, sorted(extra)))
                    bases.append(c)
    return bases, variants

# ------------------------------------------------------------------------------------------------
# targeted search on the wrappers a broken obligation names

def targeted_search(ctx, fns, seen, run_scripted_clauses, run_real_cases):
    """the keyword-combination streams for these wrappers alone: random boxes, every subset of fixed parameters, every bound
    combination in every spelling, scripts beyond the bounds and real optimisers with the data's parameters beyond the given
    bound(s).  Returns the number of property-clause failures found (each reported with its input)."""
    rng = random.Random('C12/targeted/%d/%s' % (ctx.seed, ','.join(sorted(fns))))
    found = 0
    bases, variants = gen_kw_scripted(ctx, only=fns, reps=ctx.pick(6, 20), rng=rng, all_subsets=True)
    found += run_scripted_clauses(bases + variants, bases, variants)
    rb, _ = gen_kw_real(ctx, only=fns, reps=ctx.pick(2, 6), rng=rng, thorough=True)
    found += run_real_cases(rb)
    ctx.count('targeted search on %s: scripted calls' % ','.join(sorted(fns)), len(bases) + len(variants))
    ctx.count('targeted search on %s: real runs' % ','.join(sorted(fns)), len(rb))
    return found
