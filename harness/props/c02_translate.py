"""Translator obligations shared by C02/C03/C04: the coefficient formulas of integration_shared.c,
the boundary terms / corner guards / coefficient-function wiring of the 15 per-axis kernels and the Python
coefficient functions of Integration.py are re-read from the CURRENT source and proved equal, for all
inputs, to the corresponding definitions of the Coq model (ring / field).  The numpy slice programs with which
_one_pop/_two_pops/_three_pops_const_params assemble the precomputed arrays a, b, c of every axis are executed
symbolically (harness/translate/npslice.py) and every index class of every array is proved equal to the model's
coef_a / coef_b0 / coef_c with the M and V functions and the corner flags the model uses on that line
(python_assembly_obligations; helper lemmas coq/theories/Proofs/PrecalcPython.v).  Fail closed: a source shape the
translator does not recognise is a failed obligation."""
import os, re
from harness import lib
from harness.translate import cshared as cexpr, pyexpr, inject_desc

DADI = os.path.join(lib.REPO, 'dadi')
AX = 'xyzab'
DIMV = 'LMNOP'
IDX = ['ii', 'jj', 'kk', 'll', 'mm']
HDR = '''From Coq Require Import Reals List Lra Lia Arith Bool.
From Dadi Require Import Base.Num Base.NumR Model.Tridiag Model.Scheme.
Import ListNotations. Local Open Scope R_scope.
Ltac nR := unfold nhalf, Scheme.n4 in *; numR_all; unfold n2 in *; numR; try replace (1 + 1) with 2 by lra.
'''

def read(name):
    return open(os.path.join(DADI, name)).read()

def shared_function_obligations(ctx, files):
    try:
        src = cexpr.strip_comments(read('integration_shared.c'))
    except OSError as e:
        ctx.obligation('read integration_shared.c', False, 'translator', str(e)); return
    body = [HDR]
    names = []
    def add(name, stmt, proof):
        body.append(stmt); body.append('Proof. %s Qed.' % proof); names.append(name)
    # --- Vfunc, Vfunc_beta, Mfunc1D..5D
    try:
        ps, ex = cexpr.return_expr(src, 'Vfunc')
        if ps != ['x', 'nu']:
            raise cexpr.Refuse('Vfunc parameters %r' % ps)
        e, _ = cexpr.translate_expr(ex)
        body.append('Definition gen_Vfunc (x nu : R) : R := %s.' % e)
        add('Vfunc', 'Lemma ob_Vfunc : forall x nu, nu <> 0 -> gen_Vfunc x nu = Vfunc nu x.', 'intros. unfold gen_Vfunc, Vfunc. nR. field; auto.')
        ps, ex = cexpr.return_expr(src, 'Vfunc_beta')
        if ps != ['x', 'nu', 'beta']:
            raise cexpr.Refuse('Vfunc_beta parameters %r' % ps)
        e, _ = cexpr.translate_expr(ex)
        body.append('Definition gen_Vfunc_beta (x nu beta : R) : R := %s.' % e)
        add('Vfunc_beta', 'Lemma ob_Vfunc_beta : forall x nu beta, nu <> 0 -> beta <> 0 -> gen_Vfunc_beta x nu beta = Vfunc_beta nu beta x.',
            'intros. unfold gen_Vfunc_beta, Vfunc_beta. nR. field; auto.')
        for d in range(1, 6):
            nm = 'Mfunc%dD' % d
            ps, ex = cexpr.return_expr(src, nm)
            if len(ps) != 1 + 2 * (d - 1) + 2 or ps[0] != 'x' or ps[-2:] != ['gamma', 'h']:
                raise cexpr.Refuse('%s parameters %r' % (nm, ps))
            others = ps[1:d]; ms = ps[d:2 * d - 1]
            e, _ = cexpr.translate_expr(ex)
            body.append('Definition gen_%s %s : R := %s.' % (nm, ' '.join('(%s : R)' % p for p in ps), e))
            add(nm, 'Lemma ob_%s : forall %s, gen_%s %s = Mfunc [%s] [%s] gamma h x.' % (nm, ' '.join(ps), nm, ' '.join(ps), '; '.join(ms), '; '.join(others)),
                'intros. unfold gen_%s, Mfunc, Mmig, Msel, nsum. cbn [map combine fold_right fst snd]. nR. ring.' % nm)
        ctx.obligation('translate Vfunc/Vfunc_beta/Mfunc1D-5D (integration_shared.c)', True, 'translator')
    except cexpr.Refuse as e:
        ctx.obligation('translate Vfunc/Vfunc_beta/Mfunc1D-5D (integration_shared.c)', False, 'translator', str(e))
    # --- loop bodies of compute_dx / compute_dfactor / compute_xInt / compute_delj / compute_abc_nobc
    try:
        def stmts(fn):
            _, b = cexpr.c_function_body(src, fn)
            b = re.sub(r'for\s*\([^)]*\)', '', b)
            out = []
            for s in b.replace('{', ';').replace('}', ';').split(';'):
                s = ' '.join(s.split())
                if not s or re.match(r'^(int|double)\b', s) or s.startswith('return') or s.startswith('if') or s.startswith('else'):
                    if s.startswith('if') or s.startswith('else'):
                        out.append(s)
                    continue
                out.append(s)
            return out
        body.append('Section Shared. Variable xs : list R. Variables Vf Mf : R -> R. Variables nu dt : R. Variable c0 c1 use_delj : bool.')
        body.append('Notation N := (length xs). Notation xx := (x xs). Notation dx := (dx xs). Notation xInt := (xint xs).')
        body.append('Notation dfactor := (dfactor xs). Notation MInt := (fun i => Mf (xint xs i)). Notation V := (fun i => Vf (x xs i)). Notation VInt := (fun i => Vf (xint xs i)).')
        body.append('Notation delj := (Scheme.delj xs Vf Mf use_delj).')
        def tr(e):
            t, _ = cexpr.translate_expr(e)
            return t
        s = stmts('compute_dx')
        if s != ['dx[ii] = xx[ii+1]-xx[ii]']:
            raise cexpr.Refuse('compute_dx statements %r' % s)
        add('dx', 'Lemma ob_dx : forall ii : nat, %s = dx ii.' % tr('xx[ii+1]-xx[ii]'), 'intros. unfold Scheme.dx. replace (ii + 1)%nat with (S ii) by lia. nR. ring.')
        s = stmts('compute_xInt')
        if s != ['xInt[ii] = 0.5*(xx[ii+1]+xx[ii])']:
            raise cexpr.Refuse('compute_xInt statements %r' % s)
        add('xInt', 'Lemma ob_xInt : forall ii : nat, %s = xInt ii.' % tr('0.5*(xx[ii+1]+xx[ii])'), 'intros. unfold Scheme.xint. replace (ii + 1)%nat with (S ii) by lia. nR. lra.')
        s = stmts('compute_dfactor')
        if s != ['dfactor[ii] = 2./(dx[ii] + dx[ii-1])', 'dfactor[0] = 2./dx[0]', 'dfactor[N-1] = 2./dx[N-2]']:
            raise cexpr.Refuse('compute_dfactor statements %r' % s)
        add('dfactor_mid', 'Lemma ob_dfactor_mid : forall ii : nat, ii <> 0%%nat -> ii <> (N - 1)%%nat -> %s = dfactor ii.' % tr('2./(dx[ii] + dx[ii-1])'),
            'intros ii H0 H1. unfold Scheme.dfactor. fold (Scheme.N xs). unfold Scheme.N. destruct (Nat.eqb_spec ii 0); [lia|]. destruct (Nat.eqb_spec ii (N - 1)); [lia|]. nR. reflexivity.')
        add('dfactor_0', 'Lemma ob_dfactor_0 : %s = dfactor 0%%nat.' % tr('2./dx[0]'), 'unfold Scheme.dfactor. cbn [Nat.eqb]. nR. reflexivity.')
        add('dfactor_last', 'Lemma ob_dfactor_last : (N - 1 <> 0)%%nat -> %s = dfactor (N - 1)%%nat.' % tr('2./dx[N-2]'),
            'intros H. unfold Scheme.dfactor. fold (Scheme.N xs). unfold Scheme.N. destruct (Nat.eqb_spec (N - 1) 0); [lia|]. rewrite Nat.eqb_refl. nR. reflexivity.')
        s = stmts('compute_abc_nobc')
        exp = ['a[0] = 0', 'c[N-1] = 0', 'b[ii] = 1./dt',
               'atemp = MInt[ii] * delj[ii] + V[ii]/(2*dx[ii])', 'a[ii+1] = -dfactor[ii+1]*atemp', 'b[ii] += dfactor[ii]*atemp',
               'ctemp = -MInt[ii] * (1 - delj[ii]) + V[ii+1]/(2*dx[ii])', 'b[ii+1] += dfactor[ii+1]*ctemp', 'c[ii] = -dfactor[ii]*ctemp']
        lhs = [x.split('=')[0].strip().rstrip('+').strip() for x in s]
        if lhs != [x.split('=')[0].strip().rstrip('+').strip() for x in exp] or [('+=' in x) for x in s] != [('+=' in x) for x in exp]:
            raise cexpr.Refuse('compute_abc_nobc statement skeleton %r' % s)
        rhs = [x.split('=', 1)[1].strip() for x in s]
        at = tr(rhs[3]); ct = tr(rhs[6])
        add('atemp', 'Lemma ob_atemp : forall ii : nat, %s = atemp xs Vf Mf use_delj ii.' % at, 'intros. unfold Scheme.atemp. nR. ring.')
        add('ctemp', 'Lemma ob_ctemp : forall ii : nat, %s = ctemp xs Vf Mf use_delj ii.' % ct,
            'intros. unfold Scheme.ctemp. replace (ii + 1)%nat with (S ii) by lia. nR. ring.')
        add('a_next', 'Lemma ob_a_next : forall (ii : nat) (atemp : R), atemp = Scheme.atemp xs Vf Mf use_delj ii -> %s = coef_a xs Vf Mf use_delj (ii + 1).' % tr(rhs[4]),
            'intros ii atemp ->. unfold coef_a. destruct (Nat.eqb_spec (ii + 1) 0); [lia|]. replace (ii + 1 - 1)%nat with ii by lia. nR. ring.')
        add('c_cur', 'Lemma ob_c_cur : forall (ii : nat) (ctemp : R), ii <> (N - 1)%%nat -> ctemp = Scheme.ctemp xs Vf Mf use_delj ii -> %s = coef_c xs Vf Mf use_delj ii.' % tr(rhs[8]),
            'intros ii ctemp Hi ->. unfold coef_c. fold (Scheme.N xs). unfold Scheme.N. destruct (Nat.eqb_spec ii (N - 1)); [lia|]. nR. ring.')
        # b: 1/dt + (this interval) dfactor ii * atemp ii + (previous interval) dfactor ii * ctemp (ii-1)
        add('b_sum', ('Lemma ob_b_sum : forall ii : nat, (0 < ii)%%nat -> (ii < N - 1)%%nat -> forall atemp ctemp_prev : R, '
                      'atemp = Scheme.atemp xs Vf Mf use_delj ii -> ctemp_prev = Scheme.ctemp xs Vf Mf use_delj (ii - 1) -> '
                      '%s + %s + (let ctemp := ctemp_prev in let ii := (ii - 1)%%nat in %s) = coef_b xs Vf Mf nu c0 c1 dt use_delj ii.') % (tr(rhs[2]), tr(rhs[5]), tr(rhs[7])),
            ('intros ii H0 H1 atemp ctemp_prev -> ->. unfold coef_b, coef_b0. fold (Scheme.N xs). unfold Scheme.N. '
             'destruct (Nat.ltb_spec ii (N - 1)); [|lia]. destruct (Nat.ltb_spec 0 ii); [|lia]. destruct (Nat.eqb_spec ii 0); [lia|]. destruct (Nat.eqb_spec ii (N - 1)); [lia|]. '
             'cbn zeta. replace (ii - 1 + 1)%nat with ii by lia. nR. ring.'))
        if ' '.join(rhs[0].split()) != '0' or ' '.join(rhs[1].split()) != '0':
            raise cexpr.Refuse('a[0]/c[N-1] not zero')
        s = stmts('compute_delj')
        # expected skeleton
        exp = ['if(!use_delj_trick)', 'delj[ii] = 0.5', 'wj = 2 * MInt[ii] * dx[ii]', 'epsj = exp(wj/VInt[ii])',
               'if((epsj != 1.0) && (wj != 0)) delj[ii] = (-epsj*wj + epsj*VInt[ii] - VInt[ii])/(wj - epsj*wj)', 'else delj[ii] = 0.5']
        norm = lambda x: re.sub(r'\s+', '', x)
        if [norm(x) for x in s] != [norm(x) for x in exp]:
            raise cexpr.Refuse('compute_delj statements %r' % s)
        frm = s[4].split('delj[ii] =', 1)[1].strip()
        add('delj', ('Lemma ob_delj : forall ii : nat, use_delj = true -> forall wj epsj : R, wj = %s -> epsj = %s -> '
                     '(if negb (Reqb epsj 1) && negb (Reqb wj 0) then %s else (1/2)) = delj ii.') % (tr('2 * MInt[ii] * dx[ii]'), tr('exp(wj/VInt[ii])'), tr(frm)),
            'intros ii Hd wj epsj -> ->. unfold Scheme.delj. rewrite Hd. nR. destruct (negb _ && negb _); [unfold Rdiv; ring | lra].')
        body.append('End Shared.')
        ctx.obligation('translate compute_dx/dfactor/xInt/delj/abc_nobc (integration_shared.c)', True, 'translator')
    except cexpr.Refuse as e:
        ctx.obligation('translate compute_dx/dfactor/xInt/delj/abc_nobc (integration_shared.c)', False, 'translator', str(e))
        body.append('End Shared.' if any('Section Shared' in b for b in body) and not any(b == 'End Shared.' for b in body) else '')
    files.append(('C02_ob_shared', '\n'.join(body) + '\n', names))

def kernel_obligations(ctx, files):
    body = [HDR, 'Section K. Variable xs : list R. Variable Mf : R -> R. Variables Mfirst Mlast : R.',
            'Notation N := (length xs).']
    names = []
    for d in range(1, 6):
        try:
            src = cexpr.strip_comments(read('integration%dD.c' % d))
        except OSError as e:
            ctx.obligation('read integration%dD.c' % d, False, 'translator', str(e)); continue
        for k in range(d):
            fn = 'implicit_%dD%s' % (d, AX[k])
            try:
                params, b = cexpr.c_function_body(src, fn)
                nb = re.sub(r'\s+', '', b)
                dimv = DIMV[k]; dxn = 'd' + AX[k]; grid = AX[k] * 2
                nu = 'nu' if d == 1 else 'nu%d' % (k + 1)
                # --- boundary terms
                m0 = re.search(r'b\[0\]\+=([^;]*);', nb); m1 = re.search(r'b\[%s-1\]\+=([^;]*);' % dimv, nb)
                if not m0 or not m1:
                    raise cexpr.Refuse('boundary lines not found')
                e0, p0 = cexpr.translate_expr(m0.group(1)); e1, p1 = cexpr.translate_expr(m1.group(1))
                if sorted(p0.ids) != sorted([nu, 'Mfirst']) or p0.arrays != [dxn] or sorted(p1.ids) != sorted([nu, 'Mlast']) or p1.arrays != [dxn]:
                    raise cexpr.Refuse('boundary term uses %r %r / %r %r' % (p0.ids, p0.arrays, p1.ids, p1.arrays))
                e0 = e0.replace(dxn + ' ', 'dx xs ').replace(nu, 'nu_'); e1 = e1.replace(dxn + ' ', 'dx xs ').replace(nu, 'nu_').replace('(%s - 2%%nat)%%nat' % dimv, '(N - 2)%nat')
                body.append('Lemma ob_%s_bc0 : forall nu_ : R, x xs 0 = x xs 0 -> Mfirst = Mf (x xs 0) -> %s = (nhalf / nu_ - Mf (x xs 0)) * n2 / dx xs 0.' % (fn, e0))
                body.append('Proof. intros nu_ _ ->. nR. lra. Qed.')
                body.append('Lemma ob_%s_bc1 : forall nu_ : R, Mlast = Mf (x xs (N - 1)) -> %s = - (- (nhalf / nu_) - Mf (x xs (N - 1))) * n2 / dx xs (N - 2).' % (fn, e1))
                body.append('Proof. intros nu_ ->. nR. lra. Qed.')
                names += [fn + '_bc0', fn + '_bc1']
                # --- guards: every other axis compared with 0 (first) and 1 (last); sign tests on Mfirst / Mlast
                if d == 1:
                    g0 = re.search(r'if\(()Mfirst<=0\)b\[0\]', nb)
                    g1 = re.search(r'if\(()Mlast>=0\)b\[%s-1\]' % dimv, nb)
                else:
                    g0 = re.search(r'if\(((?:\(\w+\[\w+\]==0\)&&)*)\(Mfirst<=0\)\)b\[0\]', nb)
                    g1 = re.search(r'if\(((?:\(\w+\[\w+\]==1\)&&)*)\(Mlast>=0\)\)b\[%s-1\]' % dimv, nb)
                if not g0 or not g1:
                    raise cexpr.Refuse('corner guards not recognised')
                want = sorted('%s[%s]' % (AX[j] * 2, IDX[j]) for j in range(d) if j != k)
                got0 = sorted(re.findall(r'\((\w+\[\w+\])==0\)', g0.group(1)))
                got1 = sorted(re.findall(r'\((\w+\[\w+\])==1\)', g1.group(1)))
                if got0 != want or got1 != want:
                    raise cexpr.Refuse('corner guards test %r / %r, expected %r' % (got0, got1, want))
                # --- coefficient-function wiring: Mfunc{d}D(<own grid point>, other coords in axis order, m's in signature order, gamma, h)
                sig = re.sub(r'\s+', ' ', params)
                if d == 1:
                    margs = ['gamma', 'h']; coord_locals = []
                else:
                    ms = re.findall(r'double (m\d\d)', sig)
                    expect_ms = ['m%d%d' % (k + 1, j + 1) for j in range(d) if j != k]
                    if ms != expect_ms:
                        raise cexpr.Refuse('signature migration parameters %r, expected %r' % (ms, expect_ms))
                    coord_locals = []
                    for j in range(d):
                        if j == k:
                            continue
                        mm = re.search(r'(\w+)=%s\[%s\];' % (AX[j] * 2, IDX[j]), nb)
                        if not mm:
                            raise cexpr.Refuse('local coordinate for axis %d not found' % j)
                        coord_locals.append(mm.group(1))
                    margs = coord_locals + ms + ['gamma%d' % (k + 1), 'h%d' % (k + 1)]
                for what, first in (('Mfirst', '%s[0]' % grid), ('Mlast', '%s[%s-1]' % (grid, dimv)), ('MInt[%s]' % IDX[k], '%sInt[%s]' % (AX[k], IDX[k]))):
                    mm = re.search(re.escape(what) + r'=Mfunc%dD\(([^;]*)\);' % d, nb)
                    if not mm or mm.group(1).split(',') != [first] + margs:
                        raise cexpr.Refuse('%s = Mfunc%dD(%s), expected (%s)' % (what, d, mm.group(1) if mm else '?', ','.join([first] + margs)))
                vf = 'Vfunc_beta' if d == 1 else 'Vfunc'
                extra = ',beta' if d == 1 else ''
                if not re.search(r'V\[%s\]=%s\(%s\[%s\],%s%s\);' % (IDX[k], vf, grid, IDX[k], nu, extra), nb) or \
                   not re.search(r'VInt\[%s\]=%s\(%sInt\[%s\],%s%s\);' % (IDX[k], vf, AX[k], IDX[k], nu, extra), nb):
                    raise cexpr.Refuse('V / VInt wiring')
                # --- the per-line quantities are recomputed unconditionally for every line: the only conditionals in a
                #     kernel are the two corner guards
                nif = len(re.findall(r'\bif\(', nb))
                if nif != 2:
                    raise cexpr.Refuse('%d conditionals in the kernel body, expected exactly the two corner guards' % nif)
                # --- shared helpers called on this axis' grid with this axis' length
                for call in ('compute_dx(%s,%s,%s);' % (grid, dimv, dxn), 'compute_dfactor(%s,%s,dfactor);' % (dxn, dimv), 'compute_xInt(%s,%s,%sInt);' % (grid, dimv, AX[k]),
                             'compute_delj(%s,MInt,VInt,%s,delj,use_delj_trick);' % (dxn, dimv), 'compute_abc_nobc(%s,dfactor,delj,MInt,V,dt,%s,a,b,c);' % (dxn, dimv)):
                    if call not in nb:
                        raise cexpr.Refuse('missing call %s' % call)
                # --- right-hand side and write-back use the same C-order flat index
                strides = []
                for j in range(d):
                    st = '*'.join(DIMV[j + 1:d])
                    strides.append(IDX[j] + ('*' + st if st else ''))
                flat = '+'.join(strides)
                if d == 1:
                    ok_rhs = 'r[ii]=phi[ii]/dt;' in nb and 'tridiag(a,b,c,r,phi,L);' in nb
                elif k == d - 1:
                    # last axis: lines are contiguous, the solver writes straight into &phi[start of line]
                    base = '+'.join(strides[:-1])
                    ok_rhs = ('r[%s]=phi[%s]/dt;' % (IDX[k], flat)) in nb and ('tridiag_premalloc(a,b,c,r,&phi[%s],%s);' % (base, dimv)) in nb
                else:
                    ok_rhs = ('r[%s]=phi[%s]/dt;' % (IDX[k], flat)) in nb and ('phi[%s]=temp[%s];' % (flat, IDX[k])) in nb and ('tridiag_premalloc(a,b,c,r,temp,%s);' % dimv) in nb
                if not ok_rhs:
                    raise cexpr.Refuse('right-hand side / write-back index is not the C-order flat index %s' % flat)
                ctx.obligation('kernel descriptor %s (boundary terms, corner guards, M/V wiring, helper calls, flat index)' % fn, True, 'translator')
            except cexpr.Refuse as e:
                ctx.obligation('kernel descriptor %s (boundary terms, corner guards, M/V wiring, helper calls, flat index)' % fn, False, 'translator', str(e))
    body.append('End K.')
    files.append(('C02_ob_kernels', '\n'.join(body) + '\n', names))

def python_obligations(ctx, files):
    path = os.path.join(DADI, 'Integration.py')
    body = [HDR]
    names = []
    try:
        t, ps, _ = pyexpr.translate_function(path, '_Vfunc', funcs={})
        if ps != ['x', 'nu', 'beta']:
            raise pyexpr.Refuse('_Vfunc parameters %r' % ps)
        body.append(t)
        body.append('Lemma ob_py_Vfunc : forall x nu beta, nu <> 0 -> beta <> 0 -> gen__Vfunc x nu beta = Vfunc_beta nu beta x.')
        body.append('Proof. intros. unfold gen__Vfunc, Vfunc_beta. nR. field; auto. Qed.')
        names.append('py_Vfunc')
        for d in (1, 2, 3):
            nm = '_Mfunc%dD' % d
            t, ps, _ = pyexpr.translate_function(path, nm, funcs={})
            if len(ps) != 1 + 2 * (d - 1) + 2 or ps[0] != 'x' or ps[-2:] != ['gamma', 'h']:
                raise pyexpr.Refuse('%s parameters %r' % (nm, ps))
            others = ps[1:d]; ms = ps[d:2 * d - 1]
            body.append(t)
            body.append('Lemma ob_py%s : forall %s, gen_%s %s = Mfunc [%s] [%s] gamma h x.' % (nm, ' '.join(ps), nm, ' '.join(ps), '; '.join(ms), '; '.join(others)))
            body.append('Proof. intros. unfold gen_%s, Mfunc, Mmig, Msel, nsum. cbn [map combine fold_right fst snd]. nR. ring. Qed.' % nm)
            names.append('py' + nm)
        ctx.obligation('translate _Vfunc/_Mfunc1D-3D (Integration.py)', True, 'translator')
    except (pyexpr.Refuse, SyntaxError, OSError) as e:
        ctx.obligation('translate _Vfunc/_Mfunc1D-3D (Integration.py)', False, 'translator', str(e))
    # --- mutation influx: _inject_mutations_{1..5}D = inject_amount of the model, guarded by exactly the population's own flags
    body.append('From Dadi Require Import Model.NDSweep.')
    for d in range(1, 6):
        try:
            args, ents = inject_desc.extract(path, d)
            gr = inject_desc.GRIDS[:d]
            if [e['k'] for e in ents] != list(range(d)):
                raise pyexpr.Refuse('populations injected: %r' % [e['k'] for e in ents])
            for e in ents:
                k = e['k']
                want = [] if d == 1 else (['frozen%d' % (k + 1), 'nomut%d' % (k + 1)] if d == 2 else ['frozen%d' % (k + 1)])
                if e['guard'] != want:
                    raise pyexpr.Refuse('population %d is guarded by %r, expected %r' % (k + 1, e['guard'], want))
                hyps = ' -> '.join(['nthF %s 1%%nat <> 0' % g for g in gr] + ['nthF %s 2%%nat - nthF %s 0%%nat <> 0' % (gr[k], gr[k])])
                body.append('Lemma ob_inject_%dD_%d : forall (%s : list R) (theta0 dt : R), %s -> %s = inject_amount [%s] %d %d theta0 dt.' % (
                    d, k + 1, ' '.join(gr), hyps, e['term'], '; '.join(gr), d, k))
                body.append('Proof. intros. unfold inject_amount, nprod, npow. cbn [seq map fold_right nth Nat.eqb]. nR. field. repeat split; assumption. Qed.')
                names.append('inject_%dD_%d' % (d, k + 1))
            ctx.obligation('translate _inject_mutations_%dD (guards and influx formula)' % d, True, 'translator')
        except (pyexpr.Refuse, SyntaxError, OSError) as e:
            ctx.obligation('translate _inject_mutations_%dD (guards and influx formula)' % d, False, 'translator', str(e))
    # --- time-step rule: the maxVM expression of _compute_dt = maxVM of the model (Rmax/Rabs)
    try:
        import ast as _ast
        tree = _ast.parse(open(path).read())
        fn = [n for n in tree.body if isinstance(n, _ast.FunctionDef) and n.name == '_compute_dt'][0]
        if [a.arg for a in fn.args.args] != ['dx', 'nu', 'ms', 'gamma', 'h']:
            raise pyexpr.Refuse('_compute_dt parameters')
        asg = [n for n in _ast.walk(fn) if isinstance(n, _ast.Assign) and isinstance(n.targets[0], _ast.Name) and n.targets[0].id == 'maxVM']
        if len(asg) != 1:
            raise pyexpr.Refuse('maxVM assigned %d times' % len(asg))
        def tr(e):
            if isinstance(e, _ast.BinOp):
                op = {_ast.Add: '+', _ast.Sub: '-', _ast.Mult: '*', _ast.Div: '/'}.get(type(e.op))
                if op is None:
                    raise pyexpr.Refuse('operator')
                return '(%s %s %s)' % (tr(e.left), op, tr(e.right))
            if isinstance(e, _ast.Constant):
                return pyexpr.const_to_coq(e.value)
            if isinstance(e, _ast.Name) and e.id in ('nu', 'gamma', 'h'):
                return e.id
            if isinstance(e, _ast.Call):
                f = e.func
                nm = f.attr if isinstance(f, _ast.Attribute) else getattr(f, 'id', None)
                if nm == 'max' and len(e.args) >= 2 and not e.keywords:
                    t = tr(e.args[0])
                    for a in e.args[1:]:
                        t = '(Rmax %s %s)' % (t, tr(a))
                    return t
                if nm == 'abs' and len(e.args) == 1:
                    return '(Rabs %s)' % tr(e.args[0])
                if nm == 'sum' and len(e.args) == 1 and isinstance(e.args[0], _ast.Name) and e.args[0].id == 'ms':
                    return '(nsum ms)'
            raise pyexpr.Refuse('expression in maxVM')
        term = tr(asg[0].value)
        # the rest of the rule: dt = timescale_factor / maxVM when maxVM > 0
        src_fn = _ast.get_source_segment(open(path).read(), fn)
        if 'dt = timescale_factor / maxVM' not in src_fn or 'if maxVM > 0:' not in src_fn:
            raise pyexpr.Refuse('dt = timescale_factor / maxVM under maxVM > 0 not found')
        body.append('Lemma nmax_Rmax (a b : R) : nmax a b = Rmax a b.')
        body.append('Proof. unfold nmax, Rmax. numR. unfold Rleb. destruct (Rle_dec a b); reflexivity. Qed.')
        body.append('Lemma nabs_Rabs (a : R) : nabs a = Rabs a.')
        body.append('Proof. unfold nabs. numR. unfold Rleb, Rabs. destruct (Rle_dec 0 a) as [H|H]; destruct (Rcase_abs a) as [H1|H1]; try lra; reflexivity. Qed.')
        body.append('Lemma ob_compute_dt_maxVM : forall (nu gamma h : R) (ms : list R) beta fr nm, nu <> 0 ->')
        body.append('  %s = maxVM {| p_nu := nu; p_gamma := gamma; p_h := h; p_beta := beta; p_ms := ms; p_frozen := fr; p_nomut := nm |}.' % term)
        body.append('Proof. intros. unfold maxVM, quarter. cbn [p_nu p_gamma p_h p_ms]. rewrite !nmax_Rmax, !nabs_Rabs. nR.')
        body.append('  replace (1 / (2 * 2)) with (1 / 4) by lra. rewrite <- ?Rmult_assoc.')
        body.append('  repeat match goal with |- Rmax _ _ = Rmax _ _ => apply (f_equal2 Rmax) | |- ?a * Rmax _ _ = ?a * Rmax _ _ => apply (f_equal2 Rmult); [reflexivity|] end;')
        body.append('  first [reflexivity | ring | lra | (field; assumption)]. Qed.')
        names.append('compute_dt_maxVM')
        ctx.obligation('translate the time-step rule _compute_dt (maxVM expression, dt = timescale_factor/maxVM)', True, 'translator')
    except (pyexpr.Refuse, SyntaxError, OSError, IndexError) as e:
        ctx.obligation('translate the time-step rule _compute_dt (maxVM expression, dt = timescale_factor/maxVM)', False, 'translator', str(e))
    files.append(('C02_ob_python', '\n'.join(body) + '\n', names))

# ------------------------------------------------------------------------------------------------------------------
# The Python coefficient assembly of the constant-parameter drivers (numpy slice arithmetic) = the model's precomputed
# coefficients coef_a / coef_b0 / coef_c, index class by index class (translator harness/translate/npslice.py,
# helper lemmas and tactics coq/theories/Proofs/PrecalcPython.v).

PY_DRIVERS = {1: '_one_pop_const_params', 2: '_two_pops_const_params', 3: '_three_pops_const_params'}
PY_HDR = '''From Coq Require Import Reals List Lra Lia Arith Bool.
From Dadi Require Import Base.Num Base.NumR Model.Tridiag Model.Scheme Model.NDSweep Proofs.PrecalcPython.
Import ListNotations. Local Open Scope R_scope.
'''
PY_SYM = ['i0', 'i1', 'i2']

def _py_wiring(d, k):
    """what the model expects on axis k of the d-population driver, in the driver's own parameter names"""
    sfx = '' if d == 1 else str(k + 1)
    return {'nu': 'nu' + sfx, 'gamma': 'gamma' + sfx, 'h': 'h' + sfx, 'beta': 'beta' if d == 1 else '1',
            'ms': ['m%d%d' % (k + 1, j + 1) for j in range(d) if j != k], 'others': [j for j in range(d) if j != k]}

def _py_classes(d, k, role):
    """index classes to evaluate: list of (tag, index tuple, c0 text, c1 text).  Swept axis k: first / generic interior /
    last point.  Other axes: an arbitrary index where the boundary placement cannot reach (a, c everywhere; b at an
    interior point), else every combination of first / interior / last (b at the first and at the last point)."""
    from harness.translate import npslice as nps
    import itertools
    pts = [('first', ('c', 0)), ('mid', ('s', PY_SYM[k], 0)), ('last', ('e', 0))]
    others = [j for j in range(d) if j != k]
    out = []
    for pn, p in pts:
        if role != 'b' or pn == 'mid' or not others:
            idx = [None] * d
            idx[k] = p
            for j in others:
                idx[j] = ('a', PY_SYM[j])
            c0 = c1 = 'true' if not others else None      # None: irrelevant (quantified)
            out.append((pn, tuple(idx), c0, c1))
        else:
            for combo in itertools.product(['first', 'mid', 'last'], repeat=len(others)):
                idx = [None] * d
                idx[k] = p
                for j, cn in zip(others, combo):
                    idx[j] = {'first': ('c', 0), 'mid': ('s', PY_SYM[j], 0), 'last': ('e', 0)}[cn]
                c0 = 'true' if all(cn == 'first' for cn in combo) else 'false'
                c1 = 'true' if all(cn == 'last' for cn in combo) else 'false'
                out.append((pn + '_' + ''.join(cn[0] for cn in combo), tuple(idx), c0, c1))
    return out

def python_assembly_obligations(ctx, files):
    from harness.translate import npslice as nps
    path = os.path.join(DADI, 'Integration.py')
    try:
        module = nps.Module(path)
    except (OSError, SyntaxError) as e:
        ctx.obligation('read Integration.py for the coefficient assembly', False, 'translator', str(e)); return
    for d in (1, 2, 3):
        fname = PY_DRIVERS[d]
        what = 'translate the coefficient assembly of %s (numpy slice program -> index-class terms)' % fname
        try:
            ex, env, params, tail = nps.run_assembly(module, fname, d)
            scal = [p for p in params[2:]]
            cands = set(n for n, v in env.items() if isinstance(v, nps.Arr) and v.mutable)
            wiring = nps.tail_wiring(tail, d, cands)
            per_axis = {}
            for k in range(d):
                w = _py_wiring(d, k)
                need = [w['nu'], w['gamma'], w['h']] + w['ms'] + (['beta'] if d == 1 else [])
                for n in need:
                    if n not in scal:
                        raise nps.Refuse('%s has no parameter %s' % (fname, n))
                if w['nu'] not in ex.nonzero:
                    raise nps.Refuse('%s does not reject %s = 0' % (fname, w['nu']))
                lem = []
                for role, arrname in zip('abc', wiring[k]):
                    arr = env.get(arrname)
                    if not isinstance(arr, nps.Arr) or arr.shape != (('n', 0),) * d:
                        raise nps.Refuse('%s handed to the kernel of axis %s is not an array of the shape of phi' % (arrname, AX[k]))
                    for tagc, idx, c0, c1 in _py_classes(d, k, role):
                        lem.append((role, arrname, tagc, idx, c0, c1, arr.fn(idx)))
                per_axis[k] = lem
            defs = dict(ex.defs)
            ctx.obligation(what, True, 'translator')
        except nps.Refuse as e:
            ctx.obligation(what, False, 'translator', str(e)); continue
        except RecursionError as e:
            ctx.obligation(what, False, 'translator', 'recursion limit'); continue
        for k in range(d):
            # 3-D: one file per class (first / interior / last) of the first other axis, to keep the longest coqc run short;
            # the a, c and b-interior lemmas every closing theorem needs are repeated in each of the three files
            for shard in ([None] if d < 3 else ['f', 'm', 'l']):
                try:
                    text, names = _py_axis_file(nps, d, k, scal, per_axis[k], defs, shard)
                    files.append(('C02_ob_pyasm_%dD%s%s' % (d, AX[k], ('_' + shard) if shard else ''), text, names))
                except nps.Refuse as e:
                    ctx.obligation('emit the coefficient obligations of %s, axis %s' % (fname, AX[k]), False, 'translator', str(e))

def _py_axis_file(nps, d, k, scal, lemmas, defs, shard=None):
    w = _py_wiring(d, k)
    if shard:
        lemmas = [lm for lm in lemmas if '_' not in lm[2] or lm[2].split('_')[1][0] == shard]
    used = set(w['ms'] + [w['nu'], w['gamma'], w['h']] + (['beta'] if d == 1 else []))
    for lm in lemmas:
        used.update(s_[1] for s_ in nps.walk(lm[6]) if s_[0] == 'var')
    for n_ in used:
        if n_ not in scal:
            raise nps.Refuse('free variable %s that is not a parameter of the driver' % n_)
    body = [PY_HDR, 'Section PyAsm.', 'Variable xs : list R.', 'Variables %s : R.' % ' '.join(p_ for p_ in scal if p_ in used), 'Variable use_delj_trick : bool.',
            'Notation N := (length xs).', 'Notation dj := use_delj_trick.']
    names = []
    # --- elementwise helper summaries (only _compute_delj): one scalar Definition, proved equal to the model's delta_j
    for cname, (flags, ps, t) in sorted(defs.items()):
        if cname != 'py__compute_delj' or list(flags) != ['use_delj_trick'] or list(ps) != ['dx', 'MInt', 'VInt']:
            raise nps.Refuse('unexpected helper summary %s %r %r' % (cname, flags, ps))
        body.append('Definition %s (use_delj_trick : bool) (dx MInt VInt : R) : R :=\n  %s.' % (cname, nps.term_coq(t)))
        body.append('Lemma ob_%s : forall dx MInt VInt : R, %s dj dx MInt VInt = delj_parts dj dx MInt VInt.' % (cname, cname))
        body.append('Proof. intros. unfold %s, delj_parts. destruct dj; [|reflexivity]. cbn zeta.\n'
                    '  apply (delj_filter_ok (2 * MInt * dx) (exp (2 * MInt * dx / VInt)) VInt); ring. Qed.' % cname)
        names.append(cname[3:])
    Vf = '(Vfunc_beta %s %s)' % (w['nu'], w['beta'])
    info = {}
    for role, arrname, tagc, idx, c0, c1, term in lemmas:
        os_ = '; '.join('x xs %s' % nps.idx_coq(idx[j]) for j in w['others'])
        Mf = '(Mfunc [%s] [%s] %s %s)' % ('; '.join(w['ms']), os_, w['gamma'], w['h'])
        p = idx[k]
        pi = nps.idx_coq(p)
        binders = []; hyps = ['(2 <= N)%nat', '(forall p, (S p < N)%nat -> x xs p < x xs (S p))', '%s <> 0' % w['nu']]
        if d == 1:
            hyps.append('beta <> 0')       # not validated by the Python code: precondition of the obligation
        for q in idx:
            if q[0] in ('s', 'a'):
                binders.append(q[1])
            if q[0] == 's':
                hyps += ['(1 <= %s)%%nat' % q[1], '(%s <= N - 2)%%nat' % q[1]]
        quant_c = ''
        if role == 'b' and c0 is None:
            quant_c = ' (c0 c1 : bool)'; c0, c1 = 'c0', 'c1'
        gname = 'py%dD%s_%s_%s' % (d, AX[k], role, tagc)
        body.append('Definition %s %s: R :=\n  %s.' % (gname, ''.join('(%s : nat) ' % b_ for b_ in binders), nps.term_coq(term)))
        if role == 'a':
            rhs = 'coef_a xs %s %s dj %s' % (Vf, Mf, pi)
        elif role == 'c':
            rhs = 'coef_c xs %s %s dj %s' % (Vf, Mf, pi)
        else:
            rhs = 'coef_b0 xs %s %s %s %s %s dj %s' % (Vf, Mf, w['nu'], c0, c1, pi)
        qs = ' '.join('(%s : nat)' % b_ for b_ in binders) + quant_c
        body.append('Lemma ob_%s : %s%s ->\n  %s %s = %s.' % (gname, ('forall %s, ' % qs) if qs.strip() else '', ' -> '.join(hyps), gname, ' '.join(binders), rhs))
        # --- proof script
        sc = ['intros %s%s Hn Hinc Hnu%s%s.' % (' '.join(binders), ' c0 c1' if quant_c else '', ' Hbeta' if d == 1 else '',
                                              ''.join(' Hlo_%s Hhi_%s' % (q[1], q[1]) for q in idx if q[0] == 's'))]
        # grid spacing facts for the intervals that occur
        pcls = tagc.split('_')[0]
        iv = {'first': ['0%nat'], 'last': ['(N - 2)%nat'], 'mid': ['(%s - 1)%%nat' % p[1], p[1]] if p[0] == 's' else []}[pcls]
        for n_, t_ in enumerate(iv):
            sc.append('pose proof (Hinc %s ltac:(lia)) as Hd%d.' % (t_, n_))
        if pcls == 'last':
            sc.append('replace (S (N - 2)) with (N - 1)%nat in Hd0 by lia.')
        if pcls == 'mid':
            sc.append('replace (S (%s - 1)) with %s in Hd0 by lia.' % (p[1], p[1]))
        sc.append('unfold Scheme.x, nthF in %s.' % ', '.join('Hd%d' % n_ for n_ in range(len(iv))))
        sc.append('unfold %s. rewrite ?ob_py__compute_delj.' % gname)
        # the delj occurrences: which intervals
        ivd = {('a', 'first'): [], ('a', 'mid'): [iv[0]] if iv else [], ('a', 'last'): iv, ('c', 'first'): iv, ('c', 'mid'): iv[1:], ('c', 'last'): [],
               ('b', 'first'): iv, ('b', 'mid'): iv, ('b', 'last'): iv}[(role, tagc.split('_')[0])]
        for t_ in ivd:      # (a different number of occurrences in the source leaves an occurrence unfolded: the lemma fails)
            sc.append('try (py_fold_delj xs %s %s dj %s).' % (Vf, Mf, t_))
        sc.append('unfold %s, dfactor, Scheme.N. py_nat_dec. cbn [andb]. py_idx_norm. pnR.' % {'a': 'coef_a, atemp', 'c': 'coef_c, ctemp', 'b': 'coef_b0, bc0, bc1, atemp, ctemp'}[role])
        conds = nps.conds_of(term)
        for c in conds:
            if c[2] == nps.ZERO:
                sc.append('py_guard_le0 (%s (x xs 0%%nat)).' % Mf)
            elif c[1] == nps.ZERO:
                sc.append('py_guard_ge0 (%s (x xs (N - 1)%%nat)).' % Mf)
            else:
                raise nps.Refuse('%s: guard that does not compare with 0' % gname)
        sc.append('repeat match goal with |- context [Rleb ?a ?b] => destruct (Rleb a b) end;')
        sc.append('  py_unfold_pointwise; field; py_side.')
        body.append('Proof.\n  ' + '\n  '.join(sc) + '\nQed.')
        names.append(gname)
        info[gname] = [j for j, q in enumerate(idx) if q[0] in ('s', 'a')]
    # --- closing theorems, one per class of line: the three arrays restricted to a line (first / interior / last point)
    #     make the precomputed-coefficient solve equal to the model's line solve with that line's M and corner flags
    import itertools
    others = w['others']
    for combo in itertools.product(['first', 'mid', 'last'], repeat=len(others)):
        if shard and combo[0][0] != shard:
            continue
        lidx = {j: {'first': ('c', 0), 'mid': ('s', PY_SYM[j], 0), 'last': ('e', 0)}[cn] for j, cn in zip(others, combo)}
        ctag = ''.join(cn[0] for cn in combo)
        obs = []
        def app(role, pcls):
            g = 'py%dD%s_%s_%s' % (d, AX[k], role, pcls)
            if role == 'b' and pcls != 'mid' and others:
                g += '_' + ctag
            obs.append('apply ob_' + g)
            args = ['i' if j == k else nps.idx_coq(lidx[j]) for j in info[g]]
            return ('(%s %s)' % (g, ' '.join(args))) if args else g
        def fun(role):
            return '(fun i : nat => if Nat.eqb i 0 then %s else if Nat.eqb i (N - 1) then %s else %s)' % (app(role, 'first'), app(role, 'last'), app(role, 'mid'))
        fa, fb, fc = fun('a'), fun('b'), fun('c')
        os_ = '; '.join('x xs %s' % nps.idx_coq(lidx[j]) for j in others)
        Mf = '(Mfunc [%s] [%s] %s %s)' % ('; '.join(w['ms']), os_, w['gamma'], w['h'])
        c0 = 'true' if all(cn == 'first' for cn in combo) else 'false'
        c1 = 'true' if all(cn == 'last' for cn in combo) else 'false'
        mids = [PY_SYM[j] for j, cn in zip(others, combo) if cn == 'mid']
        hyps = ['(2 <= N)%nat', '(forall p, (S p < N)%nat -> x xs p < x xs (S p))', '%s <> 0' % w['nu']] + (['beta <> 0'] if d == 1 else [])
        for m_ in mids:
            hyps += ['(1 <= %s)%%nat' % m_, '(%s <= N - 2)%%nat' % m_]
        tname = 'py%dD%s_line%s' % (d, AX[k], ('_' + ctag) if ctag else '')
        body.append('Theorem %s : %s%s ->\n  forall (dt : R) (phi : list R), length phi = N ->\n  precalc_solve (map %s (seq 0 N))\n    (map %s (seq 0 N))\n    (map %s (seq 0 N)) dt phi\n  = line_solve xs %s %s %s %s %s dt dj phi.' % (
            tname, ('forall %s, ' % ' '.join('(%s : nat)' % m_ for m_ in mids)) if mids else '', ' -> '.join(hyps), fa, fb, fc, Vf, Mf, w['nu'], c0, c1))
        # obs order: a first,last,mid ; b first,last,mid ; c first,last,mid   -> goal order first,mid,last per array
        order = [0, 2, 1, 3, 5, 4, 6, 8, 7]
        body.append('Proof.\n  intros. apply (python_coefficients_give_model_line xs %s %s %s %s %s dj\n    %s\n    %s\n    %s); try assumption.\n' % (Vf, Mf, w['nu'], c0, c1, fa, fb, fc)
                    + '\n'.join('  - intros; cbn beta; repeat match goal with |- context [Nat.eqb ?a ?b] => destruct (Nat.eqb_spec a b); try lia end; %s; assumption.' % obs[o_] for o_ in order)
                    + '\nQed.')
        names.append(tname)
        # the same line through the model's d-dimensional vocabulary: on a grid running from exactly 0 to exactly 1 the
        # index placement of the absorbing terms ([0,..,0] / [-1,..,-1]) is the by-value corner test of sweep_line
        cname_ = 'py%dD%s_sweep_line%s' % (d, AX[k], ('_' + ctag) if ctag else '')
        pop_ = '{| p_nu := %s; p_gamma := %s; p_h := %s; p_beta := %s; p_ms := [%s]; p_frozen := fr; p_nomut := nm |}' % (
            w['nu'], w['gamma'], w['h'], w['beta'], '; '.join(w['ms']))
        js_ = '; '.join(nps.idx_coq(lidx[j]) for j in others)
        body.append('Corollary %s : forall %s(fr nm : bool), %s -> x xs 0%%nat = 0 -> x xs (N - 1)%%nat = 1 ->\n  forall (dt : R) (phi : list R), length phi = N ->\n  precalc_solve (map %s (seq 0 N))\n    (map %s (seq 0 N))\n    (map %s (seq 0 N)) dt phi\n  = sweep_line [%s] %s %d%%nat [%s] dt dj phi.' % (
            cname_, ''.join('(%s : nat) ' % m_ for m_ in mids), ' -> '.join(hyps), fa, fb, fc, '; '.join(['xs'] * d), pop_, k, os_))
        body.append('Proof.\n  intros. unfold sweep_line. cbn [nth p_nu p_gamma p_h p_beta p_ms]. numR.\n'
                    '  destruct (corner_flags_by_index xs [%s] ltac:(assumption) ltac:(assumption) ltac:(assumption) ltac:(assumption) ltac:(repeat constructor; lia)) as [E0 E1].\n'
                    '  cbn [map] in E0, E1. rewrite E0, E1. cbn [forallb]. py_nat_dec. cbn [andb]. apply %s; assumption.\nQed.' % (js_, tname))
        names.append(cname_)
    body.append('End PyAsm.')
    return '\n'.join(body) + '\n', names

_CACHE = {}

def obligations(ctx, tag='C02'):
    files = []
    shared_function_obligations(ctx, files)
    kernel_obligations(ctx, files)
    python_obligations(ctx, files)
    python_assembly_obligations(ctx, files)
    res = lib.run_case_files([(n.replace('C02', tag), t) for n, t, _ in files], timeout=600)
    for (n, t, names) in files:
        rc, so, se, secs = res[n.replace('C02', tag)]
        detail = ''
        if rc:
            # name the lemma the first error falls in
            mm = re.search(r'line (\d+)', se)
            if mm:
                heads = re.findall(r'^(?:Lemma|Theorem) (\w+)', '\n'.join(t.split('\n')[:int(mm.group(1))]), re.M)
                detail = ('first failing lemma: %s; ' % heads[-1]) if heads else ''
            detail += se[-600:]
        ctx.obligation('generated obligations %s: %d lemmas (source formula = model definition, ring/field)' % (n.replace('C02', tag), len(names)), rc == 0, 'translator', detail)
    ctx.checker_cmds.append('coqc build/cases/%s_ob_{shared,kernels,python,pyasm_1Dx,pyasm_2D{x,y},pyasm_3D{x,y,z}_{f,m,l}}.v (regenerated from dadi/integration*.c, Integration.py)' % tag)
    ctx.trusted.append('translators harness/translate/cexpr.py, pyexpr.py, npslice.py (numpy slice dialect of the constant-parameter drivers; reading of the nan/inf filter on a quotient as "denominator = 0") and the kernel descriptor patterns in harness/props/c02_translate.py (fail-closed)')
