"""Translator obligations for C02 (placeholder: filled in below)."""
def obligations(ctx):
    pass
