"""C03 — integration is linear in (density, theta0) and independent of the reference size.

Static theorems: coq/theories/Props/C03.v (line-level linearity and rescale invariance, Thomas linearity/scaling,
V/M transformation laws).  Per run: the shared translator obligations (coefficient formulas, kernel descriptors),
correspondence of the drivers on rescaled and on superposed inputs against the Coq model, and the two property
predicates evaluated directly on the implementation (1-5 populations, constants / functions of time, frozen /
nomut flags), plus whole models built from the public API.  The same predicates are evaluated again on sequences of calls made
in ONE process in adversarial orders, every value compared with a pristine interpreter, together with a fail-closed obligation
on the source (no module-level mutable state in the equilibrium densities, the time step, the mutation influx): c03_orders.py.
Both predicates are also evaluated over the AMPLITUDE and DURATION regimes (coefficients and theta0 from 1e-12 to 1e12, phi = 0, epochs from a
fraction of a step to hundreds of steps reaching stationarity, reference sizes 1e-3 .. 1e3; d = 1..5, both drivers, whole models), a few of
them also through the correspondence with the model; a broken translator obligation triggers a targeted search there: c03_regimes.py.
Both predicates, the result of the canonical call and the integrity of the caller's objects are required for every spelling of the arguments the
unchanged library accepts (python int / bool / numpy integer / float32 / 0-d scalars, list / tuple / masked / strided / reversed / Fortran-ordered
containers, positional / keyword / defaulted arguments, the same objects handed over twice), enumerated on every run for the equilibrium densities,
the integrators, the mutation influx, the time step and whole models; a few typed driver calls also go through the correspondence with the
model; a broken obligation triggers a targeted search there too: c03_types.py.
"""
import json, math
from fractions import Fraction
from harness import lib, numgen
from harness.lib import q
from harness.numgen import HEADER
from harness.props import c02, c02_translate, c03_orders, c03_regimes, c03_types

TOL = Fraction(1, 10 ** 9)

def rescale_case(c, k):
    r = json.loads(json.dumps({a: b for a, b in c.items() if not a.startswith('_')}))
    for p in r['pops']:
        p['nu'] = p['nu'] * k
        p['gamma'] = p['gamma'] / k
        p['ms'] = [m / k for m in p['ms']]
        # nu(t) = nu0 + s t  ->  c nu(t'/c) = c nu0 + s t'  : slope unchanged
    r['T'] = r['T'] * k
    r['theta0'] = r['theta0'] / k
    r['theta_slope'] = r.get('theta_slope', 0.0) / (k * k)
    return r

def reldev(a, b):
    s = max(1e-300, max(abs(x) for x in a + b))
    return max(abs(x - y) for x, y in zip(a, b)) / s if len(a) == len(b) else float('inf')

def gen_programs(ctx):
    rng = ctx.rng
    progs = []
    for rep in range(ctx.pick(6, 40)):
        n = rng.choice([8, 10, 12]) if rep % 3 else rng.choice([6, 7])
        g = numgen.grid(rng, n, kind=rng.choice(['exp', 'quad', 'uniform']))
        theta0 = lib.dyadic(rng, 0.5, 4, 3)
        sel = rep % 2 == 1
        gam = lib.dyadic(rng, -6, 4, 2) if sel else 0.0
        if sel and rep % 6 == 5:
            gam = -float(rng.choice([320, 512, 1024]))      # beyond the overflow guard of the genic equilibrium
        nuA = numgen.logdy(rng, 0.25, 4, 3)
        steps = [{'op': 'phi_1D', 'nu': 1.0, 'theta0': theta0, 'gamma': gam, 'h': 0.5},
                 {'op': 'one_pop', 'T': lib.dyadic(rng, 0.01, 0.06, 8), 'nu': nuA, 'gamma': gam, 'h': 0.5, 'theta0': theta0},
                 {'op': 'split12'}]
        tp = {'op': 'two_pops', 'T': lib.dyadic(rng, 0.01, 0.05, 8), 'nu': [numgen.logdy(rng, 0.25, 4, 3), numgen.logdy(rng, 0.25, 4, 3)],
              'm': [lib.dyadic(rng, 0, 4, 2), lib.dyadic(rng, 0, 4, 2)], 'gamma': [gam, gam if rng.random() < 0.5 else gam / 2], 'h': [0.5, 0.5], 'theta0': theta0}
        kind = rep % 4
        if kind == 1:
            tp['func'] = True
        if kind == 2:
            tp['growth'] = [tp['nu'][0], tp['nu'][0] * 2, tp['T']]
        steps.append(tp)
        if kind == 3:
            steps.append({'op': 'pulse12', 'f': lib.dyadic(rng, 0.05, 0.9, 4)})
            steps.append(dict(tp, T=lib.dyadic(rng, 0.005, 0.03, 8)))
        if rep % 5 == 0 and n <= 8:
            steps.append({'op': 'split23'})
            steps.append({'op': 'three_pops', 'T': lib.dyadic(rng, 0.005, 0.02, 8), 'nu': [numgen.logdy(rng, 0.5, 2, 2) for _ in range(3)],
                          'm': [lib.dyadic(rng, 0, 2, 1) for _ in range(6)], 'gamma': [gam] * 3, 'theta0': theta0})
            steps.append({'op': 'remove', 'k': 3})
        steps.append({'op': 'from_phi', 'ns': [rng.choice([3, 4, 5]), rng.choice([3, 4])]})
        progs.append({'kind': 'program', 'grid': g, 'tf': rng.choice([1 / 64, 1 / 128]), 'steps': steps, 'sel': sel})
    return progs

def rescale_program(p, k):
    r = json.loads(json.dumps(p))
    for st in r['steps']:
        if 'nu' in st:
            st['nu'] = [v * k for v in st['nu']] if isinstance(st['nu'], list) else st['nu'] * k
        if 'T' in st:
            st['T'] = st['T'] * k
        if 'theta0' in st:
            st['theta0'] = st['theta0'] / k
        if 'gamma' in st:
            st['gamma'] = [v / k for v in st['gamma']] if isinstance(st['gamma'], list) else st['gamma'] / k
        if 'm' in st:
            st['m'] = [v / k for v in st['m']]
        if 'growth' in st:
            st['growth'] = [st['growth'][0] * k, st['growth'][1] * k, st['growth'][2] * k]
    return r

def run(ctx):
    if ctx.replay:
        rp = json.load(open(ctx.replay))
        inp = rp.get('input') or {}
        if isinstance(inp, dict) and 'sequence' in inp:      # a recorded call sequence: the same calls in the same order in one fresh process
            ctx.rule = 'replay of the recorded call sequence'
            c03_orders.replay(ctx, inp)
            return
        if isinstance(inp, dict) and 'types' in inp:         # a recorded argument-type / container / layout violation: exactly those calls again
            ctx.rule = 'replay of the recorded calls of an argument-type violation'
            c03_types.replay(ctx, inp)
            return
        if isinstance(inp, dict) and 'regime' in inp:        # a recorded amplitude / duration regime violation: exactly those calls again
            ctx.rule = 'replay of the recorded calls of an amplitude / duration regime violation'
            c03_regimes.replay(ctx, inp)
            return
        ctx.notes.append('replay file carries no call sequence: the full check is repeated')
    ctx.rule = ('driver cases as in C02 (1-5 populations; constants / constant functions / linear-in-time functions; frozen and nomut flags), each run at '
                'reference-size factors c in {1/16,1/2,2,16} and a random dyadic c in [0.05,20], and as superpositions (a,b) of two densities and thetas; '
                'whole-model programs (equilibrium, size change, split, migration, selection, pulse admixture, growth, third population, removal, sampling) '
                'run at the same factors; distinct = distinct parameter tuples; non-trivial = some migration or selection present')
    ctx.assumptions += ['amplitude / duration regimes: identities compared relative to the largest entry involved (|a| max|F1|, |b| max|F2|, max|result|) at 1e-10 '
                        '(linearity) and 1e-12 / 1e-9 (rescaling by a power of two / any factor); observed on the unchanged tree <= 2e-12',
                        'float64 drivers compared with the NumD model at 1e-9 relative to max|phi|; rescaled runs compared with each other at 1e-9 (powers of two: 1e-12)']
    c02_translate.obligations(ctx, tag='C03')
    rng = ctx.rng
    base = c02.gen_driver_cases(ctx)
    base = [c for c in base if 'pair_of' not in c]
    cases = []
    groups = []       # (base index, list of (factor, index))
    for c in base:
        bi = len(cases); cases.append(c)
        facs = [rng.choice([1 / 16, 1 / 2, 2, 16]), numgen.logdy(rng, 0.05, 20, 5)]
        if not ctx.quick:
            facs += [1 / 2, 16]
        members = []
        for k in facs:
            members.append((k, len(cases))); cases.append(rescale_case(c, k))
        groups.append((bi, members))
    # superposition triples: phi = a phi1 + b phi2, theta = a th1 + b th2
    triples = []
    for c in base:
        a, bb = lib.dyadic(rng, -2, 3, 3), lib.dyadic(rng, 0.25, 3, 3)
        phi2 = numgen.density(rng, len(c['phi']))
        th2 = lib.dyadic(rng, 0.25, 4, 4)
        c1 = json.loads(json.dumps({x: y for x, y in c.items() if not x.startswith('_')}))
        c2 = json.loads(json.dumps(c1)); c2['phi'] = phi2; c2['theta0'] = th2
        c3 = json.loads(json.dumps(c1)); c3['phi'] = [a * x + bb * y for x, y in zip(c1['phi'], phi2)]
        c3['theta0'] = a * c1['theta0'] + bb * th2
        if c1['as_func'] == 'lin':
            c3['theta_slope'] = a * c1.get('theta_slope', 0.0) + bb * c1.get('theta_slope', 0.0)
        if c3['theta0'] < 0:      # the drivers reject negative theta0: keep the combination admissible
            a = abs(a); c3['phi'] = [a * x + bb * y for x, y in zip(c1['phi'], phi2)]; c3['theta0'] = a * c1['theta0'] + bb * th2
            if c1['as_func'] == 'lin':
                c3['theta_slope'] = (a + bb) * c1.get('theta_slope', 0.0)
        i1 = len(cases); cases += [c1, c2, c3]
        triples.append((a, bb, i1, i1 + 1, i1 + 2))
    # amplitude / duration regimes that also go through the correspondence with the model (tiny amplitudes over two, a few and many steps)
    rcorr = c03_regimes.corr_cases(ctx)
    rcorr_idx = list(range(len(cases), len(cases) + len(rcorr)))
    cases += rcorr
    for i, c in enumerate(cases):
        c['id'] = i
    # the argument types / containers / layouts of every entry point (c03_types.py): started here, accounted for below
    types = c03_types.start(ctx)
    # the amplitude / duration regimes of both predicates (c03_regimes.py): started here, accounted for below
    regimes = c03_regimes.start(ctx)
    # the same predicates on sequences of calls in one process, in adversarial orders (c03_orders.py): started here, accounted for below
    orders = c03_orders.start(ctx, base)
    res = lib.run_impl('c03_impl.py', cases, timeout=3000)
    byid = {r['id']: r for r in res}
    exprs = []
    for c in cases:
        r = byid[c['id']]
        if 'error' in r or not c02.finite(r.get('res', [float('nan')])):
            ctx.obligation('driver case %d runs' % c['id'], False, 'correspondence', r.get('error', 'non-finite'))
            ctx.violation('%d-population integration failed on a rescaled / superposed input: %s' % (len(c['shape']), r.get('error', 'non-finite output')),
                          data={'case': {k: v for k, v in c.items() if not k.startswith('_')}})
            continue
        c['_out'] = r['res']
    # --- predicates on the implementation
    for bi, members in groups:
        b0 = cases[bi]
        if '_out' not in b0:
            continue
        d = len(b0['shape'])
        for k, mi in members:
            m = cases[mi]
            if '_out' not in m:
                continue
            pow2 = math.log2(k) == int(math.log2(k))
            dev = reldev(b0['_out'], m['_out'])
            tol = 1e-12 if pow2 else 1e-9
            ok = dev <= tol
            nontriv = any(p['gamma'] != 0 or any(x != 0 for x in p['ms']) for p in b0['pops'])
            ctx.case(signature=('rescale', bi, k) if nontriv else None,
                     sample={'predicate': 'rescale', 'd': d, 'c': k, 'as_func': b0['as_func'], 'rel_dev': dev} if ctx.evaluations % 17 == 0 else None)
            ctx.count('rescale d=%d %s' % (d, 'pow2' if pow2 else 'random-c'))
            ctx.obligation('rescale invariance d=%d c=%g (%s)' % (d, k, b0['as_func']), ok, 'predicate', 'rel dev %.3g' % dev)
            if not ok:
                ctx.violation('re-expressing a %d-population integration relative to a reference size %g times larger changes the density (rel dev %.3g)' % (d, k, dev),
                              data={'base': {x: y for x, y in b0.items() if not x.startswith('_')}, 'factor': k,
                                    'rescaled': {x: y for x, y in m.items() if not x.startswith('_')}, 'out_base': b0['_out'], 'out_rescaled': m['_out']})
    for a, bb, i1, i2, i3 in triples:
        c1, c2, c3 = cases[i1], cases[i2], cases[i3]
        if not all('_out' in c for c in (c1, c2, c3)):
            continue
        want = [a * x + bb * y for x, y in zip(c1['_out'], c2['_out'])]
        dev = reldev(want, c3['_out'])
        ok = dev <= 1e-10
        d = len(c1['shape'])
        ctx.case(signature=('linear', i1, a, bb), sample={'predicate': 'linear', 'd': d, 'a': a, 'b': bb, 'rel_dev': dev} if ctx.evaluations % 17 == 0 else None)
        ctx.count('linearity d=%d' % d)
        ctx.obligation('linearity in (phi, theta0) d=%d (%s)' % (d, c1['as_func']), ok, 'predicate', 'rel dev %.3g' % dev)
        if not ok:
            ctx.violation('%d-population integration of a*phi1+b*phi2 with a*theta1+b*theta2 differs from a*I(phi1,theta1)+b*I(phi2,theta2) (rel dev %.3g)' % (d, dev),
                          data={'a': a, 'b': bb, 'case1': {x: y for x, y in c1.items() if not x.startswith('_')},
                                'case2': {x: y for x, y in c2.items() if not x.startswith('_')}, 'out3': c3['_out'], 'want': want})
    # --- correspondence: the rescaled cases against the model
    sel = [cases[mi] for bi, members in groups for k, mi in members[:1] if '_out' in cases[mi]]
    sel += [cases[i] for i in rcorr_idx if '_out' in cases[i]]
    # typed driver calls (whole values handed over as python int / numpy integer / bool ...): the real call is made by c03_impl_types.py
    tcorr = c03_types.corr_cases(ctx)
    tres = lib.run_impl('c03_impl_types.py', [dict(c, kind='driver') for c, _ in tcorr], timeout=1800)
    for k, ((c, desc), r) in enumerate(zip(tcorr, tres)):
        c['id'] = len(cases) + k; c['_typed'] = desc
        if 'error' in r or not c02.finite(r.get('res', [float('nan')])):
            ctx.obligation('typed driver case runs: %s' % desc[:200], False, 'correspondence', r.get('error', 'non-finite'))
            ctx.violation('%s failed: %s' % (desc, r.get('error', 'non-finite output')), data={'types': {'calls': [dict(c03_types.strip(c), kind='driver')], 'check': {'kind': 'runs', 'idx': [0]}, 'descs': [desc], 'accepts': ['same']}})
            continue
        c['_out'] = r['res']
        sel.append(c)
    exprs = [(c['id'], c02.coq_dcase(c, c['_out'])) for c in sel]
    results = ctx.coq_cases('driver', HEADER, exprs, '(dcheck %s)' % q(TOL), 'rel 1e-09 of max|phi|', shard=ctx.pick(4, 8), timeout=1800)
    for c in sel:
        rr = results.get(c['id'])
        ok = rr is not None and rr[0]
        label = ('regime driver case %d (%d pops, %s)' % (c['id'], len(c['shape']), c['_regime'])) if '_regime' in c else 'rescaled driver case %d (%d pops)' % (c['id'], len(c['shape']))
        if '_typed' in c:
            label = 'typed driver case %d (%s)' % (c['id'], c['_typed'][:160])
            ctx.count('correspondence with the model: typed driver call')
        if '_regime' in c:
            ctx.count('correspondence with the model: %s' % c['_regime'].split(' (')[0])
        ctx.obligation('%s = model' % label, ok, 'correspondence', '' if ok else 'coq result %r' % (rr,))
        if not ok:
            ctx.violation('%d-population driver on %s differs from the model (coq %r)' % (len(c['shape']), ('an input in the regime "%s"' % c['_regime']) if '_regime' in c else 'rescaled parameters', rr),
                          data={'case': {x: y for x, y in c.items() if not x.startswith('_')}, 'impl': c['_out']}, no_input=True,
                          broken='correspondence of the drivers with the Coq model (Model/SchemeCheck.v dcheck): the linearity / rescaling theorems are no longer shown to apply to this code; the predicates on the implementation found no failing input unless reported separately')
    # --- the predicates on call sequences in one process (adversarial orders, every value against a pristine interpreter) and the
    #     fail-closed source obligation (no module-level mutable state in phi_1D*, _compute_dt, _inject_mutations_*D)
    c03_orders.finish(ctx, orders)
    # --- both predicates over the amplitude and duration regimes (tiny / huge coefficients and theta0, phi = 0, single-step to stationary epochs,
    #     reference sizes 1e-3 .. 1e3), d = 1..5, both drivers; whole models and the equilibrium density at extreme theta0 and reference sizes
    c03_regimes.finish(ctx, regimes)
    # --- both predicates, the canonical result and the caller's objects for every spelling of the arguments the unchanged library accepts
    c03_types.finish(ctx, types)
    # --- the equilibrium density itself, in every numerical regime of phi_1D (gamma = 0, weak, |gamma*nu| around and far
    #     beyond the 300 overflow guards, both signs, genic and general-h branches, beta != 1)
    eq = []
    gams = [-1e5, -1000.0, -350.0, -301.0, -299.0, -40.0, -1.0, -1e-6, 0.0, 1e-6, 2.0, 40.0, 299.0, 350.0, 900.0]
    for gi, gam in enumerate(gams):
        for h in ([0.5, 0.25] if ctx.quick else [0.5, 0.0, 0.25, 0.75, 1.0]):
            if h != 0.5 and abs(gam) > 400:
                continue        # general-h quadrature is not the subject here (C01), keep it in its accurate range
            n = rng.choice([9, 13, 17])
            g = numgen.grid(rng, n, kind=rng.choice(['exp', 'quad', 'uniform']))
            nu0 = rng.choice([1.0, 0.5, 2.0, 3.0]); beta = rng.choice([1.0, 1.0, 3.0, 0.5]); th = lib.dyadic(rng, 0.5, 4, 3)
            ks = [rng.choice([1 / 4, 2, 8]), numgen.logdy(rng, 0.1, 10, 4)]
            b0 = {'kind': 'phi1d', 'grid': g, 'nu': nu0, 'theta0': th, 'gamma': gam, 'h': h, 'beta': beta}
            eq.append((b0, [(k, dict(b0, nu=nu0 * k, theta0=th / k, gamma=gam / k)) for k in ks]))
    flat = []
    for b0, mem in eq:
        b0['id'] = len(flat); flat.append(b0)
        for k, m in mem:
            m['id'] = len(flat); flat.append(m)
    eres = {r['id']: r for r in lib.run_impl('c03_impl.py', flat, timeout=1800)}
    for b0, mem in eq:
        r0 = eres[b0['id']]
        for k, m in mem:
            r1 = eres[m['id']]
            if 'error' in r0 or 'error' in r1:
                ctx.obligation('phi_1D runs', False, 'predicate', r0.get('error') or r1.get('error'))
                ctx.violation('phi_1D failed: %s' % (r0.get('error') or r1.get('error')), data={'base': b0, 'rescaled': m})
                continue
            a, bb = r0['res'], r1['res']
            ok_fin = all(math.isfinite(x) for x in a + bb)
            dev = reldev(a, bb) if ok_fin else float('inf')
            tol = 1e-9 if b0['h'] == 0.5 else 1e-7
            ok = dev <= tol
            ctx.case(signature=('phi1d', b0['gamma'], b0['h'], b0['nu'], b0['beta'], k),
                     sample={'predicate': 'phi_1D rescale', 'gamma': b0['gamma'], 'h': b0['h'], 'nu': b0['nu'], 'beta': b0['beta'], 'c': k, 'rel_dev': dev} if ctx.evaluations % 19 == 0 else None)
            ctx.count('phi_1D regime %s' % ('gamma=0' if b0['gamma'] == 0 else 'guarded' if abs(b0['gamma'] * b0['nu']) >= 300 else 'ordinary'))
            ctx.obligation('phi_1D rescale invariance gamma=%g h=%g nu=%g beta=%g c=%g' % (b0['gamma'], b0['h'], b0['nu'], b0['beta'], k), ok, 'predicate', 'rel dev %.3g' % dev)
            if not ok:
                ctx.violation('the equilibrium density phi_1D(nu=%g, theta0=%g, gamma=%g, h=%g, beta=%g) changes when re-expressed relative to a reference size %g times larger (rel dev %.3g)' % (
                    b0['nu'], b0['theta0'], b0['gamma'], b0['h'], b0['beta'], k, dev), data={'base': b0, 'factor': k, 'rescaled': m, 'phi': a, 'phi_rescaled': bb})
    # --- whole models
    progs = gen_programs(ctx)
    pcases = []
    pg = []
    for p in progs:
        bi = len(pcases); pcases.append(p)
        ks = [rng.choice([1 / 4, 2, 8]), numgen.logdy(rng, 0.1, 10, 4)]
        mem = []
        for k in ks:
            mem.append((k, len(pcases))); pcases.append(rescale_program(p, k))
        pg.append((bi, mem))
    for i, c in enumerate(pcases):
        c['id'] = i
    pres = {r['id']: r for r in lib.run_impl('c03_impl.py', pcases, timeout=3000)}
    for bi, mem in pg:
        b0 = pres[bi]
        for k, mi in mem:
            m = pres[mi]
            if 'error' in b0 or 'error' in m:
                ctx.obligation('whole-model program %d runs' % bi, False, 'predicate', b0.get('error') or m.get('error'))
                ctx.violation('whole-model program failed: %s' % (b0.get('error') or m.get('error')), data={'program': pcases[bi], 'factor': k})
                continue
            mask = b0['mask'] or [False] * len(b0['res'])
            a = [x for x, mm in zip(b0['res'], mask) if not mm]; bb = [x for x, mm in zip(m['res'], mask) if not mm]
            dev = reldev(a, bb)
            ok = dev <= 1e-9
            sel_ = pcases[bi]['sel']
            ctx.case(signature=('program', bi, k), sample={'predicate': 'whole-model rescale', 'ops': [s['op'] for s in pcases[bi]['steps']], 'c': k, 'selection': sel_, 'rel_dev': dev} if ctx.evaluations % 9 == 0 else None)
            ctx.count('program %s' % ('with selection' if sel_ else 'neutral'))
            o = {'name': 'whole-model rescale invariance (%s, c=%g)' % ('selection' if sel_ else 'neutral', k), 'kind': 'predicate', 'ok': ok, 'detail': 'rel dev %.3g' % dev}
            key = 'phi_1D:gamma-not-multiplied-by-nu' if sel_ else None
            if not ok:
                o['known_key'] = key
            ctx.obligations.append(o)
            if not ok:
                ctx.violation('a whole model (%s) re-expressed relative to a reference size %g times larger gives a different spectrum (rel dev %.3g)%s' % (
                    '+'.join(s['op'] for s in pcases[bi]['steps']), k, dev, ': the equilibrium density phi_1D uses gamma where the stationary solution needs gamma*nu' if sel_ else ''),
                    data={'program': pcases[bi], 'factor': k, 'rescaled': pcases[mi], 'spectrum': b0['res'], 'rescaled_spectrum': m['res']}, key=key)
    # --- a broken translator / source obligation and no failing input so far: targeted search on the functions the obligation names
    #     (the amplitude / duration regimes at thorough size on the dimensions and drivers those functions belong to)
    broken = [o for o in ctx.obligations if not o['ok'] and o['kind'] == 'translator']
    if broken and not any(not v['no_input'] for v in ctx.violations):
        nbad_t, ht = c03_types.search(ctx, [o['name'] for o in broken])
        nbad, hs = c03_regimes.search(ctx, [o['name'] for o in broken])
        nbad += nbad_t; hs['ncalls'] += ht['ncalls']
        if nbad == 0 and not any(v['no_input'] for v in ctx.violations):
            ctx.violation('obligation(s) on the source text no longer check: %s; the targeted search on the functions they name (%d settings, %d calls of the implementation: '
                          'homogeneity, superposition, theta0 range, rescaling over amplitudes 1e-12..1e12, single-step to stationary epochs; every argument type / container / layout) found no failing input' % (
                              '; '.join(o['name'] for o in broken[:5]), len(hs['settings']), hs['ncalls']),
                          data={'obligations': broken[:20]}, no_input=True, broken=broken[0]['name'])
    # failing inputs first: a broken correspondence / obligation is the explanation, the input is the finding
    ctx.violations.sort(key=lambda v: bool(v['no_input']))
