"""C02 — every integration path in 1-5 populations solves the documented implicit scheme.

Static theorems: coq/theories/Props/C02.v  (thomas_solves, flux form, precalc = on-the-fly, const = time-dependent).
Per run: translator obligations on the C / Python coefficient formulas (harness/props/c02_translate.py),
kernel descriptors, and correspondence of all 15 kernels, 5 precalc kernels, tridiag and the drivers
against the Coq model evaluated over exact rationals.
"""
import json, math, os
from fractions import Fraction
from harness import lib, numgen
from harness.lib import q, ql, qll, natl, b, zzl
from harness.numgen import coq_pop, HEADER

TOL = Fraction(1, 10 ** 9)
TOL_DELJ = Fraction(1, 10 ** 7)

def wv_ok(grid_k, p, os_min_max, d):
    """|w/V| over all intervals and all lines must be 0 or in [1e-2, 500] for the delj formula to be
    well conditioned in floats; returns False otherwise."""
    nu, gam, h, ms = p['nu'], p['gamma'], p['h'], p['ms']
    for i in range(len(grid_k) - 1):
        xi = 0.5 * (grid_k[i] + grid_k[i + 1])
        dx = grid_k[i + 1] - grid_k[i]
        V = xi * (1 - xi) / nu * (p['beta'] + 1) ** 2 / (4 * p['beta'])
        sel = gam * 2 * (h + (1 - 2 * h) * xi) * xi * (1 - xi)
        # migration term extremes over other coordinates in [0,1]
        lo = sel + sum(m * (0 - xi) for m in ms)
        hi = sel + sum(m * (1 - xi) for m in ms)
        for M in (lo, hi):
            r = abs(2 * M * dx / V) if V > 0 else float('inf')
            if r > 500:
                return False
        if any(m != 0 for m in ms):
            if lo < 0 < hi or abs(2 * lo * dx / V) < 1e-2 or abs(2 * hi * dx / V) < 1e-2:
                # some line may have tiny |w/V|: check precisely is expensive; be conservative
                return False
        else:
            r = abs(2 * sel * dx / V)
            if r != 0 and r < 1e-2:
                return False
    return True

def gen_kernel_cases(ctx, kinds=('kernel', 'wrap')):
    rng = ctx.rng
    cases = []
    per = ctx.pick(3, 40)
    single_pats = {}
    for d in range(2, 6):
        for k in range(d):
            singles = [[j == i for j in range(d - 1)] for i in range(d - 1)]
            subsets = [[bool((m >> j) & 1) for j in range(d - 1)] for m in range(1, 2 ** (d - 1))]
            single_pats[(d, k)] = singles if ctx.quick else singles + subsets
    for d in range(1, 6):
        for k in range(d):
            nrep = per if d == 1 else max(per, len(single_pats[(d, k)]) + 1 if ctx.quick else per)
            for rep in range(nrep + 1):
                via = 'wrap' if rep == nrep else 'kernel'
                if via not in kinds:
                    continue
                if via == 'wrap':
                    n = rng.choice([3, 4]) if d >= 4 else rng.choice([4, 5, 6, 7])
                    shape = [n] * d
                else:
                    hi = {1: 12, 2: 8, 3: 6, 4: 5, 5: 4}[d] if ctx.quick else {1: 40, 2: 14, 3: 8, 4: 6, 5: 5}[d]
                    shape = [rng.randint(3, hi) for _ in range(d)]
                exact_ends = rng.random() < 0.75
                if via == 'wrap' and rng.random() < 0.7:
                    g = numgen.grid(rng, shape[0], exact_ends=exact_ends)
                    grids = [list(g) for _ in range(d)]
                else:
                    grids = [numgen.grid(rng, n, exact_ends=(exact_ends or rng.random() < 0.5)) for n in shape]
                p = numgen.pop(rng, d, beta=(d == 1))
                if rng.random() < 0.15:
                    p['gamma'] = 0.0; p['ms'] = [0.0] * (d - 1)
                if via == 'kernel' and d >= 2 and rep >= 1:
                    # sparse migration patterns, systematically: over the repetitions of one kernel every single
                    # source population gets a turn at being the ONLY one with a non-zero rate, and (thorough) every subset
                    pat = single_pats[(d, k)][(rep - 1) % len(single_pats[(d, k)])]
                    p['ms'] = [lib.dyadic(rng, 0.25, 20, 4) if on else 0.0 for on in pat]
                delj = rng.random() < 0.4
                if delj and not wv_ok(grids[k], p, None, d):
                    # shrink parameters until the Chang-Cooper formula is well conditioned, else switch it off
                    p['nu'] = min(p['nu'], 1.0); p['ms'] = [0.0] * (d - 1)
                    if not wv_ok(grids[k], p, None, d):
                        delj = False
                dt = numgen.logdy(rng, 1e-6, 1e-1)
                size = 1
                for n in shape:
                    size *= n
                phi = numgen.density(rng, size)
                cases.append({'kind': via, 'shape': shape, 'k': k, 'grids': grids, 'nu': p['nu'], 'ms': p['ms'],
                              'gamma': p['gamma'], 'h': p['h'], 'beta': p['beta'], 'dt': dt, 'delj': delj, 'phi': phi, 'pop': p})
    return cases

def gen_precalc_cases(ctx):
    rng = ctx.rng
    cases = []
    per = ctx.pick(3, 25)
    for d, k in [(2, 0), (2, 1), (3, 0), (3, 1), (3, 2)]:
        for rep in range(per + 1):
            via = 'wrap' if rep == per else 'ctypes'
            if via == 'wrap':
                shape = [rng.choice([3, 4, 5, 6])] * d
            else:
                shape = [rng.randint(3, 7) for _ in range(d)]
            size = 1
            for n in shape:
                size *= n
            a = [lib.dyadic(rng, -4, 0, 6) for _ in range(size)]
            c = [lib.dyadic(rng, -4, 0, 6) for _ in range(size)]
            bb = [lib.dyadic(rng, 8.5, 20, 6) for _ in range(size)]     # diagonally dominant: no vanishing pivot
            dt = numgen.logdy(rng, 1e-6, 1e-1)
            cases.append({'kind': 'precalc', 'via': via, 'shape': shape, 'k': k, 'a': a, 'b': bb, 'c': c, 'dt': dt,
                          'phi': numgen.density(rng, size)})
    return cases

def gen_tridiag_cases(ctx):
    rng = ctx.rng
    cases = []
    for rep in range(ctx.pick(10, 200)):
        n = rng.randint(1, ctx.pick(12, 60))
        a = [lib.dyadic(rng, -4, 4, 6) for _ in range(n)]
        c = [lib.dyadic(rng, -4, 4, 6) for _ in range(n)]
        bb = [rng.choice([-1, 1]) * lib.dyadic(rng, 8.5, 20, 6) for _ in range(n)]
        r = [lib.dyadic(rng, -8, 8, 6) for _ in range(n)]
        cases.append({'kind': 'tridiag', 'via': rng.choice(['wrap', 'ctypes']), 'a': a, 'b': bb, 'c': c, 'r': r})
    return cases

def gen_driver_cases(ctx):
    rng = ctx.rng
    cases = []
    per = ctx.pick(3, 20)
    for d in range(1, 6):
        for rep in range(per):
            n = {1: rng.randint(5, 14), 2: rng.randint(4, 8), 3: rng.randint(4, 6), 4: rng.choice([4, 5]), 5: rng.choice([3, 4])}[d]
            if d == 5 and ctx.quick:
                n = 3
            g = numgen.grid(rng, n, kind=rng.choice(['uniform', 'exp', 'quad', 'random']))
            pops = [numgen.pop(rng, d, beta=(d == 1)) for _ in range(d)]
            for p in pops:
                p['nu'] = numgen.logdy(rng, 0.05, 20)
                p['gamma'] = lib.dyadic(rng, -8, 8, 3) if rng.random() < 0.7 else 0.0
                p['ms'] = [lib.dyadic(rng, 0, 4, 3) if rng.random() < 0.7 else 0.0 for _ in range(d - 1)]
            # frozen pops: need zero migration to/from them
            if d >= 2 and rng.random() < 0.3:
                f = rng.randrange(d)
                pops[f]['frozen'] = True
                for i, p in enumerate(pops):
                    others = [j for j in range(d) if j != i]
                    p['ms'] = [0.0 if (i == f or j == f) else m for j, m in zip(others, p['ms'])]
            if d == 2 and rng.random() < 0.3:
                pops[rng.randrange(2)]['nomut'] = True
            tf = rng.choice([1 / 64, 1 / 128, 1 / 256, 1 / 1024])
            theta0 = lib.dyadic(rng, 0.25, 4, 4)
            # T = a few steps: dt = tf/maxVM
            mv = max(max(0.25 / p['nu'], sum(p['ms']), abs(p['gamma']) * 0.25) for p in pops)
            dt = tf / mv
            nsteps = rng.choice([1, 2, 3]) if not ctx.quick else rng.choice([1, 2])
            T = numgen.logdy(rng, dt * (nsteps - 0.6), dt * (nsteps - 0.1)) if nsteps > 0 else 0.0
            delj = False
            size = n ** d
            phi = numgen.density(rng, size)
            mode = rng.choice([None, 'const', 'lin']) if d <= 3 else rng.choice(['const', 'lin'])
            c = {'kind': 'driver', 'shape': [n] * d, 'grid': g, 'pops': pops, 'theta0': theta0, 'tf': tf, 'delj': delj,
                 'T': T, 'phi': phi, 'as_func': mode, 'theta_slope': 0.0}
            if mode == 'lin':
                for p in pops:
                    p['nu_slope'] = lib.dyadic(rng, 0, 2, 3)
                c['theta_slope'] = lib.dyadic(rng, 0, 1, 3)
            cases.append(c)
            # the const-vs-function pair (d <= 3): same case through the other driver
            if d <= 3 and mode in (None, 'const'):
                c2 = json.loads(json.dumps(c)); c2['as_func'] = 'const' if mode is None else None; c2['pair_of'] = len(cases) - 1
                cases.append(c2)
    # drivers with the delj (Chang-Cooper) switch on: selection only (no migration), so that |w/V| stays in the
    # well-conditioned band on every interval; constants and constant functions through both drivers
    for d in range(1, 6):
        for rep in range(ctx.pick(1, 4)):
            n = {1: rng.randint(6, 12), 2: rng.randint(4, 7), 3: rng.randint(4, 5), 4: 4, 5: 3}[d]
            for attempt in range(20):
                g = numgen.grid(rng, n, kind=rng.choice(['uniform', 'quad', 'random']))
                pops = [numgen.pop(rng, d, mig=False, beta=(d == 1)) for _ in range(d)]
                for p in pops:
                    p['nu'] = numgen.logdy(rng, 0.25, 2, 3)
                    p['gamma'] = rng.choice([-1, 1]) * lib.dyadic(rng, 2, 8, 2)
                    p['h'] = rng.choice([0.5, 0.25, 0.75])
                if all(wv_ok(g, p, None, d) for p in pops):
                    break
            else:
                continue
            tf = 1 / 128
            mv = max(max(0.25 / p['nu'], abs(p['gamma']) * 0.25) for p in pops)
            T = numgen.logdy(rng, 1.2 * tf / mv, 1.9 * tf / mv)
            mode = rng.choice([None, 'const']) if d <= 3 else 'const'
            c = {'kind': 'driver', 'shape': [n] * d, 'grid': g, 'pops': pops, 'theta0': lib.dyadic(rng, 0.25, 4, 4), 'tf': tf, 'delj': True,
                 'T': T, 'phi': numgen.density(rng, n ** d), 'as_func': mode, 'theta_slope': 0.0}
            cases.append(c)
            if d <= 3:
                c2 = json.loads(json.dumps(c)); c2['as_func'] = 'const' if mode is None else None; c2['pair_of'] = len(cases) - 1
                cases.append(c2)
    return cases

def coq_kcase(c, out):
    return '{| kc_shape := %s; kc_grids := %s; kc_pop := %s; kc_k := %d%%nat; kc_dt := %s; kc_delj := %s; kc_phi := %s; kc_impl := %s |}' % (
        natl(c['shape']), qll(c['grids']), coq_pop(c['pop']), c['k'], q(c['dt']), b(c['delj']), zzl(c['phi']), zzl(out))

def coq_pcase(c, out):
    return '{| pc_shape := %s; pc_k := %d%%nat; pc_a := %s; pc_b := %s; pc_c := %s; pc_dt := %s; pc_phi := %s; pc_impl := %s |}' % (
        natl(c['shape']), c['k'], zzl(c['a']), zzl(c['b']), zzl(c['c']), q(c['dt']), zzl(c['phi']), zzl(out))

def coq_tcase(c, out):
    rows = '[' + '; '.join('(%s, %s, %s, %s)' % (q(a), q(bb), q(cc), q(r)) for a, bb, cc, r in zip(c['a'], c['b'], c['c'], c['r'])) + ']'
    return '{| tc_rows := %s; tc_impl := %s |}' % (rows, ql(out))

def coq_dcase(c, out):
    return ('{| dc_shape := %s; dc_grid := %s; dc_pops := [%s]; dc_nuslopes := %s; dc_theta0 := %s; dc_thslope := %s; dc_tf := %s; '
            'dc_delj := %s; dc_T := %s; dc_tdep := %s; dc_phi := %s; dc_impl := %s |}') % (
        natl(c['shape']), ql(c['grid']), '; '.join(coq_pop(p) for p in c['pops']),
        ql([p.get('nu_slope', 0.0) if c['as_func'] == 'lin' else 0.0 for p in c['pops']]), q(c['theta0']),
        q(c.get('theta_slope', 0.0) if c['as_func'] == 'lin' else 0.0), q(c['tf']), b(c['delj']), q(c['T']),
        b(c['as_func'] is not None), zzl(c['phi']), zzl(out))

def finite(xs):
    return all(isinstance(x, float) and math.isfinite(x) for x in xs)

def run_group(ctx, tag, cases, coqfn, checkfn, tol, shard, describe):
    if not cases:
        return {}
    for i, c in enumerate(cases):
        c['id'] = i
    res = lib.run_impl('c02_impl.py', cases, timeout=1800)
    byid = {r['id']: r for r in res}
    exprs = []
    for c in cases:
        r = byid[c['id']]
        if 'error' in r or not finite(r.get('res', [float('nan')])):
            ctx.obligation('%s case %d runs' % (tag, c['id']), False, 'correspondence', r.get('error', 'non-finite output'))
            ctx.violation('%s: implementation failed or returned non-finite values: %s' % (describe(c), r.get('error', 'non-finite')),
                          data={'case': c, 'impl': r})
            continue
        c['_out'] = r['res']
        exprs.append((c['id'], coqfn(c, r['res'])))
    results = ctx.coq_cases(tag, HEADER, exprs, '(%s %s)' % (checkfn, q(tol)), 'rel %.0e of max|phi|' % float(tol), shard=shard, timeout=1800, kind=tag)
    if checkfn == 'kcheck':
        pivot_hypothesis(ctx, tag, cases, exprs, shard)
    return results

def pivot_hypothesis(ctx, tag, cases, exprs, shard):
    """The solve/uniqueness theorems assume non-vanishing Thomas pivots; Proofs/Pivots.v proves them positive under the
    cell-Peclet condition.  Evaluate both on the model for every line of every generated kernel case: the hypothesis
    must hold on everything generated (otherwise the correspondence says nothing there), and the share of lines
    meeting the Peclet condition is reported (non-vacuity of the proved sufficient condition)."""
    res = ctx.coq_cases(tag + 'piv', HEADER, exprs, 'kpiv', 'n/a', shard=shard * 2, timeout=1800, kind=tag + 'piv', record_err=False)
    byid = {c['id']: c for c in cases}
    nlines = npec = 0
    for cid, (ok, cnt) in res.items():
        c = byid[cid]
        n = 1
        for s_ in c['shape']:
            n *= s_
        nlines += n // c['shape'][c['k']]
        npec += cnt // c['shape'][c['k']]
        ctx.obligation('%s case %d: model pivots non-zero on every line, positive on every line meeting the cell-Peclet condition' % (tag, cid), ok, 'hypothesis',
                       '' if ok else 'a Thomas pivot of the model vanishes or is non-positive under the Peclet condition: theorem C02_pivots_positive_under_peclet_condition contradicted or hypothesis `nonzero` unmet')
        if not ok:
            ctx.violation('%s: the implicit system of a generated line has a vanishing pivot (or a non-positive one under the cell-Peclet condition): the scheme is not uniquely solvable there' % tag,
                          data={'case': {k: v for k, v in c.items() if not k.startswith('_')}}, no_input=True, broken='hypothesis nonzero (all_pivots (line_rows ...)) of C02_step_solves_scheme')
    ctx.stats['lines_checked_for_pivots_' + tag] = nlines
    ctx.stats['lines_meeting_cell_peclet_condition_' + tag] = npec

def run(ctx):
    ctx.rule = ('kernel cases = (dimension d, swept axis k, unequal shape, per-axis random/uniform/exponential/quadratic dyadic grids with '
                'and without exact 0/1 end points, nu, per-pair migration rates, gamma, h, beta(1-D), dt, delj switch, random non-negative density); '
                'precalc cases = random diagonally dominant coefficient arrays; driver cases = one_pop..five_pops for 1-3 steps with constants, '
                'constant functions and linear-in-time functions; distinct = distinct parameter tuples; non-trivial = not (gamma = 0 and all m = 0)')
    ctx.assumptions += ['float64 kernels are compared with exact rational evaluation at 1e-9 (1e-7 with the delj trick) relative to max|phi|',
                        'delj cases keep |w/V| in {0} u [1e-2, 500] on every interval (the float formula is ill-conditioned below, overflows above)',
                        'Qexp is a rational approximation with relative error < 2^-100']
    ctx.trusted += ['C semantics of the kernels are not formalised: tie = coefficient-formula translation (ring/field obligations) + kernel descriptors + execution against the model']
    from harness.props import c02_translate
    c02_translate.obligations(ctx)
    groups = []
    kc = gen_kernel_cases(ctx)
    groups.append(('kernel', kc, coq_kcase, 'kcheck', None, lambda c: 'implicit_%dD%s (%s)' % (len(c['shape']), 'xyzab'[c['k']], c['kind'])))
    pc = gen_precalc_cases(ctx)
    groups.append(('precalc', pc, coq_pcase, 'pcheck', TOL, lambda c: 'implicit_precalc_%dD%s (%s)' % (len(c['shape']), 'xyzab'[c['k']], c['via'])))
    tc = gen_tridiag_cases(ctx)
    groups.append(('tridiag', tc, coq_tcase, 'tcheck', TOL, lambda c: 'tridiag n=%d (%s)' % (len(c['a']), c['via'])))
    dc = gen_driver_cases(ctx)
    groups.append(('driver', [c for c in dc if not c['delj']], coq_dcase, 'dcheck', TOL, lambda c: '%d-pop driver as_func=%s' % (len(c['shape']), c['as_func'])))
    groups.append(('driverdelj', [c for c in dc if c['delj']], coq_dcase, 'dcheck', TOL_DELJ, lambda c: '%d-pop driver as_func=%s delj=on' % (len(c['shape']), c['as_func'])))
    for tag, cases, coqfn, checkfn, tol, describe in groups:
        if tag == 'kernel':
            # two tolerance classes
            for sub, sel, t in (('kernel', [c for c in cases if not c['delj']], TOL), ('kerneldelj', [c for c in cases if c['delj']], TOL_DELJ)):
                results = run_group(ctx, sub, sel, coqfn, checkfn, t, ctx.pick(8, 12), describe)
                account(ctx, sub, sel, results, describe)
        else:
            results = run_group(ctx, tag, cases, coqfn, checkfn, tol, ctx.pick(8, 12) if tag != 'tridiag' else 100, describe)
            account(ctx, tag, cases, results, describe)
    # const vs function of time (property clause), directly on the implementation
    for c in dc:
        if 'pair_of' in c and '_out' in c and '_out' in dc[c['pair_of']]:
            a, bb = c['_out'], dc[c['pair_of']]['_out']
            scale = max(1e-300, max(abs(x) for x in a))
            dev = max(abs(x - y) for x, y in zip(a, bb)) / scale
            ok = dev <= 1e-11
            ctx.obligation('const vs function-of-time drivers agree (%d pops)' % len(c['shape']), ok, 'predicate', 'rel dev %.3g' % dev)
            if not ok:
                ctx.violation('a parameter passed as a constant and as a function returning that constant give different densities (%d populations, rel dev %.3g)' % (len(c['shape']), dev),
                              data={'case': {k: v for k, v in c.items() if not k.startswith('_')}, 'const': bb, 'func': a})

def account(ctx, tag, cases, results, describe):
    nbad = 0
    for c in cases:
        if '_out' not in c:
            continue
        d = len(c.get('shape', [0]))
        ctx.count('%s d=%d' % (tag, d))
        triv = tag.startswith('kernel') and c['gamma'] == 0 and all(m == 0 for m in c['ms'])
        ctx.case(signature=None if triv else (tag, json.dumps({k: v for k, v in c.items() if not k.startswith('_')}, sort_keys=True)),
                 sample={k: (v if not isinstance(v, list) or len(v) < 30 else v[:30]) for k, v in c.items() if not k.startswith('_') and k != 'pop'} if ctx.evaluations % 37 == 0 else None)
        rr = results.get(c['id'])
        ok = rr is not None and rr[0]
        ctx.obligation('%s case %d: %s' % (tag, c['id'], describe(c)), ok, 'correspondence', '' if ok else 'coq result %r' % (rr,))
        if not ok:
            nbad += 1
            if nbad <= 2:
                # the disagreeing case is a failing input: the real output does not solve the documented system
                ctx.violation('%s: output differs from the solution of the documented implicit system (model) beyond tolerance' % describe(c),
                              data={'case': {k: v for k, v in c.items() if not k.startswith('_')}, 'impl': c['_out'], 'coq': rr})
