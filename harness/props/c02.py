"""C02 — every integration path in 1-5 populations solves the documented implicit scheme.

Static theorems: coq/theories/Props/C02.v  (thomas_solves, flux form, precalc = on-the-fly, const = time-dependent).
Per run: translator obligations on the C / Python coefficient formulas (harness/props/c02_translate.py),
kernel descriptors, and correspondence of all 15 kernels, 5 precalc kernels, tridiag and the drivers
against the Coq model evaluated over exact rationals.

Every case is executed at a recorded position of a recorded sequence of calls inside one interpreter (the order of the
cases of a process is part of the case description).  Besides the random streams there are designed CALL HISTORIES
(gen_history_cases, gen_driver_histories): per kernel / driver a sequence that keeps the array sizes and replaces one
group of arguments at a time (grids of the same size in the same buffers, parameters, dt, phi, delj, shape, the base call
again), each call compared with the model of that call alone - state kept between calls shows up as a disagreement whose
replay is the sequence (--replay re-runs it).  Driver calls are repeated with non-C-contiguous phi / grid objects.
A failed translator obligation adds thorough-size sequences of the functions it is about (broken_functions).
"""
import json, math, os, re
from fractions import Fraction
from harness import lib, numgen
from harness.lib import q, ql, qll, natl, b, zzl
from harness.numgen import coq_pop, HEADER

TOL = Fraction(1, 10 ** 9)
TOL_DELJ = Fraction(1, 10 ** 7)

def wv_ok(grid_k, p, os_min_max, d):
    """|w/V| over all intervals and all lines must be 0 or in [1e-2, 500] for the delj formula to be
    well conditioned in floats; returns False otherwise."""
    nu, gam, h, ms = p['nu'], p['gamma'], p['h'], p['ms']
    for i in range(len(grid_k) - 1):
        xi = 0.5 * (grid_k[i] + grid_k[i + 1])
        dx = grid_k[i + 1] - grid_k[i]
        V = xi * (1 - xi) / nu * (p['beta'] + 1) ** 2 / (4 * p['beta'])
        sel = gam * 2 * (h + (1 - 2 * h) * xi) * xi * (1 - xi)
        # migration term extremes over other coordinates in [0,1]
        lo = sel + sum(m * (0 - xi) for m in ms)
        hi = sel + sum(m * (1 - xi) for m in ms)
        for M in (lo, hi):
            r = abs(2 * M * dx / V) if V > 0 else float('inf')
            if r > 500:
                return False
        if any(m != 0 for m in ms):
            if lo < 0 < hi or abs(2 * lo * dx / V) < 1e-2 or abs(2 * hi * dx / V) < 1e-2:
                # some line may have tiny |w/V|: check precisely is expensive; be conservative
                return False
        else:
            r = abs(2 * sel * dx / V)
            if r != 0 and r < 1e-2:
                return False
    return True

def gen_kernel_cases(ctx, kinds=('kernel', 'wrap')):
    rng = ctx.rng
    cases = []
    per = ctx.pick(3, 40)
    single_pats = {}
    for d in range(2, 6):
        for k in range(d):
            singles = [[j == i for j in range(d - 1)] for i in range(d - 1)]
            subsets = [[bool((m >> j) & 1) for j in range(d - 1)] for m in range(1, 2 ** (d - 1))]
            single_pats[(d, k)] = singles if ctx.quick else singles + subsets
    for d in range(1, 6):
        for k in range(d):
            nrep = per if d == 1 else max(per, len(single_pats[(d, k)]) + 1 if ctx.quick else per)
            for rep in range(nrep + 1):
                via = 'wrap' if rep == nrep else 'kernel'
                if via not in kinds:
                    continue
                if via == 'wrap':
                    n = rng.choice([3, 4]) if d >= 4 else rng.choice([4, 5, 6, 7])
                    shape = [n] * d
                else:
                    hi = {1: 12, 2: 8, 3: 6, 4: 5, 5: 4}[d] if ctx.quick else {1: 40, 2: 14, 3: 8, 4: 6, 5: 5}[d]
                    shape = [rng.randint(3, hi) for _ in range(d)]
                exact_ends = rng.random() < 0.75
                if via == 'wrap' and rng.random() < 0.7:
                    g = numgen.grid(rng, shape[0], exact_ends=exact_ends)
                    grids = [list(g) for _ in range(d)]
                else:
                    grids = [numgen.grid(rng, n, exact_ends=(exact_ends or rng.random() < 0.5)) for n in shape]
                p = numgen.pop(rng, d, beta=(d == 1))
                if rng.random() < 0.15:
                    p['gamma'] = 0.0; p['ms'] = [0.0] * (d - 1)
                if via == 'kernel' and d >= 2 and rep >= 1:
                    # sparse migration patterns, systematically: over the repetitions of one kernel every single
                    # source population gets a turn at being the ONLY one with a non-zero rate, and (thorough) every subset
                    pat = single_pats[(d, k)][(rep - 1) % len(single_pats[(d, k)])]
                    p['ms'] = [lib.dyadic(rng, 0.25, 20, 4) if on else 0.0 for on in pat]
                delj = rng.random() < 0.4
                if delj and not wv_ok(grids[k], p, None, d):
                    # shrink parameters until the Chang-Cooper formula is well conditioned, else switch it off
                    p['nu'] = min(p['nu'], 1.0); p['ms'] = [0.0] * (d - 1)
                    if not wv_ok(grids[k], p, None, d):
                        delj = False
                dt = numgen.logdy(rng, 1e-6, 1e-1)
                size = 1
                for n in shape:
                    size *= n
                phi = numgen.density(rng, size)
                cases.append({'kind': via, 'shape': shape, 'k': k, 'grids': grids, 'nu': p['nu'], 'ms': p['ms'],
                              'gamma': p['gamma'], 'h': p['h'], 'beta': p['beta'], 'dt': dt, 'delj': delj, 'phi': phi, 'pop': p})
    return cases

def gen_precalc_cases(ctx):
    rng = ctx.rng
    cases = []
    per = ctx.pick(3, 25)
    for d, k in [(2, 0), (2, 1), (3, 0), (3, 1), (3, 2)]:
        for rep in range(per + 1):
            via = 'wrap' if rep == per else 'ctypes'
            if via == 'wrap':
                shape = [rng.choice([3, 4, 5, 6])] * d
            else:
                shape = [rng.randint(3, 7) for _ in range(d)]
            size = 1
            for n in shape:
                size *= n
            a = [lib.dyadic(rng, -4, 0, 6) for _ in range(size)]
            c = [lib.dyadic(rng, -4, 0, 6) for _ in range(size)]
            bb = [lib.dyadic(rng, 8.5, 20, 6) for _ in range(size)]     # diagonally dominant: no vanishing pivot
            dt = numgen.logdy(rng, 1e-6, 1e-1)
            cases.append({'kind': 'precalc', 'via': via, 'shape': shape, 'k': k, 'a': a, 'b': bb, 'c': c, 'dt': dt,
                          'phi': numgen.density(rng, size)})
    return cases

def gen_tridiag_cases(ctx):
    rng = ctx.rng
    cases = []
    for rep in range(ctx.pick(10, 200)):
        n = rng.randint(1, ctx.pick(12, 60))
        a = [lib.dyadic(rng, -4, 4, 6) for _ in range(n)]
        c = [lib.dyadic(rng, -4, 4, 6) for _ in range(n)]
        bb = [rng.choice([-1, 1]) * lib.dyadic(rng, 8.5, 20, 6) for _ in range(n)]
        r = [lib.dyadic(rng, -8, 8, 6) for _ in range(n)]
        cases.append({'kind': 'tridiag', 'via': rng.choice(['wrap', 'ctypes']), 'a': a, 'b': bb, 'c': c, 'r': r})
    return cases

def gen_driver_cases(ctx):
    rng = ctx.rng
    cases = []
    per = ctx.pick(3, 20)
    for d in range(1, 6):
        for rep in range(per):
            n = {1: rng.randint(5, 14), 2: rng.randint(4, 8), 3: rng.randint(4, 6), 4: rng.choice([4, 5]), 5: rng.choice([3, 4])}[d]
            if d == 5 and ctx.quick:
                n = 3
            g = numgen.grid(rng, n, kind=rng.choice(['uniform', 'exp', 'quad', 'random']))
            pops = [numgen.pop(rng, d, beta=(d == 1)) for _ in range(d)]
            for p in pops:
                p['nu'] = numgen.logdy(rng, 0.05, 20)
                p['gamma'] = lib.dyadic(rng, -8, 8, 3) if rng.random() < 0.7 else 0.0
                p['ms'] = [lib.dyadic(rng, 0, 4, 3) if rng.random() < 0.7 else 0.0 for _ in range(d - 1)]
            # frozen pops: need zero migration to/from them
            if d >= 2 and rng.random() < 0.3:
                f = rng.randrange(d)
                pops[f]['frozen'] = True
                for i, p in enumerate(pops):
                    others = [j for j in range(d) if j != i]
                    p['ms'] = [0.0 if (i == f or j == f) else m for j, m in zip(others, p['ms'])]
            if d == 2 and rng.random() < 0.3:
                pops[rng.randrange(2)]['nomut'] = True
            tf = rng.choice([1 / 64, 1 / 128, 1 / 256, 1 / 1024])
            theta0 = lib.dyadic(rng, 0.25, 4, 4)
            # T = a few steps: dt = tf/maxVM
            mv = max(max(0.25 / p['nu'], sum(p['ms']), abs(p['gamma']) * 0.25) for p in pops)
            dt = tf / mv
            nsteps = rng.choice([1, 2, 3]) if not ctx.quick else rng.choice([1, 2])
            T = numgen.logdy(rng, dt * (nsteps - 0.6), dt * (nsteps - 0.1)) if nsteps > 0 else 0.0
            delj = False
            size = n ** d
            phi = numgen.density(rng, size)
            mode = rng.choice([None, 'const', 'lin']) if d <= 3 else rng.choice(['const', 'lin'])
            c = {'kind': 'driver', 'shape': [n] * d, 'grid': g, 'pops': pops, 'theta0': theta0, 'tf': tf, 'delj': delj,
                 'T': T, 'phi': phi, 'as_func': mode, 'theta_slope': 0.0}
            if mode == 'lin':
                for p in pops:
                    p['nu_slope'] = lib.dyadic(rng, 0, 2, 3)
                c['theta_slope'] = lib.dyadic(rng, 0, 1, 3)
            cases.append(c)
            # the const-vs-function pair (d <= 3): same case through the other driver
            if d <= 3 and mode in (None, 'const'):
                c2 = json.loads(json.dumps(c)); c2['as_func'] = 'const' if mode is None else None; c2['pair_of'] = len(cases) - 1
                cases.append(c2)
    # drivers with the delj (Chang-Cooper) switch on: selection only (no migration), so that |w/V| stays in the
    # well-conditioned band on every interval; constants and constant functions through both drivers
    for d in range(1, 6):
        for rep in range(ctx.pick(1, 4)):
            n = {1: rng.randint(6, 12), 2: rng.randint(4, 7), 3: rng.randint(4, 5), 4: 4, 5: 3}[d]
            for attempt in range(20):
                g = numgen.grid(rng, n, kind=rng.choice(['uniform', 'quad', 'random']))
                pops = [numgen.pop(rng, d, mig=False, beta=(d == 1)) for _ in range(d)]
                for p in pops:
                    p['nu'] = numgen.logdy(rng, 0.25, 2, 3)
                    p['gamma'] = rng.choice([-1, 1]) * lib.dyadic(rng, 2, 8, 2)
                    p['h'] = rng.choice([0.5, 0.25, 0.75])
                if all(wv_ok(g, p, None, d) for p in pops):
                    break
            else:
                continue
            tf = 1 / 128
            mv = max(max(0.25 / p['nu'], abs(p['gamma']) * 0.25) for p in pops)
            T = numgen.logdy(rng, 1.2 * tf / mv, 1.9 * tf / mv)
            mode = rng.choice([None, 'const']) if d <= 3 else 'const'
            c = {'kind': 'driver', 'shape': [n] * d, 'grid': g, 'pops': pops, 'theta0': lib.dyadic(rng, 0.25, 4, 4), 'tf': tf, 'delj': True,
                 'T': T, 'phi': numgen.density(rng, n ** d), 'as_func': mode, 'theta_slope': 0.0}
            cases.append(c)
            if d <= 3:
                c2 = json.loads(json.dumps(c)); c2['as_func'] = 'const' if mode is None else None; c2['pair_of'] = len(cases) - 1
                cases.append(c2)
    return cases

def coq_kcase(c, out):
    return '{| kc_shape := %s; kc_grids := %s; kc_pop := %s; kc_k := %d%%nat; kc_dt := %s; kc_delj := %s; kc_phi := %s; kc_impl := %s |}' % (
        natl(c['shape']), qll(c['grids']), coq_pop(c['pop']), c['k'], q(c['dt']), b(c['delj']), zzl(c['phi']), zzl(out))

def coq_pcase(c, out):
    return '{| pc_shape := %s; pc_k := %d%%nat; pc_a := %s; pc_b := %s; pc_c := %s; pc_dt := %s; pc_phi := %s; pc_impl := %s |}' % (
        natl(c['shape']), c['k'], zzl(c['a']), zzl(c['b']), zzl(c['c']), q(c['dt']), zzl(c['phi']), zzl(out))

def coq_tcase(c, out):
    rows = '[' + '; '.join('(%s, %s, %s, %s)' % (q(a), q(bb), q(cc), q(r)) for a, bb, cc, r in zip(c['a'], c['b'], c['c'], c['r'])) + ']'
    return '{| tc_rows := %s; tc_impl := %s |}' % (rows, ql(out))

def coq_dcase(c, out):
    return ('{| dc_shape := %s; dc_grid := %s; dc_pops := [%s]; dc_nuslopes := %s; dc_theta0 := %s; dc_thslope := %s; dc_tf := %s; '
            'dc_delj := %s; dc_T := %s; dc_tdep := %s; dc_phi := %s; dc_impl := %s |}') % (
        natl(c['shape']), ql(c['grid']), '; '.join(coq_pop(p) for p in c['pops']),
        ql([p.get('nu_slope', 0.0) if c['as_func'] == 'lin' else 0.0 for p in c['pops']]), q(c['theta0']),
        q(c.get('theta_slope', 0.0) if c['as_func'] == 'lin' else 0.0), q(c['tf']), b(c['delj']), q(c['T']),
        b(c['as_func'] is not None), zzl(c['phi']), zzl(out))

def finite(xs):
    return all(isinstance(x, float) and math.isfinite(x) for x in xs)

# ------------------------------------------------------------------------------------------------------------------
# Call histories.  Every generated case is executed inside a process together with other cases, in a fixed order that
# is part of the case description.  The model is a pure function of the arguments of one call, so a kernel or driver
# that keeps ANY state between calls (static work arrays re-made only when a size changes, coefficients cached by size /
# by pointer / by parameter value, a result remembered for "the same" input) disagrees with the model on a later call
# of a suitable sequence.  The sequences below change one GROUP of arguments at a time between consecutive calls of the
# same function (quick) or one single argument at a time (thorough and the targeted search), always keeping the array
# sizes: a cache keyed by any proper subset of the arguments has, somewhere in the sequence, two consecutive calls that
# agree on its key and differ elsewhere.

AX = 'xyzab'
DRIVER_NAMES = ['one_pop', 'two_pops', 'three_pops', 'four_pops', 'five_pops']

def fn_of(c):
    """the function of the real code a case calls (identity used when a failing sequence is shortened)"""
    k = c['kind']
    if k in ('kernel', 'wrap'):
        return 'implicit_%dD%s/%s' % (len(c['shape']), AX[c['k']], 'ctypes' if k == 'kernel' else 'wrap')
    if k == 'precalc':
        return 'implicit_precalc_%dD%s/%s' % (len(c['shape']), AX[c['k']], c.get('via') or 'ctypes')
    if k == 'tridiag':
        return 'tridiag/%s' % (c.get('via') or 'ctypes')
    return DRIVER_NAMES[len(c['shape']) - 1]

def tag_of(c):
    k = c['kind']
    if k in ('kernel', 'wrap'):
        return 'kerneldelj' if c['delj'] else 'kernel'
    if k == 'driver':
        return 'driverdelj' if c['delj'] else 'driver'
    return k

def describe(c):
    k = c['kind']
    if k in ('kernel', 'wrap'):
        s = 'implicit_%dD%s (%s)' % (len(c['shape']), AX[c['k']], k)
    elif k == 'precalc':
        s = 'implicit_precalc_%dD%s (%s)' % (len(c['shape']), AX[c['k']], c['via'])
    elif k == 'tridiag':
        s = 'tridiag n=%d (%s)' % (len(c['a']), c['via'])
    else:
        s = '%d-pop driver as_func=%s%s' % (len(c['shape']), c['as_func'], ' delj=on' if c['delj'] else '')
        if c.get('layout'):
            s += ' layout phi=%s grid=%s' % (c['layout'].get('phi'), c['layout'].get('grid'))
    if c.get('hist'):
        s += ' [history %s, call %d: %s]' % (c['hist'], c['hstep'], c['step'])
    return s

COQ = {'kernel': (coq_kcase, 'kcheck', TOL), 'kerneldelj': (coq_kcase, 'kcheck', TOL_DELJ), 'precalc': (coq_pcase, 'pcheck', TOL),
       'tridiag': (coq_tcase, 'tcheck', TOL), 'driver': (coq_dcase, 'dcheck', TOL), 'driverdelj': (coq_dcase, 'dcheck', TOL_DELJ)}

def strip(c):
    return {k: v for k, v in c.items() if not k.startswith('_')}

def differing_grid(rng, g, exact_ends):
    """a grid of the same length whose interior points all differ visibly from those of g"""
    n = len(g)
    for attempt in range(200):
        h = numgen.grid(rng, n, kind=None if attempt < 100 else 'random', exact_ends=exact_ends)
        if all(abs(a - b_) >= 1 / 128 for a, b_ in zip(g[1:-1], h[1:-1])):
            return h
    raise RuntimeError('no differing grid of length %d found' % n)

def kparams(rng, d, other=None):
    """kernel parameters with every entry non-zero (and different from those of `other`)"""
    for attempt in range(100):
        p = {'nu': numgen.logdy(rng, 1e-2, 1e2), 'gamma': rng.choice([-1, 1]) * lib.dyadic(rng, 0.5, 40, 4), 'h': lib.dyadic(rng, 0, 1, 5),
             'beta': numgen.logdy(rng, 0.2, 5) if d == 1 else 1.0, 'ms': [lib.dyadic(rng, 0.25, 20, 4) for _ in range(d - 1)]}
        if other is None or (p['nu'] != other['nu'] and p['gamma'] != other['gamma'] and p['h'] != other['h'] and
                             (d > 1 or p['beta'] != other['beta']) and all(a != b_ for a, b_ in zip(p['ms'], other['ms']))):
            return p
    raise RuntimeError('kparams')

def delj_kparams(rng, d, grids_k):
    """selection-only parameters keeping |w/V| in the well-conditioned band of the Chang-Cooper formula on every given grid"""
    for attempt in range(40):
        p = {'nu': numgen.logdy(rng, 0.25, 2, 3), 'gamma': rng.choice([-1, 1]) * lib.dyadic(rng, 2, 8, 2), 'h': rng.choice([0.5, 0.25, 0.75]),
             'beta': numgen.logdy(rng, 0.5, 2, 3) if d == 1 else 1.0, 'ms': [0.0] * (d - 1)}
        if all(wv_ok(g, p, None, d) for g in grids_k):
            return p
    return None

def _kcase(st, via, hist, label, reuse):
    pop = {'nu': st['nu'], 'gamma': st['gamma'], 'h': st['h'], 'beta': st['beta'], 'ms': list(st['ms']), 'frozen': False, 'nomut': False}
    return {'kind': via, 'shape': list(st['shape']), 'k': st['k'], 'grids': [list(g) for g in st['grids']], 'nu': st['nu'], 'ms': list(st['ms']),
            'gamma': st['gamma'], 'h': st['h'], 'beta': st['beta'], 'dt': st['dt'], 'delj': st['delj'], 'phi': list(st['phi']), 'pop': pop,
            'reuse': reuse, 'hist': hist, 'step': label}

def kernel_history(rng, d, k, via, fine, big, rep=0):
    """one sequence of calls of implicit_{d}D{k} (via ctypes: unequal dimensions; via the Cython wrapper: cubic)."""
    if via == 'kernel':
        lo, hi = ({1: (6, 10), 2: (4, 6), 3: (3, 5), 4: (3, 4), 5: (3, 3)} if not big else {1: (10, 30), 2: (6, 12), 3: (5, 8), 4: (4, 6), 5: (3, 4)})[d]
        shape = [rng.randint(lo, hi) for _ in range(d)]
        if d >= 2 and len(set(shape)) == 1:
            shape[k] += 1
        shape[k] = max(shape[k], 4)
        shape2 = [n + 1 if n < hi + 1 else n - 1 for n in shape]
    else:
        n = ({1: rng.randint(6, 10), 2: rng.randint(4, 6), 3: 4, 4: 3, 5: 3} if not big else {1: rng.randint(10, 30), 2: rng.randint(6, 10), 3: rng.randint(5, 6), 4: 4, 5: 3})[d]
        shape = [n] * d
        shape2 = [n + 1] * d
    size = lambda s: int(math.prod(s))
    ex = rng.random() < 0.75
    A = [numgen.grid(rng, n, exact_ends=ex) for n in shape]
    B = [differing_grid(rng, g, ex) for g in A]
    P1 = kparams(rng, d); P2 = kparams(rng, d, P1)
    dt1 = numgen.logdy(rng, 1e-5, 1e-1); dt2 = dt1 * rng.choice([0.25, 0.5, 2.0, 4.0])
    phi1 = numgen.density(rng, size(shape), 'random'); phi2 = numgen.density(rng, size(shape), 'random')
    hist = 'implicit_%dD%s/%s#%d' % (d, AX[k], 'ctypes' if via == 'kernel' else 'wrap', rep)
    st = dict(shape=shape, k=k, grids=list(A), dt=dt1, delj=False, phi=phi1, **P1)
    base = dict(st)
    seq = []
    def emit(label, reuse=True, **ch):
        st.update(ch)
        seq.append(_kcase(st, via, hist, label, reuse))
    emit('base call')
    if not fine:
        emit('every grid replaced by a different grid of the same size (same buffers, same parameters, dt, phi)', grids=list(B))
        emit('parameters, dt and phi changed (same grids)', dt=dt2, phi=phi2, **P2)
        if d >= 2 and via == 'kernel':
            emit("grid of the swept axis back to the first one (other axes' grids kept)", grids=[A[j] if j == k else B[j] for j in range(d)])
            emit("other axes' grids back to the first ones: first grids again (fresh buffers)", reuse=False, grids=list(A))
        else:
            emit('first grids again (fresh buffers)', reuse=False, grids=list(A))
    else:
        emit('phi only changed', phi=phi2)
        emit('dt only changed', dt=dt2)
        emit('nu only changed', nu=P2['nu'])
        for j in range(d - 1):
            emit('migration rate %d only changed' % j, ms=[P2['ms'][i] if i == j else st['ms'][i] for i in range(d - 1)])
        emit('gamma only changed', gamma=P2['gamma'])
        emit('h only changed', h=P2['h'])
        if d == 1:
            emit('beta only changed', beta=P2['beta'])
        for j in range(d):
            emit('grid of axis %d only replaced by a different grid of the same size (same buffer)' % j, grids=[B[i] if i == j else st['grids'][i] for i in range(d)])
        for j in range(d):
            emit('grid of axis %d only back to the first one (fresh buffers)' % j, reuse=False, grids=[A[i] if i == j else st['grids'][i] for i in range(d)])
    if via == 'kernel' or fine:
        P3 = delj_kparams(rng, d, [A[k], B[k]]) or delj_kparams(rng, d, [A[k]])
        if P3 is not None:
            emit('delj trick switched on, selection-only parameters', delj=True, **P3)
            if wv_ok(B[k], P3, None, d):
                emit('grid of the swept axis replaced (same size, same buffers), delj on', grids=[B[j] if j == k else st['grids'][j] for j in range(d)])
            if fine:
                emit('delj trick switched off only', delj=False)
        exc = rng.random() < 0.75
        emit('different shape, everything new', shape=shape2, grids=[numgen.grid(rng, n, exact_ends=exc) for n in shape2], delj=False,
             phi=numgen.density(rng, size(shape2), 'random'), dt=numgen.logdy(rng, 1e-5, 1e-1), **kparams(rng, d))
        emit('the base call again (fresh buffers)', reuse=False, **base)
    for i, c in enumerate(seq):
        c['hstep'] = i
    return seq

def precalc_history(rng, d, k, via, big, rep=0):
    if via == 'ctypes':
        lo, hi = (3, 5) if not big else (4, 9)
        shape = [rng.randint(lo, hi) for _ in range(d)]
        if len(set(shape)) == 1:
            shape[k] += 1
        shape2 = [n + 1 for n in shape]
    else:
        n = rng.randint(3, 5) if not big else rng.randint(4, 8)
        shape = [n] * d; shape2 = [n + 1] * d
    size = lambda s: int(math.prod(s))
    def coefs(sz):
        return {'a': [lib.dyadic(rng, -4, -0.25, 6) for _ in range(sz)], 'c': [lib.dyadic(rng, -4, -0.25, 6) for _ in range(sz)],
                'b': [lib.dyadic(rng, 8.5, 20, 6) for _ in range(sz)]}
    hist = 'implicit_precalc_%dD%s/%s#%d' % (d, AX[k], via, rep)
    st = dict(shape=shape, dt=numgen.logdy(rng, 1e-5, 1e-1), phi=numgen.density(rng, size(shape), 'random'), **coefs(size(shape)))
    base = dict(st)
    seq = []
    def emit(label, reuse=True, **ch):
        st.update(ch)
        seq.append({'kind': 'precalc', 'via': via, 'shape': list(st['shape']), 'k': k, 'a': list(st['a']), 'b': list(st['b']), 'c': list(st['c']), 'dt': st['dt'],
                    'phi': list(st['phi']), 'reuse': reuse, 'hist': hist, 'step': label})
    emit('base call')
    emit('coefficient arrays replaced (same shape, same buffers, same dt and phi)', **coefs(size(shape)))
    emit('dt and phi changed (same coefficient arrays)', dt=st['dt'] * rng.choice([0.25, 0.5, 2.0, 4.0]), phi=numgen.density(rng, size(shape), 'random'))
    if via == 'ctypes' or big:
        emit('different shape, everything new', shape=shape2, dt=numgen.logdy(rng, 1e-5, 1e-1), phi=numgen.density(rng, size(shape2), 'random'), **coefs(size(shape2)))
    emit('the base call again (fresh buffers)', reuse=False, **base)
    for i, c in enumerate(seq):
        c['hstep'] = i
    return seq

def tridiag_history(rng, via, big, rep=0):
    n = rng.randint(4, 12) if not big else rng.randint(8, 60)
    def rows(m):
        return {'a': [lib.dyadic(rng, -4, 4, 6) for _ in range(m)], 'c': [lib.dyadic(rng, -4, 4, 6) for _ in range(m)],
                'b': [rng.choice([-1, 1]) * lib.dyadic(rng, 8.5, 20, 6) for _ in range(m)], 'r': [lib.dyadic(rng, -8, 8, 6) for _ in range(m)]}
    hist = 'tridiag/%s#%d' % (via, rep)
    st = rows(n); base = dict(st)
    seq = []
    def emit(label, reuse=True, **ch):
        st.update(ch)
        seq.append({'kind': 'tridiag', 'via': via, 'a': list(st['a']), 'b': list(st['b']), 'c': list(st['c']), 'r': list(st['r']), 'reuse': reuse, 'hist': hist, 'step': label})
    emit('base call')
    emit('matrix replaced, same right-hand side, same size (same buffers)', **{x: v for x, v in rows(n).items() if x != 'r'})
    emit('right-hand side only replaced', r=rows(n)['r'])
    emit('different size', **rows(n + rng.randint(1, 3)))
    emit('the base call again (fresh buffers)', reuse=False, **base)
    for i, c in enumerate(seq):
        c['hstep'] = i
    return seq

def gen_history_cases(ctx, rng, only=None, fine=None, big_from=None, reps=None):
    """the call sequences of every C kernel (15 on-the-fly, 5 precalc: through ctypes and through the Cython wrappers) and of
    tridiag, in the order in which they are executed in one process.  only: set of function names to restrict to."""
    fine = (not ctx.quick) if fine is None else fine
    big_from = ctx.pick(99, 1) if big_from is None else big_from      # repetitions from this one on use the larger shapes
    reps = ctx.pick(1, 2) if reps is None else reps
    out = []
    for rep in range(reps):
        big = rep >= big_from
        for d in range(1, 6):
            for k in range(d):
                if only is not None and 'implicit_%dD%s' % (d, AX[k]) not in only:
                    continue
                for via in ('kernel', 'wrap'):
                    out += kernel_history(rng, d, k, via, fine, big, rep)
        for d, k in [(2, 0), (2, 1), (3, 0), (3, 1), (3, 2)]:
            if only is not None and 'implicit_precalc_%dD%s' % (d, AX[k]) not in only:
                continue
            for via in ('ctypes', 'wrap'):
                out += precalc_history(rng, d, k, via, big, rep)
        if only is None or 'tridiag' in only:
            for via in ('ctypes', 'wrap'):
                out += tridiag_history(rng, via, big, rep)
    return out

def driver_setting(rng, d, delj, mode, grids, nsteps_max):
    """parameters, T, theta0, phi of one driver call (everything except the grid); with delj the parameters keep |w/V| in the
    well-conditioned band on every grid of `grids`"""
    n = len(grids[0])
    for attempt in range(60):
        if delj:
            pops = [numgen.pop(rng, d, mig=False, beta=(d == 1)) for _ in range(d)]
            for p in pops:
                p['nu'] = numgen.logdy(rng, 0.25, 2, 3)
                p['gamma'] = rng.choice([-1, 1]) * lib.dyadic(rng, 2, 8, 2)
                p['h'] = rng.choice([0.5, 0.25, 0.75])
            if not all(wv_ok(g, p, None, d) for p in pops for g in grids):
                continue
            tf = 1 / 128
        else:
            pops = [numgen.pop(rng, d, beta=(d == 1)) for _ in range(d)]
            for p in pops:
                p['nu'] = numgen.logdy(rng, 0.05, 20)
                p['gamma'] = lib.dyadic(rng, -8, 8, 3) or 1.5
                p['ms'] = [lib.dyadic(rng, 0.125, 4, 3) for _ in range(d - 1)]
            tf = rng.choice([1 / 64, 1 / 128, 1 / 256, 1 / 1024])
        break
    else:
        return None
    mv = max(max(0.25 / p['nu'], sum(p['ms']), abs(p['gamma']) * 0.25) for p in pops)
    dt = tf / mv
    nsteps = rng.randint(1, nsteps_max)
    T = numgen.logdy(rng, dt * (nsteps - 0.6), dt * (nsteps - 0.1))
    s = {'pops': pops, 'theta0': lib.dyadic(rng, 0.25, 4, 4), 'tf': tf, 'delj': delj, 'T': T, 'phi': numgen.density(rng, n ** d, 'random'),
         'as_func': mode, 'theta_slope': 0.0}
    if mode == 'lin':
        for p in pops:
            p['nu_slope'] = lib.dyadic(rng, 0, 2, 3)
        s['theta_slope'] = lib.dyadic(rng, 0, 1, 3)
    return s

def gen_driver_histories(ctx, rng, dims=(1, 2, 3, 4, 5), big_from=None, reps=None):
    """per driver one_pop..five_pops, per parameter passing (constants / functions of time) and per delj setting:
    (grid A, setting 1) -> (grid B of the same size, setting 1) -> (grid B, setting 2) -> (grid A, setting 2), all in one process"""
    big_from = ctx.pick(99, 1) if big_from is None else big_from
    reps = ctx.pick(1, 2) if reps is None else reps
    out = []
    for rep in range(reps):
        for d in dims:
            n = ({1: rng.randint(6, 10), 2: 5, 3: 4, 4: 3, 5: 3} if rep < big_from else {1: rng.randint(10, 24), 2: rng.randint(6, 9), 3: rng.randint(5, 6), 4: 4, 5: 3})[d]
            for delj in (False, True):
                for path in ('const', 'func'):
                    hist = '%s/%s%s#%d' % (DRIVER_NAMES[d - 1], 'constants' if path == 'const' else 'functions', '/delj' if delj else '', rep)
                    m1 = None if path == 'const' else 'const'
                    m2 = None if path == 'const' else ('const' if delj else 'lin')
                    for attempt in range(20):
                        A = numgen.grid(rng, n, kind=rng.choice(['uniform', 'exp', 'quad', 'random'] if not delj else ['uniform', 'quad', 'random']))
                        B = differing_grid(rng, A, True)
                        s1 = driver_setting(rng, d, delj, m1, [A, B], 1 if delj else 2)
                        s2 = driver_setting(rng, d, delj, m2, [A, B], 1 if delj else 2)
                        if s1 is not None and s2 is not None:
                            break
                    else:
                        ctx.obligation('call history %s could be generated' % hist, False, 'harness', 'no well-conditioned delj parameters found for two grids of %d points' % n)
                        continue
                    steps = [(A, s1, 'base call'), (B, s1, 'grid only replaced by a different grid of the same size'),
                             (B, s2, 'parameters, T, theta0, phi changed (same grid)'), (A, s2, 'first grid again')]
                    for i, (g, s, label) in enumerate(steps):
                        c = json.loads(json.dumps(s))
                        c.update({'kind': 'driver', 'shape': [n] * d, 'grid': list(g), 'hist': hist, 'hstep': i, 'step': label})
                        out.append(c)
    return out

def gen_layout_cases(ctx, bases):
    """memory-layout variants of driver calls: same logical phi / grid, the array objects Fortran-ordered, transposed views,
    negatively strided views, every-other-element views.  bases: evaluated driver cases (C-contiguous arguments)."""
    out = []
    for c in bases:
        d = len(c['shape'])
        if d == 1:
            combos = [('neg', 'neg'), ('step', 'step')]
        elif ctx.quick:
            combos = [('F', None), ('T', 'neg'), ('neg', 'step'), ('step', None)]
        else:
            combos = [(a, g) for a in ('F', 'T', 'neg', 'step') for g in (None, 'neg', 'step')]
        for lp, lg in combos:
            v = json.loads(json.dumps(strip(c)))
            v.pop('id', None)
            v['layout'] = {'phi': lp, 'grid': lg}
            v['layout_of'] = c['id']
            v['hist'] = 'layouts'; v['hstep'] = len(out); v['step'] = 'layout variant of the base call of history %s' % c.get('hist')
            out.append(v)
    return out

# ------------------------------------------------------------------------------------------------------------------
# running the implementation: one fresh interpreter per process, cases in the given order

def run_proc(cases, timeout=1800):
    """Run the cases, in order, inside ONE fresh interpreter.  Returns {id: record}.  When the interpreter dies inside a call
    (crash in compiled code) that call gets an error record and the remaining cases continue in a new interpreter; every case
    records the position at which its process started (c['_pstart']): its history is cases[_pstart : own position]."""
    import subprocess
    from harness import overlay
    script = os.path.join(lib.HARNESS, 'impl', 'c02_impl.py')
    out = {}
    start = 0
    barren = 0
    while start < len(cases):
        chunk = cases[start:]
        r = subprocess.run([lib.PY, script, '--stream'], input=json.dumps([strip(c) for c in chunk]), capture_output=True, text=True,
                           timeout=timeout, env=overlay.env(), cwd=lib.BUILD)
        n = 0
        for line in r.stdout.splitlines():
            if line.startswith('R '):
                rec = json.loads(line[2:])
                out[rec['id']] = rec
                n += 1
        for c in chunk[:n + 1]:
            c['_pstart'] = start
        if n >= len(chunk):
            break
        barren = barren + 1 if n == 0 else 0
        if barren >= 2:
            raise RuntimeError('impl driver c02_impl.py fails before its first case (rc=%d):\n%s' % (r.returncode, r.stderr[-3000:]))
        c = chunk[n]
        out[c['id']] = {'id': c['id'], 'error': 'the interpreter died inside this call (rc=%d) %s' % (r.returncode, r.stderr[-300:])}
        start += n + 1
    return out

def same_out(a, bb, rel=1e-13):
    if a is None or bb is None or len(a) != len(bb):
        return False
    if not finite(a) or not finite(bb):
        return a == bb
    scale = max([abs(x) for x in bb] + [1e-300])
    return max(abs(x - y) for x, y in zip(a, bb)) <= rel * scale

def shorten_history(c, proc_cases):
    """c disagreed with the model (or failed) at its position in the process.  Re-run it alone in a fresh interpreter: when the
    lone result is the same, the call itself is the failing input (empty history).  Otherwise the failure depends on the
    preceding calls: return the shortest of [the previous call] / [the previous calls of the same function] / [everything
    before] that reproduces the in-sequence result.  Returns (history, note)."""
    pos = next(i for i, x in enumerate(proc_cases) if x is c)
    prefix = proc_cases[c.get('_pstart', 0):pos]
    got = c.get('_out')
    def rerun(hist):
        seq = [dict(strip(x), id=i) for i, x in enumerate(hist + [c])]
        try:
            return run_proc(seq, timeout=600).get(len(seq) - 1, {})
        except Exception as e:
            return {'error': 'rerun failed: %s' % e}
    def same(rec):
        if got is None:
            return 'error' in rec
        return same_out(rec.get('res'), got)
    if not prefix:
        return [], 'first call of its process'
    alone = rerun([])
    if same(alone):
        return [], 'the same call alone in a fresh interpreter gives the same result'
    dev = None
    ar = alone.get('res')
    if ar is not None and got is not None and finite(ar) and finite(got) and len(ar) == len(got):
        dev = max(abs(x - y) for x, y in zip(ar, got)) / max([abs(x) for x in ar] + [1e-300])
    note = 'HISTORY DEPENDENT: the same call alone in a fresh interpreter gives a different result (rel. difference %s): state is kept between calls' % (
        '%.3g' % dev if dev is not None else 'n/a')
    samefn = [x for x in prefix if fn_of(x) == fn_of(c)]
    seen = []
    for h in (prefix[-1:], samefn[-1:], samefn[-3:], samefn):
        if not h or h in seen:
            continue
        seen.append(h)
        if same(rerun(h)):
            break
    else:
        return [strip(x) for x in prefix], note + '; history = all %d preceding calls of the process' % len(prefix)
    # h reproduces the result: reduce it (a single earlier call, else greedy removal), at most 30 more runs
    budget = [30]
    def tryh(hh):
        if budget[0] <= 0:
            return False
        budget[0] -= 1
        return same(rerun(hh))
    if len(h) > 1:
        for x in reversed(h[-12:]):
            if tryh([x]):
                h = [x]
                break
        else:
            i = 0
            while i < len(h) and len(h) > 1 and budget[0] > 0:
                hh = h[:i] + h[i + 1:]
                if tryh(hh):
                    h = hh
                else:
                    i += 1
    return [strip(x) for x in h], note + '; reproduced by the %d preceding call(s) recorded as history' % len(h)

# ------------------------------------------------------------------------------------------------------------------
# evaluating the model: all groups in one balanced batch of Coq files

def cost_of(c, piv=False):
    """estimated evaluation cost of a case in Coq, unit = one kernel entry without delj (about 2 ms); calibrated on measured files"""
    k = c['kind']
    if k == 'tridiag':
        return 30 + len(c['a'])
    e = 1
    for n in c['shape']:
        e *= n
    if k == 'precalc':
        return 50 + e
    if k in ('kernel', 'wrap'):
        if piv:
            return 50 + e * (12 if c['delj'] else 1.1)
        return 50 + e * (4.2 if c['delj'] else 1)
    d = len(c['shape'])
    mv = max(max(0.25 / p['nu'], sum(p['ms']), abs(p['gamma']) * 0.25) for p in c['pops'])
    nst = max(1, math.ceil(c['T'] / (c['tf'] / mv)))
    return 50 + e * d * nst * 0.6 * (10 if c['delj'] else 1)

def coq_batch(ctx, jobs, nfiles=44, timeout=1800):
    """jobs: list of (tag, check_fn_text, tol_text, [(id, coq_expr_text, cost)], record_err).  Writes cost-balanced files
    C02_<tag>_<k>.v (format of lib.Ctx.coq_cases), runs all of them in one pool, most expensive first.
    Returns {tag: {id: (ok, log2err)}}; missing ids = evaluation failure."""
    total = sum(x[2] for j in jobs for x in j[3]) or 1
    target = max(total / nfiles, 1500.0)
    files = []
    for tag, check_fn, tol_text, items, record_err in jobs:
        if not items:
            continue
        jt = sum(x[2] for x in items)
        nb = max(1, min(len(items), int(math.ceil(jt / target))))
        bins = [[0.0, []] for _ in range(nb)]
        for it in sorted(items, key=lambda x: -x[2]):
            bn = min(bins, key=lambda b_: b_[0])
            bn[0] += it[2]; bn[1].append(it)
        for kk, (cst, chunk) in enumerate(bins):
            chunk.sort(key=lambda x: x[0])
            body = [HEADER, '']
            for cid, ex, _ in chunk:
                body.append('Definition case_%d := %s.' % (cid, ex))
            body.append('Definition results := map (fun p => (fst p, %s (snd p))) [%s].' % (check_fn, '; '.join('(%d%%Z, case_%d)' % (cid, cid) for cid, _, _ in chunk)))
            body.append('Eval vm_compute in results.')
            files.append((cst, '%s_%s_%d' % (ctx.prop, tag, kk), '\n'.join(body) + '\n', tag, tol_text, record_err))
    files.sort(key=lambda f: -f[0])
    res = lib.run_case_files([(n, t) for _, n, t, _, _, _ in files], timeout=timeout)
    out = {j[0]: {} for j in jobs}
    for cst, n, t, tag, tol_text, record_err in files:
        rc, so, se, secs = res[n]
        if rc != 0:
            ctx.obligation('coqc %s' % n, False, 'correspondence', se[-600:])
            continue
        for cid, ok, e in lib.parse_results(so):
            out[tag][cid] = (ok, e)
            if record_err:
                ctx.err(tag, e, tol_text)
    for tag, _, _, items, _ in jobs:
        if items:
            ctx.checker_cmds.append('coqc -Q coq/theories Dadi build/cases/%s_%s_*.v  (%d cases, vm_compute)' % (ctx.prop, tag, len(items)))
    return out

def evaluate(ctx, procs, pivots=True):
    """procs: list of (process name, [cases in execution order]).  Runs every process, compares every result with the model.
    Returns {id: (ok, log2err) or None}."""
    allc = [c for _, cs in procs for c in cs]
    for i, c in enumerate(allc):
        c['id'] = i
    # --- the real code, one interpreter per process (4 at a time)
    from concurrent.futures import ThreadPoolExecutor
    with ThreadPoolExecutor(max_workers=4) as ex:
        futs = [(name, cs, ex.submit(run_proc, cs)) for name, cs in procs if cs]
        for name, cs, f in futs:
            byid = f.result()
            for pos, c in enumerate(cs):
                c['_proc'] = name; c['_pos'] = pos
                r = byid.get(c['id'], {'error': 'no result'})
                if 'error' in r or not finite(r.get('res', [float('nan')])):
                    c['_err'] = r.get('error', 'non-finite output')
                    if 'res' in r:
                        c['_out'] = r['res']
                else:
                    c['_out'] = r['res']
    # --- layout variants: equal (to round-off) to the C-contiguous run of the same logical arguments, which is compared
    #     with the model; a variant that differs is itself sent to the model
    byid = {c['id']: c for c in allc}
    for c in allc:
        if 'layout_of' in c and '_err' not in c:
            base = byid.get(c['layout_of'])
            if base is not None and '_out' in base and '_err' not in base and same_out(c['_out'], base['_out'], 1e-12):
                c['_as_base'] = True
    jobs = {}
    for c in allc:
        if '_err' in c or c.get('_as_base'):
            continue
        tag = tag_of(c)
        coqfn, checkfn, tol = COQ[tag]
        jobs.setdefault(tag, (tag, '(%s %s)' % (checkfn, q(tol)), 'rel %.0e of max|phi|' % float(tol), [], True))[3].append((c['id'], coqfn(c, c['_out']), cost_of(c)))
        if pivots and tag.startswith('kernel'):
            jobs.setdefault(tag + 'piv', (tag + 'piv', 'kpiv', 'n/a', [], False))[3].append((c['id'], coqfn(c, c['_out']), cost_of(c, True)))
    res = coq_batch(ctx, list(jobs.values()), nfiles=ctx.pick(44, 128))
    results = {}
    for c in allc:
        if c.get('_as_base'):
            results[c['id']] = res.get(tag_of(byid[c['layout_of']]), {}).get(c['layout_of'])
        else:
            results[c['id']] = res.get(tag_of(c), {}).get(c['id'])
    return results, res

def pivot_accounting(ctx, allc, res):
    """The solve/uniqueness theorems assume non-vanishing Thomas pivots; Proofs/Pivots.v proves them positive under the
    cell-Peclet condition.  Evaluate both on the model for every line of every generated kernel case: the hypothesis
    must hold on everything generated (otherwise the correspondence says nothing there), and the share of lines
    meeting the Peclet condition is reported (non-vacuity of the proved sufficient condition)."""
    for tag in ('kernel', 'kerneldelj'):
        nlines = npec = 0
        for c in allc:
            if tag_of(c) != tag or '_err' in c or '_out' not in c:
                continue
            rr = res.get(tag + 'piv', {}).get(c['id'])
            if rr is None:
                ctx.obligation('%s case %d: pivots of the model evaluated' % (tag, c['id']), False, 'hypothesis', 'no result from coqc')
                continue
            ok, cnt = rr
            n = 1
            for s_ in c['shape']:
                n *= s_
            nlines += n // c['shape'][c['k']]
            npec += cnt // c['shape'][c['k']]
            ctx.obligation('%s case %d: model pivots non-zero on every line, positive on every line meeting the cell-Peclet condition' % (tag, c['id']), ok, 'hypothesis',
                           '' if ok else 'a Thomas pivot of the model vanishes or is non-positive under the Peclet condition: theorem C02_pivots_positive_under_peclet_condition contradicted or hypothesis `nonzero` unmet')
            if not ok:
                ctx.violation('%s: the implicit system of a generated line has a vanishing pivot (or a non-positive one under the cell-Peclet condition): the scheme is not uniquely solvable there' % tag,
                              data={'case': strip(c)}, no_input=True, broken='hypothesis nonzero (all_pivots (line_rows ...)) of C02_step_solves_scheme')
        ctx.stats['lines_checked_for_pivots_' + tag] = nlines
        ctx.stats['lines_meeting_cell_peclet_condition_' + tag] = npec

def account(ctx, procs, results, max_reports=2):
    nbad = {}
    for pname, cs in procs:
        for c in cs:
            tag = tag_of(c)
            d = len(c.get('shape', [0]))
            if '_err' in c:
                ctx.obligation('%s case %d runs: %s' % (tag, c['id'], describe(c)), False, 'correspondence', c['_err'])
                hist, note = shorten_history(c, cs) if nbad.get('err', 0) < max_reports else ([strip(x) for x in cs[c.get('_pstart', 0):c['_pos']]], '')
                nbad['err'] = nbad.get('err', 0) + 1
                ctx.violation('%s: implementation failed or returned non-finite values: %s%s' % (describe(c), c['_err'], ('; ' + note) if note else ''),
                              data={'process': pname, 'history': hist, 'case': strip(c), 'impl': c.get('_out'), 'error': c['_err']})
                continue
            ctx.count('%s d=%d' % (tag, d))
            if c.get('hist'):
                ctx.count('calls inside a designed call history' if c['hist'] != 'layouts' else 'memory-layout variants of driver calls')
            triv = tag.startswith('kernel') and c['gamma'] == 0 and all(m == 0 for m in c['ms'])
            ctx.case(signature=None if triv else (tag, json.dumps(strip(c), sort_keys=True)),
                     sample={k: (v if not isinstance(v, list) or len(v) < 30 else v[:30]) for k, v in c.items() if not k.startswith('_') and k != 'pop'} if ctx.evaluations % 53 == 0 else None)
            rr = results.get(c['id'])
            ok = rr is not None and rr[0]
            detail = ''
            if c.get('_as_base'):
                detail = 'result equals (1e-12) the result of the C-contiguous call %d, which is compared with the model' % c['layout_of']
            ctx.obligation('%s case %d: %s' % (tag, c['id'], describe(c)), ok, 'correspondence', detail if ok else 'coq result %r' % (rr,))
            if not ok:
                nbad[tag] = nbad.get(tag, 0) + 1
                if nbad[tag] <= max_reports:
                    # the disagreeing case is a failing input: the real output does not solve the documented system; when the
                    # disagreement depends on the calls made before it in the same process, those calls are part of the input
                    hist, note = shorten_history(c, cs)
                    ctx.violation('%s: output differs from the solution of the documented implicit system (model) beyond tolerance%s' % (describe(c), ('; ' + note) if note else ''),
                                  data={'process': pname, 'history': hist, 'case': strip(c), 'impl': c['_out'], 'coq': rr, 'note': note})

def const_vs_func(ctx, dc):
    # const vs function of time (property clause), directly on the implementation
    for c in dc:
        if 'pair_of' in c and '_out' in c and '_out' in dc[c['pair_of']] and '_err' not in c and '_err' not in dc[c['pair_of']]:
            a, bb = c['_out'], dc[c['pair_of']]['_out']
            scale = max(1e-300, max(abs(x) for x in a))
            dev = max(abs(x - y) for x, y in zip(a, bb)) / scale
            ok = dev <= 1e-11
            ctx.obligation('const vs function-of-time drivers agree (%d pops)' % len(c['shape']), ok, 'predicate', 'rel dev %.3g' % dev)
            if not ok:
                ctx.violation('a parameter passed as a constant and as a function returning that constant give different densities (%d populations, rel dev %.3g)' % (len(c['shape']), dev),
                              data={'process': c.get('_proc'), 'history': [], 'case': strip(c), 'pair': strip(dc[c['pair_of']]), 'const': bb, 'func': a})

# ------------------------------------------------------------------------------------------------------------------
# broken translator obligations -> thorough-size search on the functions they are about

def broken_functions(ctx):
    """functions named by the translator obligations that failed: (set of kernel names, set of driver dimensions);
    an obligation that names nothing recognisable counts for everything"""
    kern = set(); dims = set()
    kof = lambda d: set('implicit_%dD%s' % (d, AX[k]) for k in range(d))
    allk = set().union(*[kof(d) for d in range(1, 6)])
    pre = set('implicit_precalc_%dD%s' % (d, AX[k]) for d, k in [(2, 0), (2, 1), (3, 0), (3, 1), (3, 2)])
    for o in ctx.obligations:
        if o['ok'] or o['kind'] != 'translator':
            continue
        name = o['name']
        txt = name + ' ' + str(o.get('detail', ''))
        ks = set(m.group(0) for m in re.finditer(r'implicit_(?:precalc_)?\dD[xyzab]', txt))
        ds = set()
        for m in re.finditer(r'pyasm_(\d)D|py(\d)D[xyz]_|_inject_mutations_(\d)D|ob_inject_(\d)D|py_Mfunc(\d)D', txt):
            ds.add(int(next(g for g in m.groups() if g)))
        for nm, d in (('_one_pop', 1), ('_two_pops', 2), ('_three_pops', 3)):
            if nm in txt:
                ds.add(d)
        if '_Mfunc1D-3D' in name:
            ds.update((1, 2, 3))
        for m in re.finditer(r'read integration(\d)D\.c|ob_Mfunc(\d)D', txt):
            ks |= kof(int(next(g for g in m.groups() if g)))
        if ks or ds:
            kern |= ks; dims |= ds
        elif 'Integration.py' in txt or 'ob_python' in name or '_compute_dt' in txt:
            dims.update(range(1, 6))
        elif 'integration_shared.c' in txt or 'ob_shared' in name or 'ob_kernels' in name:
            kern |= allk
        else:
            kern |= allk | pre | {'tridiag'}; dims.update(range(1, 6))
    return kern, dims

def run(ctx):
    ctx.rule = ('kernel cases = (dimension d, swept axis k, unequal shape, per-axis random/uniform/exponential/quadratic dyadic grids with '
                'and without exact 0/1 end points, nu, per-pair migration rates, gamma, h, beta(1-D), dt, delj switch, random non-negative density); '
                'precalc cases = random diagonally dominant coefficient arrays; driver cases = one_pop..five_pops for 1-3 steps with constants, '
                'constant functions and linear-in-time functions; call histories = per kernel (15 on-the-fly, 5 precalc, tridiag; ctypes and Cython wrapper) and per driver '
                '(constants / functions, delj off / on) a fixed sequence of calls in one process that changes one group of arguments at a time at constant array sizes '
                '(grids of the same size replaced in the same buffers, parameters, dt, phi, delj, shape, the base call again); memory-layout variants of driver calls '
                '(Fortran order, transposed view, negative strides, every-other-element views of phi and of the grid); '
                'distinct = distinct parameter tuples; non-trivial = not (gamma = 0 and all m = 0)')
    ctx.assumptions += ['float64 kernels are compared with exact rational evaluation at 1e-9 (1e-7 with the delj trick) relative to max|phi|',
                        'delj cases keep |w/V| in {0} u [1e-2, 500] on every interval (the float formula is ill-conditioned below, overflows above)',
                        'Qexp is a rational approximation with relative error < 2^-100',
                        'the model is a pure function of the arguments of one call: every case is executed at a recorded position of a recorded call sequence in one process and compared with the model of that call alone']
    ctx.trusted += ['C semantics of the kernels are not formalised: tie = coefficient-formula translation (ring/field obligations) + kernel descriptors + execution against the model']
    if ctx.replay and replay(ctx):
        return
    from harness.props import c02_translate
    c02_translate.obligations(ctx)
    kc = gen_kernel_cases(ctx)
    pc = gen_precalc_cases(ctx)
    tc = gen_tridiag_cases(ctx)
    dc = gen_driver_cases(ctx)
    # the designed call histories draw from their own generator: the streams above stay what they were
    import random
    hrng = random.Random('%s-%d-histories' % (ctx.prop, ctx.seed))
    hk = gen_history_cases(ctx, hrng)
    hd = gen_driver_histories(ctx, hrng)
    procs = [('kernel', [c for c in kc if not c['delj']]), ('kerneldelj', [c for c in kc if c['delj']]), ('precalc', pc), ('tridiag', tc),
             ('driver', [c for c in dc if not c['delj']]), ('driverdelj', [c for c in dc if c['delj']]),
             ('kernel-histories', hk), ('driver-histories', hd)]
    # memory layouts: variants of calls 0 and 2 (grid A / setting 1, grid B / setting 2) of every delj-off driver history, executed after
    # the histories in a process of their own; ids are assigned in evaluate(), so the variants are generated from
    # provisional ids here
    for i, c in enumerate([c for _, cs in procs for c in cs]):
        c['id'] = i
    lay = gen_layout_cases(ctx, [c for c in hd if not c['delj'] and c['hstep'] in ((0, 2) if ctx.quick else (0, 1, 2, 3)) and c['hist'].endswith('#0')])
    procs.append(('driver-layouts', lay))
    # broken translator obligations: thorough-size sequences for the functions they are about, before anything is concluded
    kern, dims = broken_functions(ctx)
    if kern or dims:
        trng = random.Random('%s-%d-targeted' % (ctx.prop, ctx.seed))
        tk = gen_history_cases(ctx, trng, only=kern, fine=True, big_from=0, reps=3 if len(kern) <= 5 else 1) if kern else []
        td = gen_driver_histories(ctx, trng, dims=sorted(dims), big_from=0, reps=3 if len(dims) <= 2 else 1) if dims else []
        for c in tk + td:
            c['hist'] = 'targeted:' + c['hist']
        procs.append(('targeted-search', tk + td))
        ctx.notes.append('translator obligations about %s failed: thorough-size call sequences (one argument changed at a time, same sizes) of these functions were added (%d calls)' % (
            ', '.join(sorted(kern) + ['%d-population driver' % d for d in sorted(dims)]), len(tk + td)))
    results, res = evaluate(ctx, procs)
    allc = [c for _, cs in procs for c in cs]
    pivot_accounting(ctx, allc, res)
    account(ctx, procs, results)
    const_vs_func(ctx, dc)
    # evidence: which histories were exercised
    hists = {}
    for c in allc:
        if c.get('hist'):
            hists.setdefault(c['hist'], []).append(c['step'] if c['hist'] != 'layouts' else 'phi=%s grid=%s (%d-D)' % (c['layout']['phi'], c['layout']['grid'], len(c['shape'])))
    ctx.stats['call_histories_exercised'] = {h: ' -> '.join(v) if h != 'layouts' else sorted(set(v)) for h, v in hists.items()}
    ctx.stats['processes'] = {name: '%d calls in this order in one interpreter' % len(cs) for name, cs in procs}
    # fail closed: every kernel (both ways of calling it) and every driver (constants / functions, delj off / on) went through
    # a same-size / different-grid sequence of at least three evaluated calls, and every dimension through the layout variants
    want = ['implicit_%dD%s/%s#0' % (d, AX[k], v) for d in range(1, 6) for k in range(d) for v in ('ctypes', 'wrap')]
    want += ['implicit_precalc_%dD%s/%s#0' % (d, AX[k], v) for d, k in [(2, 0), (2, 1), (3, 0), (3, 1), (3, 2)] for v in ('ctypes', 'wrap')]
    want += ['tridiag/ctypes#0', 'tridiag/wrap#0']
    want += ['%s/%s%s#0' % (n, pth, dj) for n in DRIVER_NAMES for pth in ('constants', 'functions') for dj in ('', '/delj')]
    done = {}
    for c in allc:
        if c.get('hist') and '_out' in c and '_err' not in c:
            done[c['hist']] = done.get(c['hist'], 0) + 1
    missing = [h for h in want if done.get(h, 0) < 3]
    laydims = set(len(c['shape']) for c in allc if c.get('hist') == 'layouts' and '_out' in c)
    if laydims != {1, 2, 3, 4, 5}:
        missing.append('layout variants for dimensions %s' % sorted({1, 2, 3, 4, 5} - laydims))
    ctx.obligation('call histories exercised for all 15 + 5 kernels and tridiag (ctypes and Cython wrapper) and for one_pop..five_pops (constants / functions, delj off / on); layout variants in 1-5 dimensions',
                   not missing, 'harness', 'missing: ' + ', '.join(missing[:10]) if missing else '%d histories' % len(done))

def replay(ctx):
    """re-run the recorded sequence (history, then the case) in one fresh interpreter and compare every call with the model"""
    rp = json.load(open(ctx.replay))
    inp = rp.get('input') or {}
    if 'case' not in inp:
        # a replay that names a broken obligation and carries no input: the whole check (obligations, targeted search) is repeated
        ctx.notes.append('replay file carries no case (broken: %s): the full check is repeated' % rp.get('broken'))
        return False
    seq = [dict(x) for x in (inp.get('history') or [])] + [dict(inp['case'])]
    for c in seq:
        c.pop('id', None); c.pop('layout_of', None); c.pop('pair_of', None)
    procs = [('replay', seq)]
    if inp.get('pair'):
        procs.append(('replay-pair', [dict(inp['pair'])]))
        procs[1][1][0].pop('pair_of', None)
    results, res = evaluate(ctx, procs, pivots=False)
    account(ctx, procs, results, max_reports=len(seq) + 1)
    if inp.get('pair'):
        other = procs[1][1][0]; main = seq[-1]
        main['pair_of'] = 0
        const_vs_func(ctx, [other, main])
    return True
