"""C19 -- stream T 'argument types / containers / layouts' (every run, enumerated, not sampled).

Seed C19h: sum_chi2_ppf preallocated its result with numpy.ones_like(x): every integer-typed statistic (python int, numpy
integers, int lists such as the docstring's own x = [2, 3, 4], integer ndarrays) got tail probabilities truncated to 0, float32
statistics were rounded.  Every statistic the generator produced was a python float or a float64 array.

The stream hands the SAME NUMBERS to every entry point of dadi/Godambe.py that C19 covers in every spelling the unchanged library
accepts and requires, per variant:
   - the value of the canonical spelling (python floats / lists of python floats / float64 C-ordered arrays / python ints for
     indices / bool flags), bit for bit where the table says so, else at the tolerance of the existing streams;
   - the property predicates on the variant's own output (closed form of the mixture tail probability, range, monotonicity,
     scalar in -> scalar out, shape in -> shape out, float64 results; exact derivatives of polynomials; H symmetric);
   - the caller's objects unchanged afterwards (type, dtype, contents, strides, mask, writeable flag); a second call with the
     SAME objects returns the same bits; the result does not share memory with an argument;
   - where the canonical call goes to the Coq model (polynomial stream: hcheck), the typed variants of get_hess / get_grad /
     hessian_elem go there too (the model sees the rationals, the implementation the typed objects).
Which spellings the unchanged library accepts was established on the unchanged tree (tables *_KINDS: 'bit' bit-identical to the
canonical call, 'close' equal at the tolerance, 'count' rejected or treated differently by the unchanged library: recorded in the
evidence only; rebuild aid: C19_TYPES_DISCOVER=1 ./check C19 prints what every kind does).  An accepted spelling that raises, or
returns another value, is a violation with the typed call as replay input.
"""
import os, math, json
from fractions import Fraction
import numpy as np
import scipy.special
from harness import lib

TOL_CHI2 = 1e-12            # the tolerance stream C always had (absolute, probabilities are <= 1)

# ---------------------------------------------------------------------------------------------------------------------
# reviewed tables (unchanged tree, numpy 2.x / scipy 1.18)
#   value:  'bit' | 'close' | 'count'      second field: scalar result expected?  (None: whatever the canonical call says)

X_SCALAR_KINDS = {          # sum_chi2_ppf(x): one number
    'float': 'bit', 'int': 'bit', 'bool': 'bit', 'f64': 'bit', 'f32': 'bit', 'f16': 'bit', 'i64': 'bit', 'i32': 'bit', 'i16': 'bit',
    'i8': 'bit', 'u8': 'bit', 'u64': 'bit', 'npbool': 'bit',
    # numpy.isscalar(0-d array) is False: the unchanged library answers with an array of shape (1,) (numpy.atleast_1d); values compared
    'a0_f64': 'bit', 'a0_i64': 'bit', 'a0_f32': 'bit',
}
X_SEQ_KINDS = {             # sum_chi2_ppf(x): 1-D
    'list_float': 'bit', 'list_int': 'bit', 'list_mixed': 'bit', 'list_bool': 'bit', 'tuple_float': 'bit', 'tuple_int': 'bit',
    'list_f64': 'bit', 'list_i64': 'bit', 'list_f32': 'bit', 'list_i32': 'bit', 'tuple_i64': 'bit',
    'nd_f64': 'bit', 'nd_f32': 'bit', 'nd_f16': 'bit', 'nd_i64': 'bit', 'nd_i32': 'bit', 'nd_i16': 'bit', 'nd_i8': 'bit', 'nd_u8': 'bit', 'nd_u64': 'bit',
    'nd_bool': 'bit',
    'nd_f64_strided': 'bit', 'nd_f64_neg': 'bit', 'nd_f64_ro': 'bit', 'nd_i64_strided': 'bit', 'nd_i64_neg': 'bit', 'nd_i64_ro': 'bit',
    'nd_f32_strided': 'bit', 'nd_i32_neg': 'bit',
    'ma_f64': 'bit', 'ma_f64_mask': 'bit', 'ma_i64': 'bit', 'ma_i64_mask': 'bit',
}
X_GRID_KINDS = {            # sum_chi2_ppf(x): 2-D
    'nd_f64_C': 'bit', 'nd_f64_F': 'bit', 'nd_f64_T': 'bit', 'nd_f64_2dstrided': 'bit', 'nd_i64_C': 'bit', 'nd_i64_F': 'bit', 'nd_i64_T': 'bit',
    'nd_i32_2dstrided': 'bit', 'nd_f32_F': 'bit', 'list2_int': 'bit', 'list2_float': 'bit', 'nd_u8_T': 'bit',
}
W_KINDS = {                 # sum_chi2_ppf(.., weights)
    'tuple_float': 'bit', 'list_float': 'bit', 'nd_f64': 'bit', 'tuple_int': 'bit', 'list_int': 'bit', 'nd_i64': 'bit', 'nd_i32': 'bit',
    'list_mixed': 'bit', 'tuple_mixed': 'bit', 'nd_f32': 'bit', 'list_f64': 'bit', 'list_f32': 'bit', 'list_i64': 'bit', 'nd_f64_strided': 'bit', 'nd_f64_neg': 'bit',
    'nd_f64_ro': 'bit', 'nd_i64_neg': 'bit', 'ma_f64': 'bit', 'ma_f64_mask': 'bit', 'list_bool': 'bit', 'nd_bool': 'bit', 'nd_u8': 'bit',
}
INT_ELEMS = ('int', 'bool', 'i64', 'i32', 'i16', 'i8', 'u8', 'u64', 'npbool')

def elem_of(kind):
    parts = kind.split('_')
    if parts[0] == 'a0':
        return parts[1]
    return parts[1] if len(parts) > 1 and parts[0] in ('list', 'tuple', 'list2', 'nd', 'ma') else parts[0]

def fits(kind, vals):
    return _fits(kind, vals)

def _fits(kind, vals):
    """can the numbers `vals` be written in this kind without changing them?"""
    el = elem_of(kind)
    flat = _flat(vals)
    if el in ('float', 'f64', 'mixed'):
        return True
    if el == 'f32':
        return all(float(np.float32(v)) == float(v) for v in flat)
    if el == 'f16':
        return all(float(np.float16(v)) == float(v) for v in flat)
    if not all(float(v).is_integer() for v in flat):
        return False
    lo, hi = {'bool': (0, 1), 'npbool': (0, 1), 'u8': (0, 255), 'i8': (-128, 127), 'i16': (-2 ** 15, 2 ** 15 - 1), 'u64': (0, 2 ** 64 - 1)}.get(el, (-2 ** 31, 2 ** 31 - 1))
    return all(lo <= v <= hi for v in flat)

def _flat(v):
    return [t for row in v for t in _flat(row)] if isinstance(v, (list, tuple)) else [v]

def chi2_closed(x, weights):
    cdf = 0.0
    for dof, w in enumerate(weights):
        if dof == 0:
            cdf += w * (1.0 if x > 0 else 0.0)
        else:
            cdf += w * float(scipy.special.gammainc(dof / 2.0, max(x, 0.0) / 2.0))
    return 1 - cdf

# ---------------------------------------------------------------------------------------------------------------------
# sum_chi2_ppf

CHI2_WEIGHTS = [[0, 1], [0.5, 0.5], [0.25, 0.5, 0.25], [0, 0, 1], [0.125, 0.375, 0.375, 0.125], [1, 0], [0, 1, 0]]
CHI2_SCALARS = [3, 0, 1, 2, 7, 12, 40, -1, 0.5, 2.75, 11.125, -2.5]
CHI2_SEQS = [[2, 3, 4], [0, 1, 2, 3, 4, 7, 12], [1, 0, 1, 1], [5], [0.5, 2.75, 0.0, 11.125, 3.0], [-1, 0, 1, 200]]
CHI2_GRIDS = [[[1, 2, 3], [4, 7, 12]], [[0.5, 2.75], [11.125, 3.0], [0.0, -1.5]], [[1, 0], [0, 1]]]

def gen_chi2(thorough, rng):
    """-> (ops, groups): groups = list of (canonical op id, [variant op ids])"""
    ops, groups = [], []
    def add(x, xk, w, wk, **kw):
        o = {'op': 'chi2t', 'id': len(ops), 'x': x, 'x_kind': xk, 'weights': w, 'w_kind': wk}
        o.update(kw)
        ops.append(o)
        return o['id']
    def block(x, canon_kind, table, wsets, tag):
        for wi, w in enumerate(wsets):
            can = add(x, canon_kind, w, 'tuple_float', role='canonical', tag=tag)
            vs = []
            for xk in table:
                if fits(xk, x) and xk != canon_kind:
                    vs.append(add(x, xk, w, 'tuple_float', role='x', tag=tag))
            # the weights in every spelling: against the canonical statistic and against an integer-typed one
            if wi < len(wsets):
                xi = [k for k in table if fits(k, x) and elem_of(k) in INT_ELEMS]
                for wk in W_KINDS:
                    if fits(wk, w):
                        vs.append(add(x, canon_kind, w, wk, role='weights', tag=tag))
                        if xi and (thorough or wk in ('list_int', 'nd_f64', 'nd_i64', 'nd_f32', 'list_mixed')):
                            vs.append(add(x, xi[(wi + len(vs)) % len(xi)], w, wk, role='both', tag=tag, w_keyword=True))
            if w == [0, 1]:
                vs.append(add(x, canon_kind, w, None, role='default weights', tag=tag))
                for xk in table:
                    if fits(xk, x) and elem_of(xk) in INT_ELEMS[:3]:
                        vs.append(add(x, xk, w, None, role='default weights', tag=tag))
            groups.append((can, vs))
    ws_all = CHI2_WEIGHTS
    for k, x in enumerate(CHI2_SCALARS):
        block(x, 'float', X_SCALAR_KINDS, ws_all if thorough else [ws_all[k % 5], ws_all[(k + 2) % 5]] + ([ws_all[5 + k % 2]] if k % 3 == 0 else []), 'scalar')
    for k, x in enumerate(CHI2_SEQS):
        block(x, 'nd_f64', X_SEQ_KINDS, ws_all if thorough else [ws_all[(k + 1) % 5], ws_all[(k + 3) % 5]], 'sequence')
    for k, x in enumerate(CHI2_GRIDS):
        block(x, 'nd_f64_C', X_GRID_KINDS, ws_all if thorough else [ws_all[k % 5], ws_all[(k + 1) % 5]], 'grid')
    if thorough:
        for _ in range(40):
            n = rng.randint(1, 6)
            x = [rng.choice([rng.randint(0, 60), rng.randint(0, 400) / 8.0]) for _ in range(n)]
            block(x, 'nd_f64', X_SEQ_KINDS, [rng.choice(ws_all[:5])], 'sequence')
    return ops, groups

def table_for(o):
    if o['tag'] == 'scalar':
        return X_SCALAR_KINDS
    return X_SEQ_KINDS if o['tag'] == 'sequence' else X_GRID_KINDS

def same_bits(a, b):
    return a == b

def close(a, b, tol):
    if len(a) != len(b):
        return False
    for s, t in zip(a, b):
        if isinstance(s, str) or isinstance(t, str) or s is None or t is None:
            if s != t:
                return False
        elif abs(s - t) > tol:
            return False
    return True

def spell_chi2(o):
    return 'sum_chi2_ppf(x=%r as %s%s)' % (o['x'], o['x_kind'], '' if o.get('w_kind') is None else ', weights=%r as %s' % (o['weights'], o['w_kind']))

def judge_chi2(o, r, can_o, can_r):
    """list of failure messages for variant o (record r) against the canonical call"""
    bad = []
    c1 = r['calls'][0]
    if 'error' in c1:
        return ['%s raised %s; the canonical spelling %s returns %r' % (spell_chi2(o), c1['error'], spell_chi2(can_o), can_r['calls'][0].get('val'))]
    want = can_r['calls'][0]
    xs = _flat(o['x'])
    shape = list(np.shape(o['x']))
    if 'error' not in want:
        if c1['val'] != want['val']:
            mode = table_for(o).get(o['x_kind'], 'bit') if o['role'] != 'weights' else W_KINDS[o['w_kind']]
            if mode == 'bit' or not close(c1['val'], want['val'], TOL_CHI2):
                bad.append('%s = %r but the canonical spelling %s = %r' % (spell_chi2(o), c1['val'], spell_chi2(can_o), want['val']))
    # property predicates on the variant's own output
    if len(c1['val']) != len(xs):
        bad.append('%s returns %d values for %d statistics' % (spell_chi2(o), len(c1['val']), len(xs)))
    else:
        for x, v in zip(xs, c1['val']):
            cf = chi2_closed(float(x), [float(t) for t in o['weights']])
            if not isinstance(v, float) or abs(v - cf) > TOL_CHI2 or not (-1e-15 <= v <= 1 + 1e-15):
                bad.append('%s: tail probability %r at x=%r, closed form 1 - sum_d w_d P(chi2_d <= x) = %r' % (spell_chi2(o), v, x, cf)); break
        order = sorted(range(len(xs)), key=lambda i: xs[i])
        if all(isinstance(v, float) for v in c1['val']) and any(c1['val'][j] > c1['val'][i] + 1e-15 for i, j in zip(order, order[1:])):
            bad.append('%s: tail probability not non-increasing in x: %r' % (spell_chi2(o), c1['val']))
    if c1['dtype'] != 'float64':
        bad.append('%s returns dtype %s (a probability: float64 in the canonical call)' % (spell_chi2(o), c1['dtype']))
    is_num = not isinstance(o['x'], list)
    if is_num and not o['x_kind'].startswith('a0_'):
        if not c1['scalar']:
            bad.append('%s: scalar in, %s of shape %r out' % (spell_chi2(o), c1['type'], c1['shape']))
    elif is_num:
        if c1['shape'] not in ([1], []):
            bad.append('%s: 0-d array in, shape %r out' % (spell_chi2(o), c1['shape']))
    elif c1['shape'] != shape:
        bad.append('%s: shape %r in, shape %r out' % (spell_chi2(o), shape, c1['shape']))
    if c1.get('masked'):
        bad.append('%s: masked entries in the result' % spell_chi2(o))
    if not r['x_unchanged'] or not r['w_unchanged']:
        bad.append('%s modified its argument (%s)' % (spell_chi2(o), 'x' if not r['x_unchanged'] else 'weights'))
    if c1.get('aliases_x') or c1.get('aliases_w'):
        bad.append('%s returns memory shared with its argument' % spell_chi2(o))
    c2 = r['calls'][1]
    if 'error' in c2 or c2['val'] != c1['val'] or c2['dtype'] != c1['dtype'] or c2['shape'] != c1['shape']:
        bad.append('%s called a second time with the same objects (the first result overwritten by the caller) gives %r, first %r' % (
            spell_chi2(o), c2.get('error', c2.get('val')), c1['val']))
    return bad

def run_chi2_types(ctx, report, thorough=False, only=None):
    """only: a replay input {'canonical': op, 'variant': op}.  Returns number of failing variants."""
    if only is not None:
        ops = [dict(only['canonical'], id=0), dict(only['variant'], id=1)]
        groups = [(0, [1])]
    else:
        ops, groups = gen_chi2(thorough, ctx.rng)
    res = lib.run_impl('c19_impl.py', ops, timeout=1200)
    byid = {r['id']: r for r in res}
    discover = os.environ.get('C19_TYPES_DISCOVER')
    nbad = 0
    seen_disc = {}
    for can, vs in groups:
        co, cr = ops[can], byid[can]
        ctx.case(signature=('T.chi2', repr(co['x']), repr(co['weights'])), sample=None)
        cbad = judge_chi2(co, cr, co, cr)
        ctx.obligation('T chi2 canonical %s: closed form, shape, dtype, arguments unchanged, repeatable' % spell_chi2(co), not cbad, 'predicate', '; '.join(cbad))
        if cbad:
            nbad += 1
            report(ctx, 'T-chi2-canonical', cbad[0], data={'stream': 'types', 'what': 'chi2', 'canonical': co, 'variant': co})
        fails = []
        for vid in vs:
            o, r = ops[vid], byid[vid]
            kind_mode = table_for(o).get(o['x_kind'], 'bit') if o['role'] in ('x', 'default weights', 'both') else W_KINDS[o['w_kind']]
            ctx.count('T.chi2 %s x as %s' % (o['tag'], o['x_kind']))
            if o.get('w_kind') is not None:
                ctx.count('T.chi2 weights as %s' % o['w_kind'])
            else:
                ctx.count('T.chi2 weights left out')
            if discover:
                key = (o['tag'], o['x_kind'], o.get('w_kind'))
                c1 = r['calls'][0]
                st = 'error ' + c1['error'] if 'error' in c1 else ('bit' if c1['val'] == cr['calls'][0].get('val') else 'differs %r / %r' % (c1['val'], cr['calls'][0].get('val'))) + ' %s %s %r' % (c1['type'], c1['dtype'], c1['shape'])
                seen_disc.setdefault(key, set()).add(st)
            if kind_mode == 'count':
                c1 = r['calls'][0]
                ctx.count('T.chi2 spelling outside the accepted table (%s): %s' % (o['x_kind'], 'raises' if 'error' in c1 else 'returns'))
                continue
            b = judge_chi2(o, r, co, cr)
            if b:
                fails.append((o, r, b))
        ok = not fails
        ctx.obligation('T chi2 %s x=%r weights=%r: %d spellings of x / weights give the canonical value, satisfy the predicates, leave the arguments alone'
                       % (co['tag'], co['x'], co['weights'], len(vs)), ok, 'predicate', '' if ok else '%d spellings fail; first: %s' % (len(fails), fails[0][2][0]))
        fails.sort(key=lambda t: 0 if ' but the canonical spelling ' in t[2][0] else 1)       # wrong values before wrong dtypes
        for o, r, b in fails:
            nbad += 1
            report(ctx, 'T-chi2-' + o['role'] + '-' + elem_class(o), b[0], data={'stream': 'types', 'what': 'chi2', 'canonical': co, 'variant': o, 'impl': r['calls'][0]})
    if discover:
        import sys
        for key in sorted(seen_disc, key=repr):
            print('C19 types discover chi2 %r: %s' % (key, sorted(seen_disc[key])), file=sys.stderr)
    return nbad

def elem_class(o):
    el = elem_of(o['x_kind'])
    if o['role'] == 'weights':
        el = elem_of(o['w_kind'])
    return 'integer' if el in INT_ELEMS else ('float32/16' if el in ('f32', 'f16') else 'float')

# ---------------------------------------------------------------------------------------------------------------------
# get_hess / get_grad / hessian_elem on polynomials

P_KINDS = {   # p0 (canonical: list of python floats)
    'list_int': 'bit', 'list_mixed': 'bit', 'list_bool': 'bit', 'tuple_float': 'bit', 'tuple_int': 'bit', 'list_f64': 'bit', 'list_i64': 'bit', 'list_f32': 'bit',
    'list_i32': 'bit', 'nd_f64': 'bit', 'nd_f32': 'bit', 'nd_i64': 'bit', 'nd_i32': 'bit', 'nd_i8': 'bit', 'nd_bool': 'bit',
    'nd_f64_strided': 'bit', 'nd_f64_neg': 'bit', 'nd_f64_ro': 'bit', 'nd_i64_strided': 'bit', 'nd_i64_neg': 'bit', 'nd_i64_ro': 'bit', 'nd_f32_neg': 'bit',
    'ma_f64': 'bit', 'ma_i64': 'bit', 'ma_f64_mask': 'bit',
}
EPS_KINDS = {'f64': 'bit', 'f32': 'bit', 'f16': 'bit', 'a0_f64': 'bit', 'int': 'bit', 'i64': 'bit', 'i32': 'bit', 'bool': 'bit', 'npbool': 'bit', 'a0_i64': 'bit'}
EPSLIST_KINDS = {'tuple_float': 'bit', 'nd_f64': 'bit', 'nd_f32': 'bit', 'list_f64': 'bit', 'list_f32': 'bit', 'nd_f64_neg': 'bit', 'nd_f64_strided': 'bit',
                 'list_mixed': 'bit', 'list_int': 'bit', 'nd_i64': 'bit', 'ma_f64': 'bit'}
OS_KINDS = {'tuple_bool': 'bit', 'nd_bool': 'bit', 'list_int': 'bit', 'list_npbool': 'bit', 'nd_i64': 'bit', 'nd_u8': 'bit', 'nd_bool_neg': 'bit'}
IX_KINDS = {'i64': 'bit', 'i32': 'bit', 'u8': 'bit', 'i8': 'bit', 'a0_i64': 'bit'}
F0_KINDS = {'f64': 'bit', 'a0_f64': 'bit'}
ARGS_KINDS = ('list', 'tuple')

HESS_BASES = [   # (p, eps, direct steps, one_sided flags)
    ([2], 2.0 ** -4, [0.25], [False]),
    ([1, 3], 2.0 ** -7, [0.125, -0.5], [True, False]),
    ([2, 0, -3], 2.0 ** -7, [2.0 ** -5, 2.0 ** -3, 2.0 ** -6], [False, True, False]),
    ([0.75, 2.5], 2.0 ** -4, [0.125, 0.375], [False, False]),
    ([3, 1, 2], 1, [1, 2, 1], [False, False, True]),
    ([1, 0, 1], 2.0 ** -7, [0.5, 0.25, 0.5], [True, True, False]),
    ([357 / 2.0 ** 30, 2], 2.0 ** -7, [2.0 ** -7, 2.0 ** -4], [True, False]),
]

def gen_hess(thorough, rng):
    ops, groups = [], []
    bases = list(HESS_BASES)
    if thorough:
        for _ in range(14):
            n = rng.randint(1, 4)
            bases.append(([rng.choice([rng.randint(-6, 9), rng.randint(-40, 60) / 8.0]) for _ in range(n)], 2.0 ** -rng.randint(3, 10),
                          [rng.choice([1, -1]) * 2.0 ** -rng.randint(1, 8) for _ in range(n)], [rng.random() < 0.4 for _ in range(n)]))
    for bi, (p, eps, steps, flags) in enumerate(bases):
        n = len(p)
        # float32 / float16 operands make the unchanged library add p0[i] + step in that precision (numpy promotion rules): the same
        # numbers only where every abscissa the stencils visit is exact there; otherwise those spellings are left out (counted by the caller)
        def narrow_ok(kind):
            el = elem_of(kind)
            if el not in ('f32', 'f16'):
                return True
            t = np.float32 if el == 'f32' else np.float16
            pts = []
            for x, s in zip(p, steps):
                for h in (s, float(eps) * x, float(eps)):
                    pts += [x, h, x + h, x - h, x + 2 * h]
            return all(float(t(v)) == float(v) for v in pts)
        def fits(kind, vals, _f=_fits):
            return _f(kind, vals) and narrow_ok(kind)
        lin = [[lib.dyadic(rng, -4, 4, 4), k] for k in range(n)]
        qd = [[lib.dyadic(rng, -4, 4, 4), rng.randrange(n), rng.randrange(n)] for _ in range(n + 1)] + [[lib.dyadic(rng, 0.5, 4, 4), k, k] for k in range(n)]
        poly = {'c': lib.dyadic(rng, -4, 4, 4), 'lin': lin, 'qd': qd, 'p': p, 'args': [[], [3.5], [1, 2]][bi % 3]}
        def add(direct=None, **kw):
            o = {'op': 'hesst', 'id': len(ops), 'p_kind': 'list_float', 'eps_kind': 'float' if direct is None else 'list_float', 'args_kind': 'list',
                 'eps': eps if direct is None else steps, 'direct': direct, 'base': bi}
            o.update(poly); o.update(kw)
            ops.append(o)
            return o['id']
        # get_hess + get_grad
        can = add(role='canonical')
        vs = [add(p_kind=k, role='p0 as ' + k) for k in P_KINDS if fits(k, p)]
        vs += [add(eps_kind=k, role='eps as ' + k) for k in EPS_KINDS if fits(k, eps)]
        vs += [add(args_kind='tuple', role='args as tuple')] + ([add(args_kind='omit', role='args left out')] if not poly['args'] else [])
        ints = [k for k in P_KINDS if fits(k, p) and elem_of(k) in INT_ELEMS]
        for j, ek in enumerate([k for k in EPS_KINDS if fits(k, eps)]):
            pk = ints[(bi + j) % len(ints)] if ints else [k for k in P_KINDS if fits(k, p)][(bi + j) % 5]
            vs.append(add(p_kind=pk, eps_kind=ek, args_kind='tuple', role='p0 as %s, eps as %s, args as tuple' % (pk, ek)))
        groups.append((can, vs))
        # hessian_elem
        d0 = {'one_sided': flags, 'os_kind': 'list_bool', 'ix_kind': 'int', 'f0_kind': 'float'}
        can = add(direct=d0, role='canonical')
        vs = [add(direct=d0, p_kind=k, role='p0 as ' + k) for k in P_KINDS if fits(k, p)]
        vs += [add(direct=d0, eps_kind=k, role='eps as ' + k) for k in EPSLIST_KINDS if fits(k, steps)]
        vs += [add(direct=dict(d0, os_kind=k), role='one_sided as ' + k) for k in OS_KINDS]
        vs += [add(direct=dict(d0, ix_kind=k), role='ii, jj as ' + k) for k in IX_KINDS]
        vs += [add(direct=dict(d0, f0_kind=k), role='f0 as ' + k) for k in F0_KINDS]
        pk = ints[bi % len(ints)] if ints else 'nd_f64_neg'
        vs.append(add(direct={'one_sided': flags, 'os_kind': 'nd_bool', 'ix_kind': 'i64', 'f0_kind': 'f64'}, p_kind=pk, eps_kind='nd_f64_strided', args_kind='tuple', role='every argument typed'))
        groups.append((can, vs))
        if not any(flags):
            c2 = add(direct={'one_sided': None, 'os_kind': None, 'ix_kind': 'int', 'f0_kind': 'float'}, role='one_sided left out')
            groups[-1][1].append(c2)
    return ops, groups

def spell_hess(o):
    d = o.get('direct')
    s = 'p0=%r as %s, eps=%r as %s, args=%r as %s' % (o['p'], o['p_kind'], o['eps'], o['eps_kind'], o['args'], o['args_kind'])
    if d is None:
        return 'get_hess / get_grad(%s)' % s
    return 'hessian_elem(%s, one_sided=%r as %s, ii/jj as %s, f0 as %s)' % (s, d.get('one_sided'), d.get('os_kind'), d.get('ix_kind'), d.get('f0_kind'))

def judge_hess(o, r, co, cr, C):
    bad = []
    c1 = r['calls'][0]
    if 'error' in c1:
        return ['%s raised %s; the canonical spelling %s works' % (spell_hess(o), c1['error'], spell_hess(co))]
    want = cr['calls'][0]
    if 'error' not in want:
        for kk in ('hess', 'grad'):
            if kk in want and c1.get(kk) != want[kk]:
                bad.append('%s: %s = %r but the canonical spelling %s gives %r' % (spell_hess(o), kk, c1.get(kk), spell_hess(co), want[kk]))
    # exactness on the polynomial (any step): the predicate of stream A
    n = len(o['p'])
    Hx, Gx = C.poly_exact(o)
    if o.get('direct') is None:
        st = [C.step_rule_py(float(o['eps']), x) for x in o['p']]
        steps = [s for s, _ in st]; onesided = [f for _, f in st]
    else:
        steps = [Fraction(e) for e in o['eps']]; onesided = None
    S = C.poly_scale(o, steps)
    numeric = all(isinstance(t, float) for row in c1['hess'] for t in row) and all(isinstance(t, float) for t in c1.get('grad', []))
    if not numeric:
        bad.append('%s: non-finite result %r' % (spell_hess(o), c1['hess']))
    else:
        for i in range(n):
            for j in range(n):
                tol = Fraction(1, 10 ** 9) * abs(Hx[i][j]) + Fraction(1, 2 ** 38) * S / abs(steps[i] * steps[j])
                if abs(Fraction(c1['hess'][i][j]) - Hx[i][j]) > tol and not bad:
                    bad.append('%s: second derivative [%d][%d] of a quadratic polynomial = %r, exact %r' % (spell_hess(o), i, j, c1['hess'][i][j], float(Hx[i][j])))
        if o.get('direct') is None:
            for i in range(n):
                if (not onesided[i]) or Hx[i][i] == 0:
                    tol = Fraction(1, 10 ** 9) * abs(Gx[i]) + Fraction(1, 2 ** 38) * S / abs(steps[i])
                    if abs(Fraction(c1['grad'][i]) - Gx[i]) > tol and not bad:
                        bad.append('%s: gradient [%d] = %r, exact %r' % (spell_hess(o), i, c1['grad'][i], float(Gx[i])))
            if c1['hess_dtype'] != 'float64' or c1['grad_dtype'] != 'float64' or c1['grad_shape'] != [n, 1]:
                bad.append('%s: result dtypes %s / %s, gradient shape %r' % (spell_hess(o), c1['hess_dtype'], c1['grad_dtype'], c1['grad_shape']))
            if c1.get('aliases'):
                bad.append('%s returns memory shared with p0' % spell_hess(o))
            if any(c1['hess'][i][j] != c1['hess'][j][i] for i in range(n) for j in range(n)):
                bad.append('%s: Hessian not symmetric' % spell_hess(o))
    if not (r['p_unchanged'] and r['eps_unchanged'] and r['args_unchanged'] and c1.get('os_unchanged', True)):
        bad.append('%s modified one of its arguments (p0 %s, eps %s, args %s, one_sided %s)' % (spell_hess(o), r['p_unchanged'], r['eps_unchanged'], r['args_unchanged'], c1.get('os_unchanged', True)))
    c2 = r['calls'][1]
    if 'error' in c2 or c2.get('hess') != c1['hess'] or c2.get('grad') != c1.get('grad'):
        bad.append('%s called a second time with the same objects gives %r, first %r' % (spell_hess(o), c2.get('error', c2.get('hess')), c1['hess']))
    return bad

def run_hess_types(ctx, report, thorough=False, only=None):
    from harness.props import c19 as C
    if only is not None:
        ops = [dict(only['canonical'], id=0), dict(only['variant'], id=1)]
        groups = [(0, [1])]
    else:
        ops, groups = gen_hess(thorough, ctx.rng)
    res = lib.run_impl('c19_impl.py', ops, timeout=1200)
    byid = {r['id']: r for r in res}
    nbad = 0
    exprs, meta = [], {}
    disc = {}
    for can, vs in groups:
        co, cr = ops[can], byid[can]
        fn = 'hessian_elem' if co.get('direct') else 'get_hess/get_grad'
        ctx.case(signature=('T.hess', fn, repr(co['p']), repr(co['eps']), repr(co['qd'])), sample=None)
        if 'calls' not in cr:
            ctx.obligation('T %s canonical runs' % fn, False, 'predicate', repr(cr)); nbad += 1; continue
        cbad = judge_hess(co, cr, co, cr, C)
        ctx.obligation('T %s canonical %s: exact on the polynomial, arguments unchanged, repeatable' % (fn, spell_hess(co)), not cbad, 'predicate', '; '.join(cbad))
        if cbad:
            nbad += 1
            report(ctx, 'T-hess-canonical', cbad[0], data={'stream': 'types', 'what': 'hess', 'canonical': co, 'variant': co})
        fails, to_model = [], [(co, cr)]
        for vid in vs:
            o, r = ops[vid], byid[vid]
            ctx.count('T.%s %s' % (fn, o['role'] if len(o['role']) < 40 else 'several arguments typed'))
            if 'calls' not in r:
                fails.append((o, r, ['%s: the driver failed: %s' % (spell_hess(o), r.get('error'))])); continue
            if os.environ.get('C19_TYPES_DISCOVER'):
                c1 = r['calls'][0]
                disc.setdefault((fn, o['role']), set()).add('error ' + c1['error'] if 'error' in c1 else 'bit' if c1['hess'] == cr['calls'][0].get('hess') and c1.get('grad') == cr['calls'][0].get('grad') else 'differs')
            b = judge_hess(o, r, co, cr, C)
            if b:
                fails.append((o, r, b))
            elif elem_of(o['p_kind']) in INT_ELEMS and len(to_model) < 2:
                to_model.append((o, r))
        ok = not fails
        ctx.obligation('T %s p=%r eps=%r: %d spellings of the arguments give the canonical bits, are exact on the polynomial, leave the arguments alone'
                       % (fn, co['p'], co['eps'], len(vs)), ok, 'predicate', '' if ok else '%d spellings fail; first: %s' % (len(fails), fails[0][2][0]))
        for o, r, b in fails:
            nbad += 1
            report(ctx, 'T-hess-' + fn + '-' + o['role'].split(' as ')[0], b[0], data={'stream': 'types', 'what': 'hess', 'canonical': co, 'variant': o, 'impl': r.get('calls', [r])[0]})
        # the Coq model on the typed call (the model sees the rationals)
        for o, r in to_model:
            c1 = r['calls'][0]
            if 'error' in c1 or not all(isinstance(t, float) for row in c1['hess'] for t in row):
                continue
            mc = {'c': o['c'], 'lin': o['lin'], 'qd': o['qd'], 'p': [float(t) for t in o['p']], 'eps': float(o['eps']) if o.get('direct') is None else 0.0625, 'direct': None}
            if o.get('direct') is not None:
                mc['direct'] = {'eps': [float(t) for t in o['eps']], 'one_sided': o['direct'].get('one_sided')}
            k = len(exprs)
            exprs.append((k, C.hcase_text(mc, {'hess': c1['hess'], 'grad': c1.get('grad')})))
            meta[k] = (o, co)
    if exprs:
        results = ctx.coq_cases('hess_types', C.HEADER_Q, exprs, '(hcheck %s %s)' % (lib.q(C.K_ABS), lib.q(C.REL)),
                                'K=2^-40 x sum|monomials|/(h_i h_j) + 1e-11 relative', shard=max(8, len(exprs) // 3 + 1), kind='T: log2(|impl on typed arguments - model| / conditioning scale)')
        for k, (o, co) in meta.items():
            rr = results.get(k)
            ok = rr is not None and rr[0]
            ctx.obligation('T correspondence %s vs model' % spell_hess(o), ok, 'correspondence', '' if ok else 'coq: %r' % (rr,))
            if not ok:
                nbad += 1
                report(ctx, 'T-hess-model', '%s disagrees with the model' % spell_hess(o), data={'stream': 'types', 'what': 'hess', 'canonical': co, 'variant': o, 'coq': rr})
    if disc:
        import sys
        for key in sorted(disc, key=repr):
            print('C19 types discover hess %r: %s' % (key, sorted(disc[key])), file=sys.stderr)
    return nbad

# ---------------------------------------------------------------------------------------------------------------------
# get_godambe / GIM_uncert / FIM_uncert / LRT_adjust / Wald_stat / score_stat on linear Poisson models
#   'bit': same bits as the canonical call;  'close': 1e-9 relative (the unchanged library computes part of the likelihood in the
#   operand's precision / sums in another memory order);  'count': rejected or treated differently by the unchanged library

G_KINDS = {
    'p0_kind': {'list_int': 'bit', 'tuple_int': 'bit', 'tuple_float': 'bit', 'list_mixed': 'bit', 'list_i64': 'bit', 'list_f64': 'bit', 'nd_f64': 'bit', 'nd_i64': 'bit',
                'nd_i32': 'bit', 'nd_f32': 'bit', 'nd_f64_neg': 'bit', 'nd_f64_strided': 'bit', 'nd_i64_neg': 'bit', 'nd_i64_strided': 'bit', 'nd_f64_ro': 'bit', 'nd_i64_ro': 'bit'},
    'pts_kind': {'tuple_int': 'bit', 'nd_i64': 'bit', 'nd_i32': 'bit', 'list_i64': 'bit', 'list_float': 'bit', 'nd_i64_neg': 'bit'},
    'eps_kind': {'f64': 'bit', 'f32': 'bit', 'a0_f64': 'bit'},
    'nested_kind': {'list_i64': 'bit', 'list_i32': 'bit', 'nd_i64': 'bit', 'nd_i32': 'bit', 'nd_u8': 'bit', 'nd_i64_neg': 'bit', 'nd_i64_strided': 'bit', 'nd_i64_ro': 'bit'},
    'fp_kind': {'list_float': 'bit', 'tuple_float': 'bit', 'list_mixed': 'bit', 'list_f64': 'bit', 'nd_f32': 'bit', 'nd_f64_neg': 'bit', 'nd_f64_strided': 'bit', 'nd_f64_ro': 'bit'},
    'adjusts_kind': {'tuple_float': 'bit', 'list_f64': 'bit', 'list_mixed': 'bit', 'list_f32': 'bit'},
    'flag_kind': {'int': 'bit', 'npbool': 'bit'},
    'data_kind': {'spectrum_f64': 'bit', 'spectrum_i64': 'bit', 'spectrum_i32': 'bit', 'spectrum_f32': 'bit', 'spectrum_f64_F': 'bit', 'spectrum_f64_strided': 'bit', 'spectrum_i64_F': 'bit'},
    'boots_kind': {'spectrum_i64': 'bit', 'spectrum_f32': 'bit', 'spectrum_f64_F': 'bit', 'spectrum_f64_strided': 'bit', 'ma_f64': 'bit', 'ma_i64': 'bit', 'ma_f64_F': 'bit',
                   'nd_f64': 'bit', 'nd_i64': 'bit', 'nd_i32': 'bit', 'nd_f64_F': 'bit', 'nd_f64_strided': 'bit', 'list_int': 'bit', 'list_float': 'bit'},
    'share': {'data_is_boot0': 'bit', 'boot_twice': 'bit'},
}
G_FAMILIES = [   # (function, parameters, multinom, log, integer-valued p0?, 2-D spectrum?)
    ('get_godambe', 2, False, False, True, False), ('GIM_uncert', 2, True, False, True, True), ('GIM_uncert', 2, False, True, False, False),
    ('FIM_uncert', 3, True, False, False, False), ('LRT_adjust', 3, False, False, True, True), ('Wald_stat', 3, True, False, True, False),
    ('score_stat', 3, False, False, False, True), ('Wald_stat', 4, False, False, False, False), ('LRT_adjust', 3, True, False, False, False),
    ('score_stat', 3, True, False, True, False),
]

def gen_godambe(thorough, rng):
    from harness.props import c19 as C
    ops, groups = [], []
    fams = list(G_FAMILIES)
    if thorough:
        fams = fams + [(f, rng.choice([2, 3, 4]), rng.random() < 0.5, False, rng.random() < 0.5, rng.random() < 0.4) for f in C.FNS for _ in range(2)]
    for fi, (fn, npar, multinom, log, intp, twod) in enumerate(fams):
        for attempt in range(400):
            base = C.gen_pois_case(rng, 0, fn=fn, force={'npar': npar, 'multinom': multinom, 'pclass': 'central', 'eps': 2.0 ** -7})
            if bool(base['log']) == log and (len(base['shape']) == 2) == twod and len(base['Bs']) == npar:
                break
        else:
            raise RuntimeError('types stream: no base case for %r' % ((fn, npar, multinom, log, intp, twod),))
        for kk in ('also_plain', 'boots_as_arrays', 'extra_mask', 'just_hess'):
            base.pop(kk, None)
        base['func_kind'] = 'closure'
        if intp:
            base['p0'] = [[1, 2, 3, 1][k] for k in range(npar)]
        base['data'] = [float(max(1, math.ceil(v))) for v in base['data']]
        base['boots'] = [[float(max(1, math.ceil(v) + (k + i) % 2)) for i, v in enumerate(bt)] for k, bt in enumerate(base['boots'])]
        if fn == 'Wald_stat':
            base['full_params'] = [base['p0'][ix] + d for ix, d in zip(base['nested'], base['diffs'])] if fi % 2 else \
                [base['p0'][k] + (base['diffs'][base['nested'].index(k)] if k in base['nested'] else 0) for k in range(npar)]
            base['fp_as'] = 'array'
        if base.get('adjusts') is None and fn in ('get_godambe', 'GIM_uncert', 'LRT_adjust') and not multinom and base['boots']:
            base['adjusts'] = [[0.875, 1.0, 1.125, 1.25, 0.75][k % 5] for k in range(len(base['boots']))]
        def add(role, **typed):
            o = dict(base); o['op'] = 'godambe'; o['id'] = len(ops); o['typed'] = typed; o['role'] = role; o['family'] = fi
            ops.append(o)
            return o
        can = add('canonical')
        vs = []
        for arg, table in G_KINDS.items():
            if arg == 'share':
                continue
            vals = {'p0_kind': base['p0'], 'pts_kind': base['pts'], 'eps_kind': base['eps'], 'nested_kind': base.get('nested'), 'fp_kind': base.get('full_params'),
                    'adjusts_kind': base.get('adjusts'), 'flag_kind': 1, 'data_kind': base['data'], 'boots_kind': base['boots'] or None}[arg]
            if vals is None:
                continue
            for k in table:
                if arg in ('data_kind', 'boots_kind'):
                    if k.endswith('_F') and not twod:
                        continue
                    if k.startswith('list') and twod and False:
                        continue
                elif not fits(k, vals):
                    continue
                if log and arg == 'p0_kind' and elem_of(k) in ('f32',):
                    continue            # numpy.log of a float32 array is a float32 logarithm: other numbers (unchanged library)
                vs.append(add('%s=%s' % (arg, k), **{arg: k}))
        # several arguments typed at once
        ints = [k for k in G_KINDS['p0_kind'] if fits(k, base['p0']) and (elem_of(k) in INT_ELEMS or not intp)]
        combo = {'p0_kind': ints[fi % len(ints)], 'pts_kind': 'nd_i64', 'eps_kind': 'f64', 'flag_kind': 'npbool', 'data_kind': 'spectrum_i64',
                 'boots_kind': 'nd_i64' if base['boots'] else None}
        if base.get('nested') is not None:
            combo['nested_kind'] = 'nd_i64'
        if base.get('full_params') is not None:
            combo['fp_kind'] = 'list_float'
        vs.append(add('every argument typed', **{k: v for k, v in combo.items() if v}))
        groups.append((can, vs, 'types'))
        # the same object in two places: the canonical call gets two equal objects
        if len(base['boots']) >= 2:
            for share in G_KINDS['share']:
                b2 = dict(base)
                b2['boots'] = ([list(base['data'])] + base['boots'][1:]) if share == 'data_is_boot0' else ([base['boots'][0], list(base['boots'][0])] + base['boots'][2:])
                c2 = dict(b2); c2.update({'op': 'godambe', 'id': len(ops), 'typed': {}, 'role': 'canonical', 'family': fi}); ops.append(c2)
                v2 = dict(b2); v2.update({'op': 'godambe', 'id': len(ops), 'typed': {'share': share}, 'role': 'share=' + share, 'family': fi}); ops.append(v2)
                groups.append((c2, [v2], 'share'))
    return ops, groups

def spell_god(o):
    ty = o.get('typed') or {}
    return 'Godambe.%s(p0=%r, multinom=%s, log=%s%s; %s)' % (o['fn'], o['p0'], o['multinom'], o.get('log', False), ', nested_indices=%r' % (o['nested'],) if o.get('nested') is not None else '',
                                                       ', '.join('%s as %s' % (k.replace('_kind', ''), v) for k, v in sorted(ty.items())) or 'canonical types')

def judge_god(o, r, co, cr, C):
    bad = []
    if 'error' in r:
        if 'error' in cr:
            return []
        return ['%s raised %s; the canonical spelling returns %r' % (spell_god(o), r['error'], C.digest(C.result_of(cr)))]
    if 'error' in cr:
        return []
    a, b = C.result_of(r), C.result_of(cr)
    ty = o.get('typed') or {}
    mode = 'bit'
    for k, v in ty.items():
        if G_KINDS[k].get(v) == 'close':
            mode = 'close'
    same = (a == b) if mode == 'bit' else C.same_result(a, b)
    if not same:
        bad.append('%s = %r but with the canonical types (python floats / ints, lists, float64 Spectrum objects) it is %r' % (spell_god(o), C.digest(a), C.digest(b)))
    if r.get('typed_unchanged') is False or r.get('args_unchanged') is False:
        bad.append('%s modified one of the caller\'s objects' % spell_god(o))
    return bad

def run_godambe_types(ctx, report, thorough=False, only=None):
    from harness.props import c19 as C
    if only is not None:
        co, vo = dict(only['canonical'], id=0), dict(only['variant'], id=1)
        ops, groups = [co, vo], [(co, [vo], 'replay')]
    else:
        ops, groups = gen_godambe(thorough, ctx.rng)
    res = lib.run_impl('c19_impl.py', ops, timeout=2400)
    byid = {r['id']: r for r in res}
    nbad = 0
    disc = {}
    for co, vs, what in groups:
        cr = byid[co['id']]
        ctx.case(signature=('T.godambe', co['fn'], repr(co['p0']), repr(co['Bs'][0][:3]), what, repr(co['boots'][:1])), sample=None)
        okc = 'error' not in cr
        ctx.obligation('T canonical %s runs' % spell_god(co), okc, 'predicate', cr.get('error', ''))
        if not okc:
            nbad += 1
            report(ctx, 'T-godambe-canonical', '%s raised %s' % (spell_god(co), cr['error']), data={'stream': 'pois', 'case': co})
            continue
        fails = []
        for o in vs:
            r = byid[o['id']]
            ctx.count('T.%s %s' % (o['fn'], o['role']))
            if os.environ.get('C19_TYPES_DISCOVER'):
                disc.setdefault(o['role'], set()).add('error ' + r['error'][:80] if 'error' in r else 'bit' if C.result_of(r) == C.result_of(cr) else
                                                      'close' if C.same_result(C.result_of(r), C.result_of(cr)) else 'differs')
            b = judge_god(o, r, co, cr, C)
            if b:
                fails.append((o, r, b))
        ok = not fails
        ctx.obligation('T %s family %d (%s): %d spellings of the arguments give the canonical result and leave the caller\'s objects alone' % (co['fn'], co['family'], what, len(vs)),
                       ok, 'predicate', '' if ok else '%d spellings fail; first: %s' % (len(fails), fails[0][2][0]))
        for o, r, b in fails:
            nbad += 1
            report(ctx, 'T-godambe-' + o['role'], b[0], data={'stream': 'types', 'what': 'godambe', 'canonical': co, 'variant': o})
    if disc:
        import sys
        for key in sorted(disc, key=repr):
            print('C19 types discover godambe %r: %s' % (key, sorted(disc[key])), file=sys.stderr)
    return nbad

# ---------------------------------------------------------------------------------------------------------------------
def source_obligation(ctx, path):
    """fail-closed reading of dadi/Godambe.py: every array the module allocates is a float64 array of its own -- numpy.empty / zeros / ones
    without a dtype or with dtype=float, numpy.array(.., copy=True, dtype=float); allocators that inherit the dtype (and layout) of an
    ARGUMENT (numpy.*_like, x.copy(), x.astype, numpy.array(x) without dtype=float that is then written into) are refused.
    -> list of broken obligation names (they start a targeted search in the types stream)."""
    import ast
    broken = []
    try:
        tree = ast.parse(open(path).read())
    except (SyntaxError, OSError) as e:
        ctx.obligation('parse dadi/Godambe.py (allocations)', False, 'translator', str(e))
        return ['parse']
    norm = lambda n: ast.unparse(n).replace(' ', '')
    for f in [n for n in tree.body if isinstance(n, ast.FunctionDef)]:
        offending = []
        for n in ast.walk(f):
            if not isinstance(n, ast.Call):
                continue
            name = norm(n.func)
            kws = {k.arg: norm(k.value) for k in n.keywords if k.arg}
            if name.endswith('_like') or name.endswith('.astype') or name.endswith('.view'):
                offending.append(norm(n))
            elif name in ('numpy.empty', 'numpy.zeros', 'numpy.ones', 'numpy.full', 'numpy.ndarray') and kws.get('dtype', 'float') not in ('float', 'numpy.float64'):
                offending.append(norm(n))
            elif name == 'numpy.array' and kws.get('copy') == 'True' and kws.get('dtype') != 'float':
                offending.append(norm(n))
        ok = not offending
        ctx.obligation('Godambe.%s allocates float64 arrays of its own only (no allocator inheriting the dtype of an argument)' % f.name, ok, 'translator', '; '.join(offending))
        if not ok:
            broken.append(f.name)
    return broken

def run(ctx, report, thorough=False):
    n = run_chi2_types(ctx, report, thorough)
    n += run_hess_types(ctx, report, thorough)
    n += run_godambe_types(ctx, report, thorough)
    return n

def replay(ctx, report, inp):
    what = inp.get('what')
    if what == 'chi2':
        return run_chi2_types(ctx, report, only=inp)
    if what == 'hess':
        return run_hess_types(ctx, report, only=inp)
    return run_godambe_types(ctx, report, only=inp)
