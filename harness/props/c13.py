"""C13 — genotype data become the spectrum and statistics that direct counting gives.

Static theorems: coq/theories/Props/C13.v (model: Model/DataDict.v, Model/Stats.v).
Per run:
  (1) correspondence: synthetic VCF + popinfo text -> the real Misc.make_data_dict_vcf / count_data_dict /
      Spectrum.from_data_dict / fragment_data_dict / bootstraps_from_dd_chunks / S, pi, ... vs the Coq model run on the
      same tokenised lines (string literals), compared inside Coq: data dictionary and count dictionary exactly,
      spectra at 1e-11, chunk membership exactly, bootstraps with the recorded draws as the model's oracle, statistics 1e-10;
  (2) the property predicates on the implementation, against an independent computation from the genotype matrix the
      generator holds: spectrum == sum of hypergeometric projections of the usable SNPs, total == number of usable
      SNPs, chunk spectra add up, bootstraps are sums of chunk spectra, subsampling uses exactly k individuals,
      S / pi / theta_W / theta_L / Tajima's D / Fst == the same from the genotype matrix (pairwise comparison of
      chromosomes, Weir & Cockerham from per-population frequencies);
  (3) the statistics are functions OF the spectrum (the model's stat_* are pure): in every case, for mask_corners False and True,
      polarised and folded, at the requested projection and at full size, S / pi / Watterson_theta / Tajima_D / theta_L / Zengs_E
      (one population) or S / Fst (several) are evaluated on ONE spectrum object in an order drawn per case (every method first in
      turn, then all of them a second time in another order) and each alone on a freshly built object; after every call the
      spectrum-level clauses are re-evaluated on that object: data and mask bit-identical to before, total == number of usable
      SNPs (mask_corners=False) and unchanged, equal to the sum of the chunk spectra (data, mask, total), repeated evaluation gives
      the same value, the value equals direct counting for both mask_corners settings.  A fail-closed reading of the source of the
      statistic methods (`stat_source_obligation`) states which of them touch `self` at all;
  (4) argument types / containers / layouts (c13_types.py, impl/c13_impl_types.py): the data dictionary is an in-memory interface (from_data_dict
      documents its layout, Misc.dd_from_SLiM_files builds one with integer alleles 0/1 and integer population keys).  Every run, systematic
      genotype-count tables (1-3 populations, ancestral allele first / second / unknown, under-called, non-biallelic; SLiM-shaped ones written as
      SLiM output and read back by dd_from_SLiM_files) are handed to count_data_dict / from_data_dict / fragment_data_dict /
      bootstraps_from_dd_chunks / the statistics in every enumerated spelling (allele coding: letters, lower case, bytes, numpy str, '', '0'/'1',
      python / numpy ints incl. 0, bools, floats, 0-d arrays; 16 spellings of a missing outgroup; tuple / list / ndarray / strided / negatively
      strided / Fortran / masked containers of segregating, calls, pop_ids, projections; dict flavours; flag / chunk_size / Nboot types; population
      key types): result == canonical spelling, predicates on the variant itself, arguments unchanged, canonical spelling == Coq model.
      `dd_source_obligation` pins the text of count_data_dict / from_data_dict; if it breaks, a targeted search over products of the factors runs
      before anything is reported without an input."""
import json, math, os, itertools
from fractions import Fraction
import numpy as np
from harness import lib
from harness.lib import q, ql, b, natl
from harness.props import c13_types as TY

TOL = Fraction(1, 10 ** 11)
JOBS = max(1, min(6, int(os.environ.get('C13_JOBS', '6'))))     # coqc processes in parallel (shared machines: C13_JOBS=3)
TOL_STAT = Fraction(1, 10 ** 10)
BASES = 'ACGT'

# ------------------------------------------------------------------------------------------------
# generator

def gen_case(rng, cid, ctx):
    npop = rng.choice([1, 1, 2, 2, 3])
    pops = rng.sample(['YRI', 'CEU', 'pop_1', 'P.q', 'A', 'Bb', 'sample_grp'], npop)
    maxd = {1: 12, 2: 8, 3: 5}[npop] if ctx.quick else {1: 12, 2: 12, 3: 8}[npop]
    ndip = {p: rng.randint(2, maxd) for p in pops}
    style = rng.choice(['S%d', 'ind_%d', 'NA%05d', 'x.%d'])
    samples = []
    for p in pops:
        for i in range(ndip[p]):
            samples.append((style % (len(samples) + 1), p))
    nextra = rng.choice([0, 0, 1, 2])
    for i in range(nextra):
        samples.append(('other%d' % i, None))            # in the VCF, not in the popinfo file
    rng.shuffle(samples)
    # popinfo text
    pl = []
    hdr = rng.choice([None, None, 'sample\tpop', 'SAMPLE POP', 'pop sample', 'Sample  Pop  extra'])
    swap = hdr == 'pop sample'
    if rng.random() < 0.4:
        pl.append('# population assignments')
    if hdr:
        pl.append(hdr)
    rows = [(s, p) for s, p in samples if p is not None]
    rng.shuffle(rows)
    if rng.random() < 0.3:
        rows.append(('ghost', rng.choice(pops)))         # a sample that is not in the VCF
    for i, (s, p) in enumerate(rows):
        if rng.random() < 0.08:
            pl.append('')
        if rng.random() < 0.05:
            pl.append('#comment %d' % i)
        sep = rng.choice(['\t', ' ', '  '])
        pl.append((p + sep + s) if swap else (s + sep + p + (sep + 'x' if hdr and 'extra' in hdr else '')))
    popinfo_text = '\n'.join(pl) + '\n'
    # VCF
    chroms = rng.sample(['chr_1.2', '1', 'chrX', 'scaf_12_b.3', 'chr2'], rng.choice([1, 1, 2, 3]))
    nsnp = rng.randint(4, ctx.pick(28, 40))
    cs = rng.choice([1, 7, 50, 100, 500, 1000])
    maxpos = rng.choice([20, 300, 5000]) if cs < 500 else rng.choice([300, 5000, 20000])
    maxpos = min(maxpos, cs * 40)
    fmt = rng.choice(['GT', 'GT', 'GT', 'GT:DP', 'GT:AD:DP', 'DP:GT', 'GT:GQ', 'GT:AD'])
    inconsistent = rng.random() < 0.08 and fmt not in ('GT', 'GT:GQ')
    pmiss = rng.choice([0, 0, 0.05, 0.15, 0.4])
    ppartial = rng.choice([0, 0, 0, 0.05])
    lines = ['##fileformat=VCFv4.2\n', '##INFO=<ID=AA,Number=1,Type=String,Description="Ancestral Allele">\n',
             '#CHROM\tPOS\tID\tREF\tALT\tQUAL\tFILTER\tINFO\tFORMAT\t' + '\t'.join(s for s, _ in samples) + '\n']
    snps = []
    used = []
    for i in range(nsnp):
        chrom = rng.choice(chroms)
        r = rng.random()
        if r < 0.08 and used:
            chrom, pos = rng.choice(used)                # the same CHROM_POS again (dictionary entry overwritten)
        elif r < 0.3:
            pos = max(1, cs * rng.randint(0, max(1, maxpos // cs)) + rng.choice([0, 1, 0, 1, cs - 1]))   # chunk boundaries
        else:
            pos = rng.randint(1, maxpos)
        used.append((chrom, pos))
        flt = rng.choice(['PASS'] * 7 + ['.', '.', 'q10', 'LowQual', 'pass', 'PASS;q10'])
        ref = rng.choice(BASES)
        alt = rng.choice([x for x in BASES if x != ref])
        r = rng.random()
        if r < 0.05: ref_t, alt_t = ref.lower(), alt
        elif r < 0.10: ref_t, alt_t = ref, alt.lower()
        elif r < 0.14: ref_t, alt_t = ref, alt + rng.choice(BASES)
        elif r < 0.17: ref_t, alt_t = ref, '*'
        elif r < 0.20: ref_t, alt_t = ref + rng.choice(BASES), alt
        elif r < 0.22: ref_t, alt_t = ref, alt + ',' + rng.choice(BASES)
        elif r < 0.24: ref_t, alt_t = ref, rng.choice(['<DEL>', 'N', '.'])
        elif r < 0.25: ref_t, alt_t = 'N', alt
        else: ref_t, alt_t = ref, alt
        other = rng.choice([x for x in BASES if x not in (ref, alt)])
        kind = rng.choice(['ref', 'ref', 'ref', 'alt', 'alt', 'none', 'mismatch', 'dot', 'lower_ref', 'lower_alt', 'bars_ref',
                           'multi', 'ensembl_alt', 'chimp_ref', 'N', 'dash', 'empty', 'decoy', 'two', 'badfirst'])
        aa = {'ref': 'AA=' + ref, 'alt': 'AA=' + alt, 'none': None, 'mismatch': 'AA=' + other, 'dot': 'AA=.',
              'lower_ref': 'AA=' + ref.lower(), 'lower_alt': 'AA=' + alt.lower(), 'bars_ref': 'AA=' + ref + '|||',
              'multi': 'AA=' + ref + alt + '|x', 'ensembl_alt': 'AA_ensembl=' + alt, 'chimp_ref': 'AA_chimp=' + ref.lower() + '|',
              'N': 'AA=N', 'dash': 'AA=-', 'empty': 'AA=', 'decoy': 'XAA=' + ref + ';AAA=' + alt + ';AA',
              'two': 'AA=' + alt + ';AA=' + ref, 'badfirst': 'AA=?;AA=' + ref}[kind]
        anc = {'ref': 'ref', 'alt': 'alt', 'lower_ref': 'ref', 'lower_alt': 'alt', 'bars_ref': 'ref', 'ensembl_alt': 'alt',
               'chimp_ref': 'ref', 'two': 'alt'}.get(kind)     # which segregating allele is ancestral (None: unpolarised)
        info = [x for x in [rng.choice([None, 'DP=%d' % rng.randint(1, 90)]), aa, rng.choice([None, 'AF=0.5', 'DB'])] if x]
        rng.shuffle(info)
        if kind in ('two', 'badfirst', 'decoy'):
            info = [aa]
        info_t = ';'.join(info) if info else '.'
        freq = rng.choice([0.05, 0.2, 0.5, 0.8, 0.95, rng.random()])
        gts = []; alleles = []
        for s, p in samples:
            a = [1 if rng.random() < freq else 0 for _ in range(2)]
            if rng.random() < pmiss:
                a = [None, None]
            elif rng.random() < ppartial:
                a[rng.randint(0, 1)] = None
            sep = rng.choice('/|')
            gt = sep.join('.' if x is None else str(x) for x in a)
            miss = a[0] is None and a[1] is None
            dp = '0' if miss else str(rng.randint(1, 40))
            if miss and rng.random() < 0.3: dp = '.'
            if inconsistent and rng.random() < 0.15:
                dp = '0' if dp != '0' else '7'
            ad = '0,0' if dp in ('0', '.') else '%d,%d' % (rng.randint(0, 20), rng.randint(1, 20))
            field = {'GT': gt, 'GT:DP': gt + ':' + dp, 'GT:AD:DP': gt + ':' + ad + ':' + dp, 'DP:GT': dp + ':' + gt,
                     'GT:GQ': gt + ':' + str(rng.randint(0, 99)), 'GT:AD': gt + ':' + ad}[fmt]
            gts.append(field); alleles.append(a)
        lines.append('\t'.join([chrom, str(pos), rng.choice(['.', 'rs%d' % i]), ref_t, alt_t, rng.choice(['.', '50']), flt, info_t, fmt] + gts) + '\n')
        snps.append({'chrom': chrom, 'pos': pos, 'filter': flt, 'ref_t': ref_t, 'alt_t': alt_t, 'anc': anc, 'alleles': alleles,
                     'is_snp': ref_t.upper() in list(BASES) and alt_t.upper() in list(BASES)})
    if rng.random() < 0.1:
        lines.insert(3 + rng.randint(0, len(lines) - 3), '##late meta line\n')
    # settings
    filt = rng.random() < 0.85
    k = rng.randint(1, npop)
    pop_ids = rng.sample(pops, k)
    subsample = None
    if rng.random() < 0.35:
        subs = list(pops) if rng.random() < 0.7 else list(pop_ids)
        rng.shuffle(subs)
        subsample = [[p, rng.randint(1, ndip[p])] for p in subs]
    projections = []
    budget = ctx.pick(700, 3000)
    for p in pop_ids:
        top = 2 * (dict(subsample)[p] if subsample else ndip[p])
        m = rng.choice([top, top, max(1, top - 1), max(2, top - 2), rng.randint(1, top), rng.randint(2, top + 1)])
        projections.append(m)
    while np.prod([m + 1 for m in projections]) > budget:
        i = max(range(len(projections)), key=lambda i: projections[i])
        projections[i] = max(2, projections[i] // 2)
    full = [2 * (dict(subsample)[p] if subsample else ndip[p]) for p in pop_ids]
    if np.prod([m + 1 for m in full]) > 4 * budget:
        full = None
    rename = []
    if rng.random() < 0.3:
        seen = set()
        for s in snps:
            key = '%s_%d' % (s['chrom'], s['pos'])
            if key not in seen and rng.random() < 0.4:
                rename.append([key, key + '.' + rng.choice(['a', 'x1', 'dup.2', '7'])])
            seen.add(key)
    return {'id': cid, 'vcf_text': ''.join(lines), 'popinfo_text': popinfo_text, 'filter': filt, 'subsample': subsample,
            'np_seed': rng.randint(0, 2 ** 31 - 1), 'seed': rng.choice([None, None, 5]), 'pop_ids': pop_ids, 'projections': projections,
            'full': full, 'mask_corners': rng.random() < 0.8, 'chunk_size': cs, 'nboot': rng.randint(1, 3),
            'boot_seed': rng.randint(0, 2 ** 31 - 1), 'boot_polarized': rng.random() < 0.6, 'rename': rename,
            'transport': rng.choice(['plain'] * 6 + ['gz', 'zip']), 'pop_transport': rng.choice(['plain'] * 8 + ['gz', 'zip']),
            'truth': {'samples': samples, 'snps': snps, 'ndip': ndip, 'pops': pops, 'fmt': fmt, 'inconsistent': inconsistent}}

# ------------------------------------------------------------------------------------------------
# independent computations from the genotype matrix

def hyp(m, n, j):
    """projection of j derived among n called chromosomes to m: exact hypergeometric vector (zero if n < m)"""
    if n < m:
        return [Fraction(0)] * (m + 1)
    return [Fraction(math.comb(m, i) * math.comb(n - m, j - i), math.comb(n, j)) if 0 <= j - i <= n - m else Fraction(0) for i in range(m + 1)]

def truth_entries(c):
    """the SNPs that direct counting uses: key -> (anc, per-population (called alleles, alt alleles) | None per pop).
    Without subsampling: allele-by-allele counts.  With subsampling the per-population counts depend on the draw and are
    not computed here; only eligibility (>= k fully called individuals in every subsampled population)."""
    t = c['truth']
    samples = t['samples']
    sub = dict(c['subsample']) if c['subsample'] else None
    out = {}
    for s in t['snps']:
        if c['filter'] and s['filter'] not in ('PASS', '.'):
            continue
        if not s['is_snp']:
            continue
        key = '%s_%d' % (s['chrom'], s['pos'])
        per = {}
        for (name, pop), a in zip(samples, s['alleles']):
            if pop is None:
                continue
            e = per.setdefault(pop, {'called': 0, 'alt': 0, 'full_inds': 0, 'haps': []})
            for x in a:
                if x is not None:
                    e['called'] += 1; e['alt'] += x
            if a[0] is not None and a[1] is not None:
                e['full_inds'] += 1
            e['haps'].append(a)
        if sub is not None:
            if any(per.get(p, {'full_inds': 0})['full_inds'] < kk for p, kk in sub.items() if p in per):
                continue
        out[key] = {'anc': s['anc'], 'per': per, 'ref': s['ref_t'].upper(), 'alt': s['alt_t'].upper(), 'chrom': s['chrom'], 'pos': s['pos']}
    return out

def snp_file_text(c, rng):
    """the same data in the SNP-file format of Misc.make_data_dict (one line per usable SNP, allele counts per population)"""
    t = c['truth']; pops = t['pops']
    lines = ['# synthetic', 'Ingroup Outgroup Allele1 ' + ' '.join(pops) + ' Allele2 ' + ' '.join(pops) + ' Chrom Pos']
    for key, e in truth_entries(c).items():
        out = {'ref': e['ref'], 'alt': e['alt'], None: '-'}[e['anc']]
        a1 = [e['per'][p]['called'] - e['per'][p]['alt'] for p in pops]
        a2 = [e['per'][p]['alt'] for p in pops]
        fields = ['-%s-' % e['ref'], '-%s-' % out, e['ref']] + [str(x) for x in a1] + [e['alt']] + [str(x) for x in a2] + [e['chrom'], str(e['pos'])]
        if rng.random() < 0.2:
            fields[0] = fields[0].lower(); fields[1] = fields[1].lower(); fields[2] = fields[2].lower()
        lines.append(rng.choice([' ', '\t']).join(fields))
    return '\n'.join(lines) + '\n'

def expected_spectra(c, entries):
    """sum over usable SNPs of the outer product of hypergeometric projections (float arrays): polarised, folded"""
    projs = c['projections']; pop_ids = c['pop_ids']
    shape = [m + 1 for m in projs]
    pol = np.zeros(shape); allu = np.zeros(shape)
    npol = 0; nall = 0
    for key, e in entries.items():
        vecs_alt = []; ok = True
        for p, m in zip(pop_ids, projs):
            pe = e['per'][p]
            if pe['called'] < m:
                ok = False
            vecs_alt.append((pe['called'], pe['alt']))
        def outer(derived_is_alt):
            arr = np.ones([1] * len(projs))
            for ax, ((n, a), m) in enumerate(zip(vecs_alt, projs)):
                v = np.array([float(x) for x in hyp(m, n, a if derived_is_alt else n - a)])
                sh = [1] * len(projs); sh[ax] = m + 1
                arr = arr * v.reshape(sh)
            return arr
        if e['anc'] is not None:
            pol += outer(e['anc'] == 'ref'); npol += 1 if ok else 0
        allu += outer(e['anc'] != 'alt'); nall += 1 if ok else 0
    # independent folding: entries with more than half the chromosomes derived go to their mirror image
    T = sum(projs)
    tot = np.indices(shape).sum(axis=0)
    rev = allu[tuple(slice(None, None, -1) for _ in shape)]
    folded = np.where(2 * tot < T, allu + rev, np.where(2 * tot == T, (allu + rev) / 2.0, 0.0))
    return pol, folded, npol, nall

def direct_stats(c, entries, polarized):
    """S, pi, theta_W, theta_L, Tajima's D (1 population) or S, Fst (several) from the alleles themselves, over the SNPs
    in which every chromosome of the requested populations is called (the full-size spectrum uses exactly those)."""
    pop_ids = c['pop_ids']; ndip = c['truth']['ndip']
    ns = [2 * ndip[p] for p in pop_ids]
    cols = []
    for key, e in entries.items():
        if polarized and e['anc'] is None:
            continue
        if any(e['per'][p]['called'] < n for p, n in zip(pop_ids, ns)):
            continue
        der = 1 if e['anc'] != 'alt' else 0            # the derived allele: ALT unless ALT is ancestral
        cols.append([[1 if x == der else 0 for a in e['per'][p]['haps'] for x in a] for p in pop_ids])
    res = {}
    seg = [col for col in cols if 0 < sum(sum(h) for h in col) < sum(ns)]
    res['S'] = float(len(seg))
    if len(pop_ids) == 1:
        n = ns[0]
        if n >= 2:
            npairs = n * (n - 1) // 2
            pi = Fraction(0)
            for col in cols:
                h = col[0]
                pi += Fraction(sum(1 for i in range(n) for j in range(i + 1, n) if h[i] != h[j]), npairs)
            a1 = sum(Fraction(1, i) for i in range(1, n)); a2 = sum(Fraction(1, i * i) for i in range(1, n))
            res['pi'] = float(pi)
            res['thetaW'] = float(len(seg) / a1)
            res['thetaL'] = float(sum(Fraction(sum(col[0])) for col in seg) / (n - 1))
            if n >= 4 and seg:
                S = len(seg)
                b1 = Fraction(n + 1, 3 * (n - 1)); b2 = Fraction(2 * (n * n + n + 3), 9 * n * (n - 1))
                c1 = b1 - 1 / a1; c2 = b2 - Fraction(n + 2, 1) / (a1 * n) + a2 / a1 ** 2
                e1 = c1 / a1; e2 = c2 / (a1 ** 2 + a2)
                var = e1 * S + e2 * S * (S - 1)
                if var > 0:
                    res['D'] = float(pi - S / a1) / math.sqrt(float(var))
    else:
        # Weir & Cockerham (1984) p. 1360/1363 with n_i = number of sampled chromosomes, random mating:
        # hbar is eliminated by setting b = 0; theta = sum_loci a / sum_loci (a + b + c) with b = 0
        r = len(ns)
        nbar = Fraction(sum(ns), r)
        nc = (sum(ns) - Fraction(sum(n * n for n in ns), sum(ns))) / (r - 1)
        A = Fraction(0); AC = Fraction(0)
        for col in seg:
            ps = [Fraction(sum(h), n) for h, n in zip(col, ns)]
            pbar = sum(n * p for n, p in zip(ns, ps)) / sum(ns)
            s2 = sum(n * (p - pbar) ** 2 for n, p in zip(ns, ps)) / ((r - 1) * nbar)
            X = pbar * (1 - pbar) - Fraction(r - 1, r) * s2
            hbar = 4 * nbar / (2 * nbar - 1) * X                  # from b = 0
            a = nbar / nc * (s2 - (X - hbar / 4) / (nbar - 1))
            bb = nbar / (nbar - 1) * (X - (2 * nbar - 1) / (4 * nbar) * hbar)
            cc = hbar / 2
            assert bb == 0
            A += a; AC += a + bb + cc
        if AC != 0:
            res['Fst'] = float(A / AC)
    return res

def expected_chunks(keys, cs):
    """chunk membership by the documented rule: chromosome by chromosome (first appearance), consecutive windows of
    chunk_size base pairs (1..cs, cs+1..2cs, ...), positions ascending, empty windows kept up to the last SNP"""
    by = {}
    for k in keys:
        chrom, rest = k.rsplit('_', 1)
        pos, _, add = rest.partition('.')
        by.setdefault(chrom, []).append((int(pos), add, k))
    out = []
    for chrom, l in by.items():
        l.sort(key=lambda t: (t[0], t[1]))
        nwin = max(max(0, (p - 1) // cs) for p, _, _ in l) + 1
        for w in range(nwin):
            out.append([k for p, _, k in l if max(0, (p - 1) // cs) == w])
    return out

# ------------------------------------------------------------------------------------------------
# Coq literals

def cs_(s):
    return '"' + s.replace('"', '""') + '"'
def strl(l):
    return '[' + '; '.join(cs_(x) for x in l) + ']'
def strll(ll):
    return '[' + ';\n   '.join(strl(l) for l in ll) + ']'
def opt(x, f):
    return 'None' if x is None else '(Some %s)' % f(x)
def snp_lit(e):
    return '{| s_seg := %s; s_context := %s; s_out := %s; s_out_context := %s; s_calls := [%s] |}' % (
        strl(e['seg']), cs_(e['context']), opt(e['out'], cs_), cs_(e['out_context']),
        '; '.join('(%s, (%d%%nat, %d%%nat))' % (cs_(p), r, a) for p, r, a in e['calls']))
def dd_lit(dd):
    return '[' + ';\n   '.join('(%s, %s)' % (cs_(e['key']), snp_lit(e)) for e in dd) + ']'
def cd_lit(cd):
    return '[' + '; '.join('((%s, %s, %s), %d%%nat)' % (natl(s), natl(d), b(p), n) for s, d, p, n in cd) + ']'
def fs_lit(fs):
    return '(%s, %s)' % (ql(fs['data']), lib.bl(fs['mask']))

def case_lit(c, r):
    vcf_tokens = [ln.split('\t') for ln in c['vcf_text'].splitlines(keepends=True)]
    pop_tokens = [ln.split() for ln in c['popinfo_text'].splitlines(keepends=True)]
    sub = c['subsample']
    have_dd = 'dd' in r
    stats = None
    if have_dd and 'stats' in r:
        st, sf = r['stats'], r['stats_fold']
        stats = [st.get('S'), st.get('pi'), st.get('thetaW'), st.get('thetaL'), st.get('D'), st.get('Fst'),
                 sf.get('S'), sf.get('pi'), sf.get('Fst')]
        n0 = c['full'][0]
        if len(c['full']) == 1 and (n0 < 4 or not st.get('S')):
            stats[4] = None                                        # Tajima's D undefined (0/0) or c1 = 0 up to rounding
    fields = [
        'dc_popinfo := %s' % strll(pop_tokens),
        'dc_vcf := %s' % strll(vcf_tokens),
        'dc_filter := %s' % b(c['filter']),
        'dc_sub := %s' % opt(sub, lambda s: '[' + '; '.join('(%s, %d%%nat)' % (cs_(p), k) for p, k in s) + ']'),
        'dc_choices := [%s]' % '; '.join(natl(ch['idx']) for ch in r.get('choices', [])),
        'dc_pop_ids := %s' % strl(c['pop_ids']),
        'dc_projs := %s' % natl(c['projections']),
        'dc_full := %s' % natl(c['full'] or []),
        'dc_mask_corners := %s' % b(c['mask_corners']),
        'dc_cs := %d%%N' % c['chunk_size'],
        'dc_rename := [%s]' % '; '.join('(%s, %s)' % (cs_(a), cs_(bb)) for a, bb in c['rename']),
        'dc_boot_pol := %s' % b(c['boot_polarized']),
        'dc_picks := [%s]' % '; '.join(natl(p['idx']) for p in r.get('picks', [])),
        'di_dd := %s' % opt(r.get('dd'), dd_lit),
        'di_cd := %s' % opt(r.get('cd'), cd_lit),
        'di_pol := %s' % opt(r.get('fs_pol'), fs_lit),
        'di_fold := %s' % opt(r.get('fs_fold'), fs_lit),
        'di_chunks := %s' % opt(r.get('chunks'), lambda ch: '[' + '; '.join(strl(x) for x in ch) + ']'),
        'di_chunk_fs := [%s]' % '; '.join(ql(f['data']) for f in r.get('chunk_fs', [])),
        'di_boots := %s' % opt(r.get('boots'), lambda bs: '[' + '; '.join(ql(f['data']) for f in bs) + ']'),
        'di_stats := [%s]' % ('; '.join(opt(x, q) for x in stats) if stats else ''),
        'di_stat_fs := %s' % ('(Some (%s, %s, %s, %s))' % (ql(r['stat_fs']['data']), lib.bl(r['stat_fs']['mask']),
                                                           ql(r['stat_fs_fold']['data']), lib.bl(r['stat_fs_fold']['mask']))
                              if stats else 'None'),
    ]
    return '{| ' + ';\n  '.join(fields) + ' |}'

CHECKS = ['data dictionary', 'count dictionary', 'polarised spectrum', 'folded spectrum', 'chunk membership',
          'chunk spectra (and they add up)', 'bootstraps', 'statistics']

def run_coq(ctx, cases, byid):
    header = ('From Coq Require Import ZArith NArith QArith List String.\n'
              'From Dadi Require Import Base.Num Base.NumQ Model.Fold Model.DataDict Model.Stats Model.DataDictCheck.\n'
              'Import ListNotations.\nOpen Scope string_scope.\nOpen Scope Q_scope.\n')
    shard = ctx.pick(4, 6)
    files = []
    todo = [c for c in cases if 'driver_error' not in byid[c['id']]]
    for k in range(0, len(todo), shard):
        body = [header]
        ids = []
        for c in todo[k:k + shard]:
            body.append('Definition case_%d : dcase := %s.' % (c['id'], case_lit(c, byid[c['id']])))
            for j in range(len(CHECKS)):
                ids.append('(%d%%Z, dcheck %s %s %d case_%d)' % (c['id'] * 16 + j, q(TOL), q(TOL_STAT), j, c['id']))
        body.append('Definition results := [%s].' % ';\n  '.join(ids))
        body.append('Eval vm_compute in results.')
        files.append(('C13_corr_%d' % (k // shard), '\n'.join(body) + '\n'))
    res = lib.run_case_files(files, timeout=900, jobs=JOBS)
    out = {}
    for n, (rc, so, se, secs) in res.items():
        if rc != 0:
            ctx.obligation('coqc %s' % n, False, 'correspondence', se[-600:])
            continue
        for cid, okk, e in lib.parse_results(so):
            out[cid] = (okk, e)
            ctx.err(CHECKS[cid % 16], e, 'tol 1e-11 x scale' if cid % 16 != 7 else 'tol 1e-10 x max(1,|value|)')
    ctx.checker_cmds.append('coqc -Q coq/theories Dadi build/cases/C13_corr_*.v  (%d cases x %d checks, vm_compute)' % (len(todo), len(CHECKS)))
    return out

# ------------------------------------------------------------------------------------------------

def close(a, bb, tol=1e-11):
    a = np.asarray(a, dtype=float); bb = np.asarray(bb, dtype=float)
    if a.shape != bb.shape:
        return False
    s = max(1.0, float(np.max(np.abs(a))) if a.size else 1.0)
    return bool(np.all(np.abs(a - bb) <= tol * s))

def slim(c):
    return {k: v for k, v in c.items() if k not in ('truth', '_pred_viol')}
def pub(c):
    return {k: v for k, v in c.items() if k != '_pred_viol'}

def predicates(ctx, c, r):
    """the property itself, evaluated on what the real code returned"""
    t = c['truth']
    nviol = 0
    def viol(what, key, extra=None):
        nonlocal nviol
        nviol += 1
        ctx.violation(what, data={'case': pub(c), 'impl': {k: r.get(k) for k in ('dd', 'cd', 'fs_pol', 'fs_fold', 'chunks', 'stats', 'stats_fold', 'choices', 'picks')}, 'detail': extra}, key=key)
    if 'pop_transport_error' in r:
        ctx.count('compressed_popinfo_unreadable')
        if not getattr(ctx, '_c13_poptr', False):
            ctx._c13_poptr = True
            viol('make_data_dict_vcf cannot read a %s popinfo file (documented as supported): %s' % (c['pop_transport'], r['pop_transport_error']),
                 'make_data_dict_vcf:compressed-popinfo-raises')
            nviol -= 1
    if 'dd' not in r:
        viol('make_data_dict_vcf raised on a well-formed VCF: %s' % r.get('dd_error'), 'make_data_dict_vcf:raises')
        return nviol
    for kx in ('cd_error', 'fs_error', 'chunk_error', 'stat_error'):
        if kx in r and not (kx == 'stat_error' and c['full'] is None):
            viol('%s on a well-formed data dictionary: %s' % (kx, r[kx]), 'from_data_dict:' + kx)
            return nviol
    entries = truth_entries(c)
    shape = [m + 1 for m in c['projections']]
    sub = dict(c['subsample']) if c['subsample'] else None
    dd = {e['key']: e for e in r['dd']}
    # which SNPs are in the dictionary
    ok = set(dd) == set(entries)
    ctx.obligation('case %d: dictionary holds exactly the biallelic SNPs that pass the filter%s' % (c['id'], ' and have k called individuals' if sub else ''),
                   ok or t['inconsistent'], 'predicate')
    if not ok and not t['inconsistent']:
        viol('data dictionary keys differ from the usable SNP lines: extra %r missing %r' % (sorted(set(dd) - set(entries))[:3], sorted(set(entries) - set(dd))[:3]),
             'make_data_dict_vcf:usable-snp-set')
    # subsampling: exactly k individuals
    if sub is not None:
        good = True; why = ''
        for e in r['dd']:
            for p, rc, ac in e['calls']:
                if p in sub and rc + ac != 2 * sub[p]:
                    good = False; why = 'SNP %s pop %s: %d alleles counted for %d requested diploid individuals' % (e['key'], p, rc + ac, sub[p])
        for ch in r['choices']:
            if len(ch['idx']) != ch['k'] or len(set(ch['idx'])) != ch['k'] or any(not (0 <= i < ch['n']) for i in ch['idx']) or ch['pool'] != list(range(ch['n'])):
                good = False; why = 'draw %r is not k distinct individuals among the called ones' % ch
        ctx.obligation('case %d: subsampling uses exactly k individuals per SNP and population' % c['id'], good, 'predicate', why)
        if not good:
            viol('subsampling does not use exactly the requested number of individuals: ' + why, 'make_data_dict_vcf:subsample-not-k')
    # spectrum = sum of projections; total = number of usable SNPs
    pol = np.array(r['fs_pol']['data']).reshape(shape); fold = np.array(r['fs_fold']['data']).reshape(shape)
    if sub is None and not t['inconsistent']:
        epol, efold, npol, nall = expected_spectra(c, entries)
        g1 = close(pol, epol); g2 = close(fold, efold)
        ctx.obligation('case %d: polarised spectrum == sum over usable SNPs of hypergeometric projections' % c['id'], g1, 'predicate')
        ctx.obligation('case %d: folded spectrum == folded sum over usable SNPs of hypergeometric projections' % c['id'], g2, 'predicate')
        if not g1:
            viol('from_data_dict(polarized=True) is not the sum of the per-SNP projections (max diff %.3g)' % float(np.max(np.abs(pol - epol))),
                 'from_data_dict:polarised-not-sum-of-projections', {'expected': epol.ravel().tolist()})
        if not g2:
            viol('from_data_dict(polarized=False) is not the folded sum of the per-SNP projections (max diff %.3g)' % float(np.max(np.abs(fold - efold))),
                 'from_data_dict:folded-not-sum-of-projections', {'expected': efold.ravel().tolist()})
    else:
        # from the dictionary the code built: SNPs with enough calls in every population
        npol = nall = 0
        for e in r['dd']:
            calls = {p: rc + ac for p, rc, ac in e['calls']}
            enough = all(calls[p] >= m for p, m in zip(c['pop_ids'], c['projections']))
            nall += enough
            npol += enough and e['out'] in e['seg']
    g3 = abs(pol.sum() - npol) <= 1e-10 * max(1, npol); g4 = abs(fold.sum() - nall) <= 1e-10 * max(1, nall)
    ctx.obligation('case %d: total of the polarised spectrum == number of usable polarised SNPs (%d)' % (c['id'], npol), g3, 'predicate')
    ctx.obligation('case %d: total of the folded spectrum == number of usable SNPs (%d)' % (c['id'], nall), g4, 'predicate')
    if not g3:
        viol('total of the polarised spectrum is %r but %d SNPs are usable' % (float(pol.sum()), npol), 'from_data_dict:total-ne-usable-polarised')
    if not g4:
        viol('total of the folded spectrum is %r but %d SNPs are usable' % (float(fold.sum()), nall), 'from_data_dict:total-ne-usable-folded')
    ctx.count('usable_snps', nall); ctx.count('usable_polarised_snps', npol)
    # chunks
    if 'chunks' in r:
        ren = dict(c['rename'])
        keys2 = [ren.get(e['key'], e['key']) for e in r['dd']]
        exp = expected_chunks(keys2, c['chunk_size'])
        g5 = exp == r['chunks']
        ctx.obligation('case %d: chunks are the consecutive chunk_size windows of each chromosome and partition the SNPs' % c['id'], g5, 'predicate')
        if not g5:
            viol('fragment_data_dict(chunk_size=%d) does not split into consecutive windows: got %r expected %r' % (c['chunk_size'], r['chunks'][:4], exp[:4]),
                 'fragment_data_dict:windows')
        whole = np.array(r['whole_fs']['data'])
        ssum = np.sum([np.array(f['data']) for f in r['chunk_fs']], axis=0) if r['chunk_fs'] else np.zeros_like(whole)
        g6 = close(whole, ssum)
        ctx.obligation('case %d: chunk spectra add up to the whole' % c['id'], g6, 'predicate')
        if not g6:
            viol('chunk spectra do not add up to the spectrum of the whole dictionary (max diff %.3g)' % float(np.max(np.abs(whole - ssum))), 'fragment_data_dict:spectra-do-not-add-up')
        if 'boots_error' in r:
            if len(r['chunks']) == 0:
                ctx.count('empty_dictionary_no_bootstrap')      # reduce() of an empty sequence: no chunk to draw from
            else:
                viol('bootstraps_from_dd_chunks raised on %d chunks: %s' % (len(r['chunks']), r['boots_error']), 'bootstraps_from_dd_chunks:raises')
        g7 = 'boots' not in r or len(r['boots']) == c['nboot'] == len(r['picks'])
        for bt, pk in zip(r.get('boots', []), r['picks']):
            want = np.sum([np.array(r['chunk_fs'][i]['data']) for i in pk['idx']], axis=0)
            g7 = g7 and pk['k'] == len(r['chunks']) == pk['n'] and close(np.array(bt['data']), want) \
                and bt['mask'] == r['whole_fs']['mask'] and bt['folded'] == (not c['boot_polarized']) and bt['pop_ids'] == c['pop_ids']
        ctx.obligation('case %d: every bootstrap is the sum of len(chunks) drawn chunk spectra' % c['id'], g7, 'predicate')
        if not g7:
            viol('a bootstrap spectrum is not the sum of the drawn chunk spectra', 'bootstraps_from_dd_chunks:not-sum-of-chunks')
    # the SNP-file reader (Misc.make_data_dict) on the same counts must give the same dictionary entries and spectra
    if 'snp_transport_error' in r:
        ctx.count('compressed_snp_file_unreadable')
        if not getattr(ctx, '_c13_snptr', False):
            ctx._c13_snptr = True
            viol('make_data_dict cannot read a %s SNP file (documented as supported): %s' % (c['snp_transport'], r['snp_transport_error']),
                 'make_data_dict:compressed-file-raises')
            nviol -= 1
    if c.get('snp_text'):
        if 'snp_error' in r:
            ctx.obligation('case %d: make_data_dict reads the SNP-file form of the data' % c['id'], False, 'predicate', r['snp_error'])
            viol('make_data_dict / from_data_dict raised on the SNP-file form of the data: %s' % r['snp_error'], 'make_data_dict:raises')
        else:
            sd = {e['key']: e for e in r['snp_dd']}
            same = set(sd) == set(dd) and all(
                sorted(map(tuple, sd[k]['calls'])) == sorted(map(tuple, dd[k]['calls'])) and sd[k]['seg'] == dd[k]['seg'] and (sd[k]['out'] if sd[k]['out'] in sd[k]['seg'] else None) == (dd[k]['out'] if dd[k]['out'] in dd[k]['seg'] else None)
                for k in sd if k in dd)
            g8 = same and close(r['snp_fs_pol']['data'], r['fs_pol']['data']) and close(r['snp_fs_fold']['data'], r['fs_fold']['data']) \
                and r['snp_fs_pol']['mask'] == r['fs_pol']['mask'] and r['snp_fs_fold']['mask'] == r['fs_fold']['mask']
            ctx.obligation('case %d: make_data_dict (SNP file) gives the same entries and spectra as the VCF reader' % c['id'], g8, 'predicate')
            ctx.count('snp_file_cases')
            if not g8:
                viol('Misc.make_data_dict on the SNP-file form of the data gives different entries or spectra than the VCF reader', 'make_data_dict:differs-from-vcf')
    # statistics
    if 'stats' in r and sub is None and not t['inconsistent']:
        for polarized, st, tag in ((True, r['stats'], 'unfolded'), (False, r['stats_fold'], 'folded')):
            ds = direct_stats(c, entries, polarized)
            for name, want in ds.items():
                if not polarized and name in ('thetaL', 'D'):
                    if name == 'thetaL':
                        continue
                got = st.get(name)
                if got is None:
                    g = False
                else:
                    g = abs(got - want) <= 1e-10 * max(1.0, abs(want))
                ctx.obligation('case %d: %s of the %s spectrum == the same from the genotype matrix' % (c['id'], name, tag), g, 'predicate',
                               '' if g else 'spectrum %r, genotypes %r' % (got, want))
                ctx.count('stat_' + name)
                if not g:
                    viol('%s from the %s spectrum is %r, from the genotype matrix %r' % (name, tag, got, want), 'stats:%s-ne-direct' % name)
    stat_state_predicates(ctx, c, r, entries, viol)
    return nviol

# ------------------------------------------------------------------------------------------------
# the statistics leave the spectrum as it was

STATS_1 = ['S', 'pi', 'thetaW', 'D', 'thetaL', 'E']
STATS_N = ['S', 'Fst']
STAT_PY = {'S': 'S', 'pi': 'pi', 'thetaW': 'Watterson_theta', 'D': 'Tajima_D', 'thetaL': 'theta_L', 'E': 'Zengs_E', 'Fst': 'Fst'}

def stat_seqs_for(c, rng):
    """call sequences: per (projection kind, mask_corners, polarized) one order with a different method first each time, followed
    by every method a second time in another order; `alone`: each method on a freshly built object"""
    methods = STATS_1 if len(c['pop_ids']) == 1 else STATS_N
    kinds = ['proj'] + (['full'] if c['full'] and list(c['full']) != list(c['projections']) else [])
    out = []
    i = rng.randrange(len(methods))
    for kind in kinds:
        for mc in (False, True):
            for pol in (True, False):
                first = methods[i % len(methods)]; i += 1
                rest = [m for m in methods if m != first]; rng.shuffle(rest)
                second = list(methods); rng.shuffle(second)
                out.append({'kind': kind, 'mask_corners': mc, 'polarized': pol, 'calls': [first] + rest + second, 'alone': list(methods)})
    return out

def same_value(a, bb):
    return a == bb or (a is None and bb is None)

def stat_state_predicates(ctx, c, r, entries, viol):
    """clause by clause, on what the real code reported after every statistic call (see module docstring (3))"""
    t = c['truth']
    sub = dict(c['subsample']) if c['subsample'] else None
    seen = ctx.__dict__.setdefault('_c13_stat_reported', set())
    direct = {}
    for rec in r.get('stat_seqs') or []:
        kind, mc, pol = rec['kind'], rec['mask_corners'], rec['polarized']
        projs = c['full'] if kind == 'full' else c['projections']
        tag = '%s spectrum at %s, mask_corners=%s' % ('polarised' if pol else 'folded', 'full size' if kind == 'full' else 'the requested projection', mc)
        cfg = [x for x in c['stat_seqs'] if (x['kind'], x['mask_corners'], x['polarized']) == (kind, mc, pol)][0]
        ctx.count('stat sequence: %s mask_corners=%s %s' % (kind, mc, 'polarised' if pol else 'folded'))
        ctx.count('stat sequence first call: ' + cfg['calls'][0])
        problems = []        # (key, text, call sequence up to the failing call)
        if 'error' in rec:
            problems.append(('stats:sequence-raises', 'building the %s raised %s' % (tag, rec['error']), []))
        else:
            n = 0
            for e in r['dd']:
                calls = {p: rc + ac for p, rc, ac in e['calls']}
                if all(calls[p] >= m for p, m in zip(c['pop_ids'], projs)) and (not pol or e['out'] in e['seg']):
                    n += 1
            b0 = rec['before']
            tol_n = 1e-10 * max(1, n)
            # total == number of usable SNPs is a statement about fs.sum() whenever no SNP sits under the mask the spectrum was
            # built with: always for polarised spectra with mask_corners=False; a folded spectrum comes out of fold() with its
            # 'seen in none' corner masked whatever mask_corners says, and then only the entries (data_total) add up to n
            nothing_hidden = not any(m_ and x != 0 for m_, x in zip(rec['fs']['mask'], rec['fs']['data']))
            if nothing_hidden:
                ctx.count('stat sequence on a spectrum with no SNP under the mask (total == usable SNPs re-checked after every call)')
            if pol and not mc and not nothing_hidden:
                problems.append(('from_data_dict:unmasked-spectrum-has-masked-snps', 'polarised spectrum built with mask_corners=False has SNPs under its mask', []))
            def clauses(a):
                out = []
                if not a['data_same']:
                    out.append('the data of the spectrum changed')
                if not a['mask_same']:
                    newly = sum(1 for x, y in zip(a.get('mask', []), rec['fs']['mask']) if x and not y)
                    out.append('the mask of the spectrum changed (%d entries newly masked)' % newly)
                if not a['meta_same']:
                    out.append('shape / folded / pop_ids of the spectrum changed')
                if not same_value(a['total'], b0['total']):
                    out.append('the total of the spectrum went from %r to %r' % (b0['total'], a['total']))
                if nothing_hidden and n > 0 and not (a['total'] is not None and abs(a['total'] - n) <= tol_n):
                    out.append('the total of the spectrum is %r but %d SNPs are usable' % (a['total'], n))
                if a['data_total'] is None or abs(a['data_total'] - n) > tol_n:
                    out.append('the entries of the spectrum add up to %r but %d SNPs are usable' % (a['data_total'], n))
                if 'chunk_mask_same' in a:
                    if a['chunk_data_dev'] > 1e-11:
                        out.append('the spectrum no longer equals the sum of the chunk spectra (relative dev %.3g)' % a['chunk_data_dev'])
                    if not a['chunk_mask_same']:
                        out.append('the mask of the spectrum differs from the mask of the sum of the chunk spectra')
                    ct = a['chunk_total']
                    if (ct is None) != (a['total'] is None) or (ct is not None and abs(ct - a['total']) > 1e-10 * max(1.0, abs(ct))):
                        out.append('the total of the spectrum is %r, the total of the sum of the chunk spectra %r' % (a['total'], ct))
                return out
            bad0 = clauses(b0)
            if bad0:
                problems.append(('from_data_dict:spectrum-clauses-fail-before-any-statistic', '; '.join(bad0), []))
            first = {}
            intact = not bad0
            for k, a in enumerate(rec['calls']):
                seq = cfg['calls'][:k + 1]
                if intact:
                    # the first call after which a clause fails is the one reported; what follows runs on an altered spectrum
                    ctx.count('stat call re-checked: ' + a['name'])
                    badk = clauses(a)
                    if badk:
                        intact = False
                        problems.append(('stats:%s-changes-spectrum' % a['name'], '; '.join(badk), seq))
                if a['name'] in first:
                    if intact and not (same_value(a['value'], first[a['name']]['value']) and (a['error'] is None) == (first[a['name']]['error'] is None)):
                        problems.append(('stats:%s-second-evaluation-differs' % a['name'], '%s() gives %r, the earlier evaluation on the same spectrum gave %r' % (
                            STAT_PY[a['name']], a['value'] if a['error'] is None else a['error'], first[a['name']]['value'] if first[a['name']]['error'] is None else first[a['name']]['error']), seq))
                else:
                    first[a['name']] = a
            for a in rec['alone']:
                ctx.count('stat call alone on a fresh spectrum re-checked: ' + a['name'])
                bada = clauses(a)
                if bada:
                    problems.append(('stats:%s-changes-spectrum' % a['name'], '; '.join(bada), [a['name']]))
                if not a['fresh_same_as_first']:
                    problems.append(('from_data_dict:not-reproducible', 'from_data_dict called twice on the same dictionary gives different spectra', [a['name']]))
                f = first.get(a['name'])
                if f is not None and not (same_value(a['value'], f['value']) and (a['error'] is None) == (f['error'] is None)):
                    problems.append(('stats:%s-depends-on-earlier-calls' % a['name'], '%s() gives %r on a freshly built spectrum and %r on an equal spectrum after the calls %r' % (
                        STAT_PY[a['name']], a['value'], f['value'], cfg['calls'][:cfg['calls'].index(a['name'])]), cfg['calls'][:cfg['calls'].index(a['name']) + 1]))
            # the values against direct counting, for both mask_corners settings (the corner entries carry weight 0 in every statistic)
            if list(projs) == list(c['full'] or []) and sub is None and not t['inconsistent']:
                if pol not in direct:
                    direct[pol] = direct_stats(c, entries, pol)
                for name, want in direct[pol].items():
                    if not pol and name == 'thetaL':
                        continue
                    got = first.get(name, {}).get('value')
                    if got is None or abs(got - want) > 1e-10 * max(1.0, abs(want)):
                        problems.append(('stats:%s-ne-direct' % name, '%s is %r, from the genotype matrix %r' % (name, got, want), [name]))
                    ctx.count('stat_%s mask_corners=%s' % (name, mc))
        ctx.obligation('case %d: %s: after every statistic call (order %s) data, mask, total, chunk-sum identity unchanged; repeated evaluation gives the same value' % (
            c['id'], tag, ' '.join(cfg['calls'])), not problems, 'predicate', '; '.join(p_[1] for p_ in problems[:3])[:400])
        for key, text, seq in problems:
            if key in seen:
                continue
            seen.add(key)
            pycalls = ['fs.%s()' % STAT_PY[x] for x in seq]
            viol('%s: after %s: %s' % (tag, ', '.join(pycalls) if pycalls else 'construction (no statistic called)', text), key,
                 {'spectrum': {'kind': kind, 'projections': projs, 'mask_corners': mc, 'polarized': pol}, 'call_sequence': pycalls,
                  'full_sequence': cfg['calls'], 'reported': {k_: v for k_, v in rec.items() if k_ != 'fs'}})

# fail-closed reading of the statistic methods: which of them touch `self` at all.  The model's stat_* are pure functions of
# (data, mask); the only permitted effect is S's  save a COPY of the mask / mask the corners / restore  protocol.

def _is_self_attr(node, attr=None):
    import ast
    return isinstance(node, ast.Attribute) and isinstance(node.value, ast.Name) and node.value.id == 'self' and (attr is None or node.attr == attr)

def _root_is_self(node):
    import ast
    while isinstance(node, (ast.Attribute, ast.Subscript, ast.Starred)):
        node = node.value
    return isinstance(node, ast.Name) and node.id == 'self'

def _first_attr(node):
    """the attribute taken directly from self in a chain self.a[...].b ... (None: self itself or self[...])"""
    import ast
    while isinstance(node, (ast.Attribute, ast.Subscript)):
        if _is_self_attr(node):
            return node.attr
        node = node.value
    return None

def _pure_stmts(stmts, allowed_calls, why):
    """no statement writes through self, aliases self / its buffers, hands bare self to a call, or calls a method of self
    outside `allowed_calls`"""
    import ast
    ok = True
    for st in stmts:
        parents = {}
        for node in ast.walk(st):
            for ch in ast.iter_child_nodes(node):
                parents[ch] = node
        for node in ast.walk(st):
            if isinstance(node, (ast.Assign, ast.AugAssign, ast.AnnAssign, ast.Delete, ast.For, ast.With, ast.NamedExpr)):
                tg = node.targets if isinstance(node, (ast.Assign, ast.Delete)) else [getattr(node, 'target', None)] if not isinstance(node, ast.With) else [i.optional_vars for i in node.items]
                flat = []
                for t_ in tg:
                    flat += list(ast.walk(t_)) if t_ is not None else []
                if any(_root_is_self(t_) for t_ in flat if isinstance(t_, (ast.Attribute, ast.Subscript, ast.Name))):
                    why.append('line %d writes through self' % node.lineno); ok = False
                val = getattr(node, 'value', None)
                if val is not None and isinstance(val, (ast.Name, ast.Attribute, ast.Subscript)) and _root_is_self(val) and \
                        _first_attr(val) not in ('Npop', 'sample_sizes', 'shape', 'ndim', 'folded'):     # computed properties / immutables
                    why.append('line %d binds a name to (a part of) self without copying' % node.lineno); ok = False
            if isinstance(node, ast.Name) and node.id == 'self' and isinstance(node.ctx, ast.Load):
                par = parents.get(node)
                if not isinstance(par, (ast.Attribute, ast.Subscript, ast.BinOp, ast.UnaryOp, ast.Compare)):
                    why.append('line %d hands self itself to %s' % (node.lineno, type(par).__name__)); ok = False
            if isinstance(node, ast.Call):
                if any(k_.arg == 'out' for k_ in node.keywords):
                    why.append('line %d: out= keyword' % node.lineno); ok = False
                f = node.func
                if isinstance(f, ast.Attribute) and _root_is_self(f.value):
                    if not (isinstance(f.value, ast.Name) and f.attr in allowed_calls):
                        why.append('line %d calls self...%s()' % (node.lineno, f.attr)); ok = False
            if isinstance(node, (ast.Global, ast.Nonlocal, ast.Try, ast.While, ast.Lambda, ast.FunctionDef, ast.ClassDef)):
                why.append('line %d: %s not read by this obligation' % (node.lineno, type(node).__name__)); ok = False
    return ok

def stat_source_obligation(ctx):
    import ast
    path = os.path.join(lib.REPO, 'dadi', 'Spectrum_mod.py')
    name = ('source of Spectrum.S / pi / Watterson_theta / theta_L / Tajima_D / Zengs_E / Fst: no write through self, no alias of self or its '
            'buffers, except S: oldmask = self.mask.copy(); self.mask_corners(); S = self.sum(); self.mask = oldmask; return S  '
            '(mask_corners: self.mask.flat[0] = self.mask.flat[-1] = True)')
    why = []
    try:
        tree = ast.parse(open(path).read())
        cls = [n for n in tree.body if isinstance(n, ast.ClassDef) and n.name == 'Spectrum'][0]
        meth = {}
        for n in cls.body:
            if isinstance(n, ast.FunctionDef):
                if n.name in meth:
                    why.append('method %s defined twice' % n.name)
                meth[n.name] = n
        def body(fn):
            b_ = list(meth[fn].body)
            if b_ and isinstance(b_[0], ast.Expr) and isinstance(b_[0].value, ast.Constant) and isinstance(b_[0].value.value, str):
                b_ = b_[1:]
            if meth[fn].decorator_list or [a.arg for a in meth[fn].args.args] != ['self'] or meth[fn].args.vararg or meth[fn].args.kwarg or meth[fn].args.kwonlyargs:
                why.append('%s: signature is not (self)' % fn)
            return b_
        pure = ['S', 'pi', 'Watterson_theta', 'theta_L', 'Tajima_D', 'Zengs_E', 'Fst', 'sum']
        for fn in ('pi', 'Watterson_theta', 'theta_L', 'Tajima_D', 'Zengs_E', 'Fst'):
            w = []
            if not _pure_stmts(body(fn), pure, w):
                why += ['%s: %s' % (fn, x) for x in w]
        # S: the one permitted protocol
        b_ = body('S')
        src = [ast.unparse(x) for x in b_]
        if src != ['oldmask = self.mask.copy()', 'self.mask_corners()', 'S = self.sum()', 'self.mask = oldmask', 'return S']:
            why.append('S: body is %r' % (src,))
        if [ast.unparse(x) for x in body('mask_corners')] != ['self.mask.flat[0] = self.mask.flat[-1] = True']:
            why.append('mask_corners: body is %r' % ([ast.unparse(x) for x in body('mask_corners')],))
    except Exception as e:
        why.append('%s: %s' % (type(e).__name__, e))
    ctx.obligation(name, not why, 'translator', '; '.join(why)[:600])
    return None if not why else (name, why)


# ------------------------------------------------------------------------------------------------
# stream 'types': the in-memory data dictionary in every spelling the library accepts (c13_types.py)

REVIEWED_COUNT_DATA_DICT = """
def count_data_dict(data_dict, pop_ids):
    count_dict = collections.defaultdict(int)
    for snp_info in data_dict.values():
        if len(snp_info['segregating']) != 2:
            continue
        allele1,allele2 = snp_info['segregating']
        if 'outgroup_allele' in snp_info and snp_info['outgroup_allele'] != '-' and snp_info['outgroup_allele'] in snp_info['segregating']:
            outgroup_allele = snp_info['outgroup_allele']
            this_snp_polarized = True
        else:
            outgroup_allele = allele1
            this_snp_polarized = False
        allele1_calls = [snp_info['calls'][pop][0] for pop in pop_ids]
        allele2_calls = [snp_info['calls'][pop][1] for pop in pop_ids]
        successful_calls = [a1+a2 for (a1,a2) in zip(allele1_calls, allele2_calls)]
        if allele1 == outgroup_allele:
            derived_calls = allele2_calls
        elif allele2 == outgroup_allele:
            derived_calls = allele1_calls
        count_dict[tuple(successful_calls),tuple(derived_calls), this_snp_polarized] += 1
    return count_dict
"""
REVIEWED_FROM_DATA_DICT = """
def from_data_dict(data_dict, pop_ids, projections, mask_corners=True, polarized=True):
    import dadi.Misc
    cd = dadi.Misc.count_data_dict(data_dict, pop_ids)
    fs = Spectrum._from_count_dict(cd, projections, polarized, pop_ids, mask_corners=mask_corners)
    return fs
"""

def _fn_dump(fn):
    import ast
    body = list(fn.body)
    if body and isinstance(body[0], ast.Expr) and isinstance(body[0].value, ast.Constant) and isinstance(body[0].value.value, str):
        body = body[1:]
    return ast.dump(fn.args) + ' :: ' + ' ;; '.join(ast.dump(x) for x in body)

def dd_source_obligation(ctx):
    """fail-closed: Misc.count_data_dict (the polarisation rule snp_row of Model/DataDict.v is a transcription of: outgroup present, != '-',
    a member of segregating -- tested by == / in, never by truth value) and Spectrum.from_data_dict are, statement by statement, the
    text that was reviewed against the model"""
    import ast
    name = ("source of Misc.count_data_dict / Spectrum.from_data_dict: statement by statement the reviewed text (polarised iff 'outgroup_allele' "
            "is present, != '-' and in segregating; no test on the truth value of an allele, a count or a container)")
    why = []
    try:
        for path, cls, fn, reviewed in ((('dadi', 'Misc.py'), None, 'count_data_dict', REVIEWED_COUNT_DATA_DICT),
                                        (('dadi', 'Spectrum_mod.py'), 'Spectrum', 'from_data_dict', REVIEWED_FROM_DATA_DICT)):
            tree = ast.parse(open(os.path.join(lib.REPO, *path)).read())
            scope = tree.body if cls is None else [n for n in tree.body if isinstance(n, ast.ClassDef) and n.name == cls][0].body
            found = [n for n in scope if isinstance(n, ast.FunctionDef) and n.name == fn]
            if len(found) != 1:
                why.append('%s defined %d times' % (fn, len(found))); continue
            want = [n for n in ast.parse(reviewed).body if isinstance(n, ast.FunctionDef)][0]
            if _fn_dump(found[0]) != _fn_dump(want):
                got_l = [ast.unparse(x) for x in found[0].body]; want_l = [ast.unparse(x) for x in want.body]
                diff = [g for g in got_l if g not in want_l and not g.startswith("'")]
                why.append('%s differs from the reviewed text at: %s' % (fn, ' | '.join(d.replace('\n', ' ')[:160] for d in diff[:2]) or 'signature / statement order'))
    except Exception as e:
        why.append('%s: %s' % (type(e).__name__, e))
    ctx.obligation(name, not why, 'translator', '; '.join(why)[:600])
    return None if not why else (name, why)

ENTRY_TEXT = {'cd': 'Misc.count_data_dict', 'fs': 'Spectrum.from_data_dict', 'stats': 'the statistics of the spectrum', 'chunks': 'Misc.fragment_data_dict',
              'chunk_fs': 'the chunk spectra', 'boots': 'Misc.bootstraps_from_dd_chunks', 'unchanged': "the caller's objects"}

def types_canonical_coq(ctx, bases, recs):
    """the canonical spelling of every base through the Coq model"""
    header = ('From Coq Require Import ZArith NArith QArith List String.\n'
              'From Dadi Require Import Base.Num Base.NumQ Model.Fold Model.DataDict Model.Stats Model.DataDictCheck.\n'
              'Import ListNotations.\nOpen Scope string_scope.\nOpen Scope Q_scope.\n')
    files = []; names = {}
    for bi, (base, ref) in enumerate(zip(bases, recs)):
        if any(TY.is_err(v) for v in ref.values()) or 'cd' not in ref:
            continue
        sel = [base['pops'].index(p) for p in base['pop_ids']]
        dd = []
        for s in base['snps']:
            a, bb = s['letters']
            seg = [a, bb] if s['nseg'] == 2 else [a] if s['nseg'] == 1 else [a, bb, [x for x in 'ACGT' if x not in s['letters']][0]]
            dd.append({'key': s['key'], 'seg': seg, 'context': '', 'out': '-' if s['anc'] is None else s['letters'][s['anc']], 'out_context': '',
                       'calls': [(p, s['a1'][i], s['a2'][i]) for i, p in enumerate(base['pops'])]})
        n = 'dd_%d' % bi
        body = [header, 'Definition %s : dict snp := %s.' % (n, dd_lit(dd)),
                'Definition pops_%d := %s.' % (bi, strl(base['pop_ids']))]
        checks = []
        def add(label, term):
            cid = bi * 64 + len(checks)
            names[cid] = label
            checks.append('(%d%%Z, %s)' % (cid, term))
        cd = [(s_, d_, p_, n_) for s_, d_, p_, n_ in ref['cd']]
        add('count dictionary', 'ok (opt_eqb cd_eqb (count_data_dict %s pops_%d) (Some %s))' % (n, bi, cd_lit(cd)))
        for nm, projs in (('proj', base['projections']), ('full', base['full'])):
            for mtag in 'FT':
                for ptag in ('pol', 'fold'):
                    r = ref['fs_%s_%s_%s' % (nm, mtag, ptag)]
                    add('spectrum %s mask_corners=%s %s' % (nm, mtag, ptag),
                        'spec_close %s (from_data_dict (F:=Q) %s pops_%d %s %s %s) (Some %s)' % (q(TOL), n, bi, natl(projs), b(mtag == 'T'), b(ptag == 'pol'), fs_lit(r)))
        add('chunk membership', 'ok (opt_eqb (list_eqb (list_eqb String.eqb)) (option_map (map (map fst)) (fragment_data_dict %s %d%%N)) (Some %s))' % (
            n, base['chunk_size'], '[' + '; '.join(strl(x) for x in ref['chunks']) + ']'))
        for ptag in ('pol', 'fold'):
            cf = ref['chunk_fs_' + ptag]; bt = ref['boots_' + ptag]
            add('chunk spectra ' + ptag,
                'match fragment_data_dict %s %d%%N with Some frags => match all_some (map (fun f => from_data_dict (F:=Q) f pops_%d %s false %s) frags) with '
                'Some specs => all_close %s (map (@ls_data Q) specs) [%s] | None => ok false end | None => ok false end' % (
                    n, base['chunk_size'], bi, natl(base['projections']), b(ptag == 'pol'), q(TOL), '; '.join(ql(f['data']) for f in cf)))
            add('bootstraps ' + ptag,
                'match fragment_data_dict %s %d%%N with Some frags => match bootstraps_from_dd_chunks (F:=Q) frags [%s] pops_%d %s false %s with '
                'Some bs => all_close %s bs [%s] | None => ok false end | None => ok false end' % (
                    n, base['chunk_size'], '; '.join(natl(p_) for p_ in bt['picks']), bi, natl(base['projections']), b(ptag == 'pol'), q(TOL),
                    '; '.join(ql(f['data']) for f in bt['fs'])))
        body.append('Definition results := [%s].' % ';\n  '.join(checks))
        body.append('Eval vm_compute in results.')
        files.append(('C13_types_%d' % bi, '\n'.join(body) + '\n'))
    res = lib.run_case_files(files, timeout=900, jobs=JOBS)
    bad = []
    got = {}
    for nme, (rc, so, se, secs) in res.items():
        if rc != 0:
            ctx.obligation('coqc %s' % nme, False, 'correspondence', se[-600:]); bad.append((nme, 'coqc failed'))
            continue
        for cid, okk, e in lib.parse_results(so):
            got[cid] = (okk, e)
            ctx.err('types: canonical spelling vs model', e, 'tol 1e-11 x scale')
    for cid, label in names.items():
        rr = got.get(cid)
        okk = rr is not None and rr[0]
        ctx.obligation('types base %d (canonical spelling, in-memory data dictionary) vs Coq model: %s' % (cid // 64, label), okk, 'correspondence',
                       '' if okk else 'model != impl %r' % (rr,))
        if not okk:
            bad.append((cid // 64, label))
    ctx.checker_cmds.append('coqc -Q coq/theories Dadi build/cases/C13_types_*.v  (%d bases x 14 checks, vm_compute)' % len(files))
    return bad

def types_stream(ctx, only_base=None, search=False):
    """returns the number of violations with a failing input that were reported"""
    rng = __import__('random').Random('C13-types-%s-%d' % ('search' if search else 'stream', ctx.seed))
    if only_base is not None:
        bases = [only_base]
    else:
        bases = TY.gen_bases(rng, ctx.quick or search)
        if search:
            bases = bases[:2] + bases[3:4]
        for bs in bases:
            bs['variants'] = TY.variants_for(bs, search=search)
    res = []
    for bs in bases:
        res += lib.run_impl('c13_impl_types.py', [bs], timeout=1800)
    reported = {}
    nviol = 0
    refs = []
    for bs, r in zip(bases, res):
        byv = {x['vid']: x for x in r['variants']}
        ref = byv[bs['variants'][0]['vid']]
        refs.append(ref)
        nbad = 0; ncmp = 0
        for v in bs['variants']:
            vr = byv[v['vid']]
            text = TY.spelling_text(v)
            tagc = 'types%s: ' % (' (search)' if search else '')
            if 'driver_error' in vr:
                ctx.obligation('types impl driver base %d variant %s' % (bs['id'], text), False, 'correspondence', vr['driver_error']); continue
            if 'build' in vr:
                ctx.count(tagc + ('spelling not applicable (the spelling of a missing outgroup equals an allele code)' if vr['build']['error'].startswith('Collision')
                                  else 'spelling cannot be built: ' + vr['build']['error'][:60]))
                if not vr['build']['error'].startswith('Collision'):
                    ctx.obligation('types base %d: the harness can build spelling %s' % (bs['id'], text), False, 'correspondence', vr['build']['error'])
                continue
            rej = TY.rejected_groups(v)
            skip = set(g for g, (mode, _) in rej.items() if mode == 'differs')
            for g, (mode, why) in rej.items():
                ctx.count(tagc + 'not accepted by the unchanged library (%s, counted only): %s -> %s' % (mode, ' '.join(why.split(':')[0:1]), g))
            # (a) the property predicates on the variant's own outputs
            probs = {}
            for g, msgs in TY.predicates(bs, vr, skip).items():
                probs.setdefault(g, []).extend(msgs)
            # (b) against the canonical spelling
            if v['vid'] != bs['variants'][0]['vid']:
                for g, msgs in TY.compare(bs, ref, vr, order_free=v['spelling'].get('producer') == 'slim').items():
                    if g in skip:
                        continue
                    if g in rej and all(' raised ' in m for m in msgs):
                        ctx.count(tagc + 'raises as on the unchanged tree: ' + g); continue
                    probs.setdefault(g, []).extend(msgs)
            # (c) the caller's objects
            if 'unchanged' not in skip and vr.get('inputs_unchanged') is not True:
                probs.setdefault('unchanged', []).append('the data dictionary / pop_ids / projections / chunk_size / Nboot objects handed in were altered (%r)' % (vr.get('inputs_unchanged'),))
            ncmp += 1
            ctx.case(signature=('types', bs['id'], text, repr(bs['snps'])), sample=None)
            ctx.count(tagc + 'variants evaluated (%s)' % v['tag'].split(':')[0])
            for f, val in v['spelling'].items():
                ctx.count(tagc + '%s=%s' % (f, val))
            if v['spelling'] == {}:
                # an error of the canonical spelling is a failure by itself
                for k_, x in vr.items():
                    if TY.is_err(x):
                        probs.setdefault(TY.group_of(k_) or 'fs', []).append('%s raised %s on the canonical spelling' % (k_, x['error']))
            if not probs:
                continue
            nbad += 1
            ctx.count(tagc + 'variants that differ from the canonical spelling or fail a predicate')
            for g, msgs in probs.items():
                # per entry point: the first two one-factor spellings and one combined spelling that fail are reported (the rest is counted)
                one = len(v['spelling']) <= 1
                kk = (g, text) if one else (g, 'combined')
                if kk in reported or sum(1 for x in reported if x[0] == g) >= (2 if one else 3) or len(reported) >= 12:
                    continue
                reported[kk] = True
                nviol += 1
                small = dict(bs); small['variants'] = [bs['variants'][0]] + ([v] if v['vid'] != bs['variants'][0]['vid'] else [])
                ctx.violation('%s with the data dictionary spelled [%s] (%d population(s), projections %r): %s' % (ENTRY_TEXT[g], text, len(bs['pop_ids']), bs['projections'], msgs[0]),
                              data={'types_base': small, 'variant': v['spelling'], 'group': g, 'messages': msgs[:6],
                                    'impl': {k_: x for k_, x in vr.items() if TY.group_of(k_) == g or k_ == 'cd'},
                                    'canonical': {k_: x for k_, x in ref.items() if TY.group_of(k_) == g or k_ == 'cd'}},
                              key='types:%s:%s' % (g, text if one else 'combined'))
        ctx.obligation('types base %d (%d population(s)%s): %d spellings x every entry point agree with the canonical spelling, satisfy the predicates, leave the arguments unchanged' % (
            bs['id'], len(bs['pops']), ', SLiM-shaped' if bs['slim'] else '', ncmp), nbad == 0, 'predicate', '' if not nbad else '%d spellings fail' % nbad)
    if not search:
        bad = types_canonical_coq(ctx, bases, refs)
        for bi, label in bad[:3]:
            if isinstance(bi, int):
                bs = bases[bi]
                small = dict(bs); small['variants'] = [bs['variants'][0]]
                ctx.violation('real code and Coq model disagree on the %s of an in-memory data dictionary (canonical spelling, base %d)' % (label, bs['id']),
                              data={'types_base': small, 'impl': refs[bi]}, key='model-mismatch:types:' + label.replace(' ', '-'),
                              no_input=nviol == 0, broken='correspondence (types): ' + label)
    return nviol

def run(ctx):
    ctx.rule = ('case = synthetic VCF text (1-3 populations of 2-12 diploids, extra unassigned samples, 4-40 lines; FILTER values; '
                'lower-case / multi-character / * / multi-allelic REF and ALT; 20 kinds of AA annotation; FORMAT with GT/DP/AD in any order; '
                './. and half-missing calls; repeated CHROM_POS; chromosome names with _ and .) + popinfo text (optional header, swapped '
                'columns, comments, blank lines) + settings (filter, subsample, population order, projections, mask_corners, chunk size, '
                'bootstraps, key suffixes, gzip/zip transport) + per (projection kind requested/full, mask_corners False/True, polarised/folded) a call '
                'sequence of the statistic methods (a different method first each time, every method repeated in another order, every method alone on a '
                'fresh object) after each call of which the spectrum-level clauses are re-evaluated on the same object, all from one PRNG; '
                'distinct = distinct case text+settings; non-trivial = at least one usable SNP.  PLUS (types stream) 5 (thorough 20) genotype-count tables '
                '(1/2/3 populations + two SLiM-shaped) x every enumerated spelling of the in-memory data dictionary and of the other arguments (one factor at a '
                'time: 32 allele codings, 16 missing-outgroup spellings, 5+19+5+5+5 containers, 6 population-key types, 7 pop_ids / 12 projection containers, 8 flag / 5 '
                'chunk_size / 4 Nboot types; pairs allele coding x missing spelling and x segregating container; 12 combined; dd_from_SLiM_files) x every entry point')
    ctx.assumptions += ['spectra: float64 vs exact rational evaluation at 1e-11 x largest entry; statistics at 1e-10 x max(1,|value|)',
                        'the genotype strings are diploid with alleles 0/1/. (biallelic records only count 0 and 1)',
                        'Tajima D is compared only for n >= 4 chromosomes and S > 0 (for n = 2, 3 the variance term is 0 up to rounding)',
                        'bootstraps of an empty data dictionary (no chunk) raise TypeError in reduce(); model: None; not counted as a violation',
                        'types stream: which spellings the library accepts was established on the unchanged tree (table c13_types.REJECTED, 9 entries: counts / '
                        'projections as 0-d arrays, float projections, ndarray pop_ids in the bootstrap, chunk_size as a 0-d array); those are counted, not compared; '
                        'an allele is identified by python equality (==), as count_data_dict does; the model sees the alleles of the canonical (letter) spelling']
    ctx.trusted += ['numpy.random.choice (subsampling) and random.choices (bootstrap): arbitrary choice; the draws made by the real '
                    'generators are recorded and replayed as the oracle of the model; theorems hold for every oracle',
                    'gzip/zip transport of the input files: identity, runtime only (exercised, not modelled)',
                    'sqrt in Tajima D: an uninterpreted function in the theorem, Z.sqrt-based 110-bit approximation when the model runs']
    ctx.level = 'proof'
    ncases = ctx.pick(60, 1000)
    cases = [gen_case(ctx.rng, i, ctx) for i in range(ncases)]
    if ctx.replay:
        rp = json.load(open(ctx.replay))
        if rp.get('input') and 'case' in rp['input'] and rp['input']['case'].get('truth'):
            c = rp['input']['case']; c['id'] = 0
            c['truth']['samples'] = [tuple(x) for x in c['truth']['samples']]
            cases = [c]
    only_base = None
    if ctx.replay:
        rp = json.load(open(ctx.replay))
        if rp.get('input') and rp['input'].get('types_base'):
            only_base = rp['input']['types_base']; cases = []
    for c in cases:
        if c['truth'] and not c['subsample'] and not c['truth']['inconsistent'] and 'snp_text' not in c:
            c['snp_text'] = snp_file_text(c, ctx.rng)
            c['snp_transport'] = ctx.rng.choice(['plain'] * 8 + ['gz', 'zip'])
    for c in cases:
        if 'stat_seqs' not in c:
            c['stat_seqs'] = stat_seqs_for(c, ctx.rng)
    broken_src = stat_source_obligation(ctx)
    broken_dd = dd_source_obligation(ctx)
    ntypes = types_stream(ctx, only_base=only_base)
    if broken_dd and not ntypes and only_base is None:
        # the reviewed text of count_data_dict / from_data_dict changed and the regular stream found nothing: targeted search over the
        # products of the allele codings with every other factor before anything is reported without an input
        ntypes = types_stream(ctx, search=True)
    batches = [cases[i:i + 100] for i in range(0, len(cases), 100)]
    for batch in batches:
        res = lib.run_impl('c13_impl.py', [slim(c) for c in batch], timeout=1800)
        byid = {r['id']: r for r in res}
        for c in batch:
            r = byid[c['id']]
            t = c['truth']
            ctx.count('npop=%d' % len(t['pops'])); ctx.count('pop_ids=%d' % len(c['pop_ids'])); ctx.count('format=' + t['fmt'])
            ctx.count('subsample' if c['subsample'] else 'no_subsample'); ctx.count('filter=%s' % c['filter'])
            ctx.count('transport=' + c['transport'])
            if t['inconsistent']: ctx.count('dp_inconsistent_with_gt')
            if c['rename']: ctx.count('keys_with_info_suffix')
            if 'driver_error' in r:
                ctx.obligation('impl driver case %d' % c['id'], False, 'correspondence', r['driver_error'])
                continue
            nus = len(r.get('dd', []))
            ctx.case(signature=(c['vcf_text'], c['popinfo_text'], c['filter'], c['subsample'], c['pop_ids'], c['projections'], c['chunk_size']) if nus else None,
                     sample={'vcf_head': c['vcf_text'].splitlines()[2:5], 'pop_ids': c['pop_ids'], 'projections': c['projections'],
                             'subsample': c['subsample'], 'n_dict_entries': nus,
                             'total_polarised': float(np.sum(r['fs_pol']['data'])) if 'fs_pol' in r else None})
            npv = predicates(ctx, c, r)
            c['_pred_viol'] = npv
        out = run_coq(ctx, batch, byid)
        nbad = 0
        for c in batch:
            r = byid[c['id']]
            if 'driver_error' in r:
                continue
            for j, name in enumerate(CHECKS):
                rr = out.get(c['id'] * 16 + j)
                ok = rr is not None and rr[0]
                ctx.obligation('corr case %d: %s' % (c['id'], name), ok, 'correspondence', '' if ok else 'model != impl %r' % (rr,))
                if not ok:
                    nbad += 1
                    if nbad <= 3:
                        # the predicates above are the search for a failing input of the property itself on this very case
                        ctx.violation('real code and Coq model disagree on the %s (case %d: %d pops, subsample=%r, filter=%r)' % (
                                          name, c['id'], len(c['pop_ids']), c['subsample'], c['filter']),
                                      data={'case': pub(c), 'impl': {k: v for k, v in r.items() if k not in ('chunk_fs', 'boots')}, 'coq': rr},
                                      key='model-mismatch:' + name.split(' (')[0].replace(' ', '-'),
                                      no_input=not c.get('_pred_viol'), broken='correspondence: ' + name)
    if broken_src and not any(str(v['key'] or '').startswith('stats:') and not v['no_input'] for v in ctx.violations):
        ctx.violation('the statistic methods of Spectrum are no longer recognised as leaving the spectrum untouched (%s); every call sequence of every case '
                      '(mask_corners False/True, polarised/folded, every method first in turn, repeated, alone on a fresh object) left data, mask, total '
                      'and the chunk-sum identity intact' % '; '.join(broken_src[1])[:300],
                      data={'obligation': broken_src[0], 'why': broken_src[1]}, no_input=True, broken=broken_src[0])
    if broken_dd and not ntypes and not any(str(v['key'] or '').startswith(('from_data_dict:', 'types:')) and not v['no_input'] for v in ctx.violations):
        ctx.violation('Misc.count_data_dict / Spectrum.from_data_dict are no longer the reviewed text (%s); every spelling of the in-memory data dictionary (regular '
                      'stream and targeted search: allele codings x every other factor) still gave the canonical count dictionary and spectra' % '; '.join(broken_dd[1])[:300],
                      data={'obligation': broken_dd[0], 'why': broken_dd[1]}, no_input=True, broken=broken_dd[0])
