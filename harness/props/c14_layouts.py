"""C14 — memory layouts of one logical spectrum, and the source-shape obligations on the writers / readers / pickler.

Used by c14.py.  Two things live here:

(1) `gen_layouts`: for a generated case (logical content = shape, values, mask, folding, labels) the list of memory
    layouts in which the SAME logical spectrum is rebuilt by harness/impl/c14_impl.py and pushed through every writer,
    reader and the pickler:  the library's reorder_pops, .transpose(perm), .T, .swapaxes, Fortran-ordered input, the
    constructor handed an axis-permuted array, a stepped slice of a larger Spectrum, a reversed (negative stride) slice,
    constructor with copy=False on stepped/reversed views (mask in a Fortran-ordered block), a stride-0 broadcast mask,
    a Python-bool mask, and numpy.ma.nomask (shrink_mask()).  The permutation is chosen among those that change the
    relative order of the non-singleton axes, so that memory order and logical order really differ.
    The generator has its own PRNG stream (seed, case id): the cases of the base generator are unchanged.

(2) `source_obligations`: fail-closed obligations on the source text: the statement skeleton of to_file / from_file /
    array_to_file / array_from_file / Spectrum_pickler / Spectrum_unpickler is the one the model (Model/FileFormat.v) was
    written against, and - named separately - the data line and the mask line are produced from the C-order ravel of the
    LOGICAL array (`self.data.ravel()`, `numpy.asarray(self.mask, int).ravel()`, `data.tofile` which always writes C
    order), the readers reshape in C order.  A spelling that is not recognised is a broken obligation.
"""
import ast, itertools, os, random
from harness import lib

SPECTRUM = os.path.join(lib.REPO, 'dadi', 'Spectrum_mod.py')
NUMERICS = os.path.join(lib.REPO, 'dadi', 'Numerics.py')

# ----------------------------------------------------------------------------------------------
# (2) source-shape obligations

# accepted spellings of "the logical array flattened in C order"
def _c_ravel_spellings(x):
    return {x + '.ravel()', x + ".ravel('C')", x + ".ravel(order='C')", x + '.flatten()', x + ".flatten('C')",
            x + ".flatten(order='C')", x + '.reshape(-1)', 'numpy.ravel(%s)' % x, "numpy.ravel(%s, order='C')" % x}

DATA_ROW = _c_ravel_spellings('self.data')
MASK_ROW = (_c_ravel_spellings('numpy.asarray(self.mask, int)')
            | _c_ravel_spellings('numpy.asarray(numpy.ma.getmaskarray(self), int)'))
FMT_DATA = {"'%%.%ig' % precision"}
RESHAPE_C = lambda v: {'%s = %s.reshape(*shape)' % (v, v), '%s = %s.reshape(shape)' % (v, v),
                       "%s = %s.reshape(shape, order='C')" % (v, v)}

def _alts(*xs):
    return tuple(xs)

# statement skeletons (two blanks per nesting level; a tuple = accepted alternatives of one line)
SKELETON = {
    ('Spectrum', 'to_file'): [
        "if fname.endswith('.gz'):",
        "  fid = gzip.open(fname, 'wt')",
        'else:',
        "  fid = open(fname, 'w')",
        'for line in comment_lines:',
        "  fid.write('# ')",
        '  fid.write(line.strip())',
        "  fid.write('\\n')",
        'for elem in self.data.shape:',
        "  fid.write('%i ' % elem)",
        'if foldmaskinfo:',
        '  if not self.folded:',
        "    fid.write('unfolded')",
        '  else:',
        "    fid.write('folded')",
        '  if self.pop_ids is not None:',
        '    for label in self.pop_ids:',
        "      fid.write(' \"%s\"' % label)",
        "fid.write('\\n')",
        _alts(*["numpy.savetxt(fid, [%s], delimiter=' ', fmt='%%%%.%%ig' %% precision)" % r for r in sorted(DATA_ROW)]),
        'if foldmaskinfo:',
        _alts(*["  numpy.savetxt(fid, [%s], delimiter=' ', fmt='%%d')" % r for r in sorted(MASK_ROW)]),
        'fid.close()'],
    ('Spectrum', 'from_file'): [
        "if fname.endswith('.gz'):",
        "  fid = gzip.open(fname, 'rt')",
        'else:',
        "  fid = open(fname, 'r')",
        'line = fid.readline()',
        'comments = []',
        "while line.startswith('#'):",
        '  comments.append(line[1:].strip())',
        '  line = fid.readline()',
        'shape_spl = line.split()',
        "if 'folded' not in shape_spl and 'unfolded' not in shape_spl:",
        '  shape = tuple([int(d) for d in shape_spl])',
        '  folded = False',
        '  pop_ids = None',
        'else:',
        '  shape, next_ii = ([int(shape_spl[0])], 1)',
        "  while shape_spl[next_ii] not in ['folded', 'unfolded']:",
        '    shape.append(int(shape_spl[next_ii]))',
        '    next_ii += 1',
        "  folded = shape_spl[next_ii] == 'folded'",
        '  if len(shape_spl) > next_ii + 1:',
        "    pop_ids = line.split('\"')[1::2]",
        '  else:',
        '    pop_ids = None',
        "data = numpy.fromstring(fid.readline().strip(), count=numpy.prod(shape), sep=' ')",
        _alts(*sorted(RESHAPE_C('data'))),
        'maskline = fid.readline().strip()',
        'if not maskline:',
        '  mask = None',
        'else:',
        "  mask = numpy.fromstring(maskline, count=numpy.prod(shape), sep=' ')",
        _alts(*['  ' + x for x in sorted(RESHAPE_C('mask'))]),
        'fs = Spectrum(data, mask, mask_corners, data_folded=folded, pop_ids=pop_ids)',
        'fid.close()',
        'if not return_comments:',
        '  return fs',
        'else:',
        '  return (fs, comments)'],
    ('Spectrum', 'Spectrum_pickler'): [
        'return (Spectrum_unpickler, (fs.data, fs.mask, fs.folded, fs.pop_ids, fs.extrap_x))'],
    ('Spectrum', 'Spectrum_unpickler'): [
        'return dadi.Spectrum(data, mask, mask_corners=False, data_folded=data_folded, check_folding=False, '
        'pop_ids=pop_ids, extrap_x=extrap_x)'],
    ('Numerics', 'array_to_file'): [
        'newfile = False',
        "if not hasattr(fid, 'write'):",
        '  newfile = True',
        "  fid = open(fid, 'w')",
        'for line in comment_lines:',
        "  fid.write('# ')",
        '  fid.write(line.strip())',
        '  fid.write(os.linesep)',
        'for elem in data.shape:',
        "  fid.write('%i ' % elem)",
        'fid.write(os.linesep)',
        "if hasattr(data, 'filled'):",
        '  data = data.filled()',
        "data.tofile(fid, ' ', '%%.%ig' % precision)",
        'fid.write(os.linesep)',
        'if newfile:',
        '  fid.close()'],
    ('Numerics', 'array_from_file'): [
        'newfile = False',
        "if not hasattr(fid, 'read'):",
        '  newfile = True',
        "  fid = open(fid, 'r')",
        'line = fid.readline()',
        'comments = []',
        "while line.startswith('#'):",
        '  comments.append(line[1:].strip())',
        '  line = fid.readline()',
        'shape = tuple([int(d) for d in line.split()])',
        "data = numpy.fromfile(fid, count=numpy.prod(shape), sep=' ')",
        _alts(*sorted(RESHAPE_C('data'))),
        'if newfile:',
        '  fid.close()',
        'if not return_comments:',
        '  return data',
        'else:',
        '  return (data, comments)'],
}


def _find_func(tree, name):
    for node in ast.walk(tree):
        if isinstance(node, ast.FunctionDef) and node.name == name:
            return node
    return None


def skeleton(node):
    """the statements of a function, one line each (header line for compound statements), docstring dropped"""
    out = []
    def walk(stmts, ind):
        for st in stmts:
            if isinstance(st, ast.Expr) and isinstance(st.value, ast.Constant) and isinstance(st.value.value, str):
                continue
            out.append('  ' * ind + ast.unparse(st).split('\n')[0])
            for f in ('body', 'orelse', 'handlers', 'finalbody'):
                sub = getattr(st, f, None)
                if isinstance(sub, list) and sub:
                    if f != 'body':
                        out.append('  ' * ind + {'orelse': 'else:', 'handlers': 'except:', 'finalbody': 'finally:'}[f])
                    if f == 'handlers':
                        for h in sub:
                            walk(h.body, ind + 1)
                    else:
                        walk(sub, ind + 1)
    walk(node.body, 0)
    return out


def _skeleton_diff(have, want):
    if len(have) != len(want):
        # first differing line
        for k in range(min(len(have), len(want))):
            w = want[k] if isinstance(want[k], tuple) else (want[k],)
            if have[k] not in w:
                return 'statement %d is %r, the model was written against %r' % (k, have[k], w[0])
        return '%d statements, the model was written against %d (first extra/missing: %r)' % (
            len(have), len(want), (have[len(want)] if len(have) > len(want) else (want[len(have)] if not isinstance(want[len(have)], tuple) else want[len(have)][0])))
    for k, (h, w) in enumerate(zip(have, want)):
        w = w if isinstance(w, tuple) else (w,)
        if h not in w:
            return 'statement %d is %r, the model was written against %r' % (k, h, w[0])
    return ''


def _calls(node, names):
    out = []
    for sub in ast.walk(node):
        if isinstance(sub, ast.Call):
            try:
                f = ast.unparse(sub.func)
            except Exception:       # noqa
                continue
            if f in names:
                out.append(sub)
    out.sort(key=lambda c: (c.lineno, c.col_offset))
    return out


def source_obligations(ctx):
    """returns the names of the broken obligations"""
    broken = []
    def ob(name, ok, detail=''):
        ctx.obligation(name, ok, 'translator', detail)
        if not ok:
            broken.append(name + (': ' + detail if detail else ''))
    trees = {}
    for mod, path in (('Spectrum', SPECTRUM), ('Numerics', NUMERICS)):
        try:
            trees[mod] = ast.parse(open(path).read())
        except (OSError, SyntaxError) as e:
            ob('parse %s' % path, False, repr(e))
            trees[mod] = None
    nodes = {}
    for (mod, fn), want in SKELETON.items():
        name = 'source shape of %s.%s: the statements are the ones Model/FileFormat.v was written against' % (mod, fn)
        node = _find_func(trees[mod], fn) if trees.get(mod) is not None else None
        nodes[(mod, fn)] = node
        if node is None:
            ob(name, False, 'function not found'); continue
        ob(name, *(lambda d: (not d, d))(_skeleton_diff(skeleton(node), want)))

    # ---- the element order, named separately (these are the statements a memory-order / Fortran-order rewrite touches)
    node = nodes.get(('Spectrum', 'to_file'))
    n_data = 'Spectrum.to_file: the data line is numpy.savetxt of [self.data.ravel()] - the C-order ravel of the logical array'
    n_mask = 'Spectrum.to_file: the mask line is numpy.savetxt of [numpy.asarray(<mask>, int).ravel()] - same order as the data line'
    if node is None:
        ob(n_data, False, 'function not found'); ob(n_mask, False, 'function not found')
    else:
        sv = _calls(node, {'numpy.savetxt', 'np.savetxt'})
        def row(call):
            if len(call.args) >= 2 and isinstance(call.args[1], ast.List) and len(call.args[1].elts) == 1 and ast.unparse(call.args[0]) == 'fid':
                return ast.unparse(call.args[1].elts[0])
            return None
        def kw(call, k):
            for x in call.keywords:
                if x.arg == k:
                    return ast.unparse(x.value)
            return None
        rows = [row(c) for c in sv]
        ok_d = len(sv) == 2 and rows[0] in DATA_ROW and kw(sv[0], 'fmt') in FMT_DATA and kw(sv[0], 'delimiter') == "' '"
        ok_m = len(sv) == 2 and rows[1] in MASK_ROW and kw(sv[1], 'fmt') == "'%d'" and kw(sv[1], 'delimiter') == "' '"
        # nothing else may emit entries: no other call takes self.data / self.mask (self.data.shape excepted)
        other = []
        for sub in ast.walk(node):
            if isinstance(sub, ast.Call) and sub not in sv and not any(sub in list(ast.walk(c)) for c in sv):
                txt = ast.unparse(sub)
                if ('self.data' in txt.replace('self.data.shape', '')) or 'self.mask' in txt or 'self._data' in txt or 'self._mask' in txt:
                    other.append(txt[:80])
        # any other mention of the arrays at all
        detail = 'savetxt calls: %r' % ([ast.unparse(c)[:120] for c in sv],) if not (ok_d and ok_m) else ''
        ob(n_data, ok_d and not other, detail or ('entries also reach: %r' % other[:2] if other else ''))
        ob(n_mask, ok_m and not other, detail or ('entries also reach: %r' % other[:2] if other else ''))
    node = nodes.get(('Numerics', 'array_to_file'))
    n_arr = "Numerics.array_to_file: the data line is data.tofile(fid, ' ', fmt) on the array (or its .filled()) - ndarray.tofile writes C order"
    if node is None:
        ob(n_arr, False, 'function not found')
    else:
        sk = [l.strip() for l in skeleton(node)]
        tf = [l for l in sk if '.tofile(' in l or 'savetxt' in l or 'nditer' in l or '.flat' in l or 'ravel' in l or 'tobytes' in l or 'tostring' in l]
        ob(n_arr, tf == ["data.tofile(fid, ' ', '%%.%ig' % precision)"] and sk.count('data = data.filled()') == 1
           and not [l for l in sk if l.startswith('data =') and l != 'data = data.filled()'], 'element-emitting statements: %r' % tf)
    for (mod, fn, var) in (('Spectrum', 'from_file', 'data'), ('Spectrum', 'from_file', 'mask'), ('Numerics', 'array_from_file', 'data')):
        node = nodes.get((mod, fn))
        name = '%s.%s: %s is the token sequence reshaped to the announced shape in C order' % (mod, fn, var)
        if node is None:
            ob(name, False, 'function not found'); continue
        sk = [l.strip() for l in skeleton(node)]
        assigns = [l for l in sk if l.startswith(var + ' =') and l != var + ' = None']
        reader = ("numpy.fromfile(fid, count=numpy.prod(shape), sep=' ')" if fn == 'array_from_file' else
                  "numpy.fromstring(%s, count=numpy.prod(shape), sep=' ')" % ('fid.readline().strip()' if var == 'data' else 'maskline'))
        ok = (len(assigns) == 2 and assigns[0] == '%s = %s' % (var, reader) and assigns[1] in RESHAPE_C(var))
        ob(name, ok, 'assignments to %s: %r' % (var, assigns))
    node = nodes.get(('Spectrum', 'Spectrum_pickler'))
    name = 'Spectrum_pickler: the reduce tuple carries fs.data and fs.mask themselves (numpy pickles an array by its logical content)'
    ob(name, node is not None and [l.strip() for l in skeleton(node)] == SKELETON[('Spectrum', 'Spectrum_pickler')],
       '' if node is not None else 'function not found')
    return broken


# ----------------------------------------------------------------------------------------------
# (1) layouts

PERM_KINDS = ('reorder_pops', 'transpose', 'ctor_permuted')

def _scrambling_perms(shape):
    d = len(shape)
    nons = [k for k in range(d) if shape[k] > 1]
    allp = [list(p) for p in itertools.permutations(range(d)) if list(p) != list(range(d))]
    good = [p for p in allp if [a for a in p if a in nons] != nons]
    return good or allp


def _embedding(rng, shape, choices, force, cap=800):
    """per-axis (step, offset, tail) of a view inside a larger block; at least one axis (a non-singleton one when there
    is one) gets a step from [force]"""
    d = len(shape)
    nons = [k for k in range(d) if shape[k] > 1] or list(range(d))
    while True:
        steps = [rng.choice(choices) for _ in range(d)]
        steps[rng.choice(nons)] = rng.choice(force)
        offs = [rng.choice([0, 0, 1, 2]) if abs(s) > 1 else rng.choice([0, 0, 0, 1]) for s in steps]
        tails = [rng.choice([0, 0, 1]) for _ in range(d)]
        size = 1
        for n, s, o, t in zip(shape, steps, offs, tails):
            size *= o + (n - 1) * abs(s) + 1 + t
        if size <= cap:
            return {'steps': steps, 'offs': offs, 'tails': tails}
        choices = [c for c in choices if abs(c) == 1] or [1]
        cap *= 2


def alt_config(c):
    """the second writer configuration of a case: the other precision class, the other format, the other transport"""
    return {'precision': 17 if c['precision'] == 16 else 16, 'fmi': not c['fmi'], 'gz': not c['gz'], 'mc': not c['mc']}


def own_config(c):
    return {'precision': c['precision'], 'fmi': c['fmi'], 'gz': c['gz'], 'mc': c['mc']}


def gen_layouts(c, seed, mask):
    rng = random.Random('C14-layouts-%d-%d' % (seed, c['id']))
    shape = c['shape']; d = len(shape)
    configs = [own_config(c), alt_config(c)]
    lays = []
    def add(kind, prm=None):
        lays.append({'kind': kind, 'prm': prm or {}, 'configs': configs})
    if d >= 2:
        perms = _scrambling_perms(shape)
        for kind in PERM_KINDS:
            add(kind, {'perm': rng.choice(perms)})
        add('T')
        nons = [k for k in range(d) if shape[k] > 1]
        pairs = [p for p in itertools.combinations(nons, 2)] or [p for p in itertools.combinations(range(d), 2)]
        add('swapaxes', {'axes': list(rng.choice(pairs))})
        add('fortran')
    add('step', _embedding(rng, shape, [1, 1, 2, 3], [2, 3]))
    neg = _embedding(rng, shape, [1, -1], [-1]); neg['offs'] = [0] * d; neg['tails'] = [0] * d
    add('neg', neg)
    add('nocopy_view', _embedding(rng, shape, [1, -1, 2, -2, -3], [-1, 2, -2]))
    if all(m == mask[0] for m in mask):
        add('mask_broadcast')
        add('mask_scalar')
    if not any(mask):
        add('nomask', {'fortran': d >= 2})
    return lays
