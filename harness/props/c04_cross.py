"""C04 -- FEATURE INTERACTIONS: every flag feature x every driver, on every run, with the property predicates on the real code.

The integrators have two independent families of features: FLAGS (frozenK for one_pop .. five_pops, nomut1 / nomut2 for two_pops) and
DRIVERS (every parameter a constant -> the precomputed-coefficient path where it exists; any ONE parameter a function of time -> the
per-step loop, which passes the flags on separately).  A source change that loses a flag on one driver only (the time-dependent loop of
two_pops no longer handing nomut1 / nomut2 to _inject_mutations_2D) leaves each feature alone exact.  The streams of c04.py evaluated the
predicates of the frozen flags with both drivers, but those of the nomut flags only through `_inject_mutations_2D` itself and, inside the
drivers, only as "same result as the canonical call" (both equally wrong) and a rotating correspondence case (no failing input).

This module enumerates (never samples) on EVERY run, for every dimension d = 1..5 in which a flag exists:

  flags    d = 1: frozen in {False, True};  d = 2: all 16 assignments of (frozen1, nomut1, frozen2, nomut2);  d = 3, 4, 5: all 2^d frozen subsets
           (the empty set and the all-frozen set included);
  drivers  'constants';  'every parameter a function of time' (constant-valued: the impl's as_func='const');  'every parameter a function of
           time, nu and theta0 really varying';  ONLY ONE CLASS a function of time, in turn nu, m, gamma, h, theta0 (nu and theta0 varying in
           time; m only between non-frozen populations, as the library rejects any non-constant m next to a frozen population);  ONLY ONE
           PARAMETER (one keyword, rotating through all keywords over the flag assignments) a function of time.

and evaluates, for each (d, flags, driver), the property predicates on the real code (every failing evaluation is a violation WITH its input):

  face     from an EMPTY density (theta0 > 0, several time steps; a flagged population has no selection and no incoming migration, the others
           are generic) no density appears at a non-zero frequency of a frozen / nomut population; with no active population nothing appears at all;
           and in a second run with pure drift (no selection, no migration: M-matrix sweeps, density >= 0, both corner outflows >= 0) the total mass is
           at most the influx T*theta0/(2 x_1) per ACTIVE population (Props/C04.v C04_influx_per_population);
  amounts  one time step: the run from phi with theta0 equals the run with theta0 = 0 from phi + (the influx of C04_influx_per_population /
           C04_no_influx_when_frozen_or_nomut into the active populations only), computed by the harness -- amount AND place per population;
  theta0   generic phi, several steps: result(theta0) - result(0) vanishes at every non-zero frequency of a flagged population; with EVERY
           population frozen / nomut (then with generic selection and migration among the nomut populations) the result does not depend on
           theta0 and, in particular, the total mass is that of the run without mutation;
  alone    no migration, no selection, one step: the marginal of EACH population at interior frequencies is the stand-alone one_pop run with the
           same driver and the same step -- with theta0 for an active population, with theta0 = 0 for a nomut population, unchanged for a frozen one.

`targeted` re-runs the same predicates on one (d, driver kind, flags) with fresh random parameters, grids and sizes: c04.py calls it when the
correspondence of a driver case with the Coq model fails, before it reports no-failing-input-found.
"""
import itertools, math
from harness import lib, numgen

DRIVERS = ['', 'one_pop', 'two_pops', 'three_pops', 'four_pops', 'five_pops']
NAMES = '12345'
CLASSES = ['nu', 'm', 'gamma', 'h', 'theta0']

def n_for(d):
    return {1: 7, 2: 6, 3: 5, 4: 4, 5: 3}[d]

def flagsets(d):
    """list of per-population (frozen, nomut) tuples"""
    if d == 1:
        return [[(False, False)], [(True, False)]]
    if d == 2:
        return [[(f1, n1), (f2, n2)] for f1, n1, f2, n2 in itertools.product((False, True), repeat=4)]
    return [[(bool(b), False) for b in bits] for bits in itertools.product((0, 1), repeat=d)]

def flagged(fl):
    return fl[0] or fl[1]

def flag_text(flags):
    d = len(flags)
    fz = [i + 1 for i, f in enumerate(flags) if f[0]]; nm = [i + 1 for i, f in enumerate(flags) if f[1]]
    return 'frozen %s' % fz + (', nomut %s' % nm if d == 2 else '')

def kwnames(d, flags):
    """keyword names per parameter class; m only between non-frozen populations (d = 2: none as soon as one population is frozen)"""
    if d == 1:
        return {'nu': ['nu'], 'm': [], 'gamma': ['gamma'], 'h': ['h'], 'theta0': ['theta0']}
    fr = [f[0] for f in flags]
    return {'nu': ['nu' + NAMES[i] for i in range(d)],
            'm': [] if (d == 2 and any(fr)) else ['m' + NAMES[i] + NAMES[j] for i in range(d) for j in range(d) if i != j and not fr[i] and not fr[j]],
            'gamma': ['gamma' + NAMES[i] for i in range(d)], 'h': ['h' + NAMES[i] for i in range(d)], 'theta0': ['theta0']}

def driver_variants(d, flags, fi):
    """list of (name, spec): spec = {'as_func': None | 'const'} or {'func': [keyword names that are functions of time]}"""
    kn = kwnames(d, flags)
    allk = [k for c in CLASSES for k in kn[c]]
    out = [('constants', {'as_func': None}),
           ('every parameter a function of time (constant-valued)', {'as_func': 'const'}),
           ('every parameter a function of time (nu, theta0 varying)', {'func': allk})]
    for c in CLASSES:
        if kn[c]:
            out.append(('only %s given as function%s of time' % (c, 's' if len(kn[c]) > 1 else ''), {'func': list(kn[c])}))
    one = allk[(fi * 7 + 3 * d) % len(allk)]
    out.append(('only %s given as a function of time' % one, {'func': [one]}))
    return out

def is_const_driver(spec):
    return 'func' not in spec and spec.get('as_func') is None

def maxvm(p):
    h, ga = p['h'], abs(p['gamma'])
    return max(0.25 / p['nu'], sum(p['ms']), ga * 2 * max(abs(h + (1 - 2 * h) * 0.5) * 0.25, abs(h + (1 - 2 * h) * 0.25) * 0.1875))

def _distinct_nus(rng, d, lo, hi):
    for attempt in range(500):
        nus = [numgen.logdy(rng, lo, hi) for _ in range(d)]
        if all(abs(a / b - 1) > 0.05 for i, a in enumerate(nus) for b in nus[i + 1:]):
            return nus
    raise RuntimeError('could not generate distinct population sizes')

def make_pops(rng, d, flags, regime):
    """regime 'face': a flagged population has gamma = 0 and no incoming migration, the others generic;
       'generic': selection everywhere, migration between all non-frozen populations;  'iso': no migration, no selection"""
    nus = _distinct_nus(rng, d, 0.2, 5) if regime == 'iso' else _distinct_nus(rng, d, 0.1, 10)
    pops = []
    for i in range(d):
        fr, nm = flags[i]
        if regime == 'iso':
            ga, h = 0.0, 0.5
        elif regime == 'face' and (fr or nm):
            ga, h = 0.0, rng.choice([0.5, 0.0, 1.0, 0.25])
        else:
            ga = lib.dyadic(rng, -8, 8, 3) or 1.5
            h = rng.choice([0.5, 0.0, 1.0, 0.25])
        ms = []
        for j in range(d):
            if j == i:
                continue
            if regime == 'iso' or fr or flags[j][0] or (regime == 'face' and nm):
                ms.append(0.0)
            else:
                ms.append(lib.dyadic(rng, 0, 4, 3))
        pops.append({'nu': nus[i], 'gamma': ga, 'h': h, 'beta': 1.0, 'ms': ms, 'frozen': fr, 'nomut': nm})
    return pops

def mk_case(d, n, g, pops, theta0, tf, T, phi, spec):
    c = {'kind': 'driver', 'shape': [n] * d, 'grid': g, 'pops': pops, 'theta0': theta0, 'tf': tf, 'delj': False, 'T': T, 'phi': phi,
         'as_func': spec.get('as_func'), 'theta_slope': 0.0}
    if 'func' in spec:
        c['as_func'] = None
        c['func_names'] = list(spec['func'])
        sl = {}
        for k in spec['func']:
            if k.startswith('nu'):
                i = 0 if k == 'nu' else NAMES.index(k[2:])
                sl[k] = 0.25 * pops[i]['nu'] / T             # the population grows by a quarter over the run (never shrinks: dt at t=0 is the smallest)
            elif k == 'theta0' and theta0 != 0:
                sl[k] = 0.5 * theta0 / T
        c['func_slopes'] = sl
    return c

def theta_end(c):
    """theta0 at the end of the run (the value every single-step influx uses; the largest value of the run)"""
    return c['theta0'] + (c.get('func_slopes') or {}).get('theta0', 0.0) * c['T']

def influx_vector(c, flags, theta):
    """{flat index: amount} of one step of length c['T'] (C04_influx_per_population), active populations only"""
    d = len(c['shape']); n = c['shape'][0]; g = c['grid']
    want = {}
    for k in range(d):
        if flagged(flags[k]):
            continue
        want[n ** (d - 1 - k)] = c['T'] / g[1] * theta / 2 * 2 ** d / ((g[2] - g[0]) * g[1] ** (d - 1))
    return want

def sub_spec(spec, k, d):
    """the driver of the stand-alone one_pop run of population k: the same keywords, renamed"""
    if 'func' not in spec:
        return dict(spec)
    ren = {'nu' + NAMES[k]: 'nu', 'gamma' + NAMES[k]: 'gamma', 'h' + NAMES[k]: 'h', 'theta0': 'theta0', 'nu': 'nu', 'gamma': 'gamma', 'h': 'h'}
    return {'func': [ren[x] for x in spec['func'] if x in ren]}

def gen(ctx, rng, dims=range(1, 6), only_flags=None, only_drivers=None, reps=1, bigger=False, count=True):
    """entries: {'what', 'd', 'flags', 'driver', 'cases': {role: case}}; the cases are appended to the impl batch by the caller"""
    from harness.props import c04
    entries = []
    for d in dims:
        fsets = flagsets(d) if only_flags is None else [only_flags]
        for fi, flags in enumerate(fsets):
            for rep in range(reps):
                n = n_for(d) + (1 if bigger and rep % 2 and d <= 4 else 0)
                for dname, spec in driver_variants(d, flags, fi + rep):
                    if only_drivers is not None and not only_drivers(spec):
                        continue
                    tag = {'d': d, 'flags': [list(f) for f in flags], 'driver': dname, 'spec': spec}
                    if count:
                        ctx.count('flag x driver d=%d %s' % (d, 'constants' if is_const_driver(spec) else 'functions of time'))
                    active = [k for k in range(d) if not flagged(flags[k])]
                    tf = 1 / 64
                    theta0 = lib.dyadic(rng, 0.25, 4, 4)
                    # ---- face: empty start, several steps
                    g = numgen.grid(rng, n, kind=rng.choice(['uniform', 'exp', 'quad', 'random']))
                    pops = make_pops(rng, d, flags, 'face')
                    mv = max(maxvm(p) for p in pops)
                    T = numgen.logdy(rng, 1.2 * tf / mv, 2.8 * tf / mv)
                    e = mk_case(d, n, g, pops, theta0, tf, T, [0.0] * n ** d, spec)
                    # the same with pure drift (no selection, no migration: every sweep matrix is an M-matrix, the density stays >= 0, so both
                    # corner outflows are >= 0 and the total mass is bounded by the influx) -- the mass bound is evaluated on this run only
                    dp = make_pops(rng, d, flags, 'iso')
                    mvd = max(maxvm(p) for p in dp)
                    Td = numgen.logdy(rng, 1.2 * tf / mvd, 2.8 * tf / mvd)
                    e2 = mk_case(d, n, g, dp, theta0, tf, Td, [0.0] * n ** d, spec)
                    entries.append(dict(tag, what='face', cases={'empty': e, 'drift': e2}))
                    # ---- theta0: generic density, same regime, theta0 vs 0
                    phi = c04.asym_density(rng, n, d)
                    a = mk_case(d, n, g, pops, theta0, tf, T, phi, spec)
                    b = mk_case(d, n, g, pops, 0.0, tf, T, phi, spec)
                    entries.append(dict(tag, what='theta0', regime='face', cases={'with': a, 'without': b}))
                    if not active and any(not f[0] for f in flags):
                        # every population flagged, at least one of them only nomut: generic selection and migration among those
                        gp = make_pops(rng, d, flags, 'generic')
                        mv2 = max(maxvm(p) for p in gp)
                        T2 = numgen.logdy(rng, 1.2 * tf / mv2, 2.8 * tf / mv2)
                        a2 = mk_case(d, n, g, gp, theta0, tf, T2, phi, spec)
                        b2 = mk_case(d, n, g, gp, 0.0, tf, T2, phi, spec)
                        entries.append(dict(tag, what='theta0', regime='generic', cases={'with': a2, 'without': b2}))
                    # ---- amounts: one step, generic parameters where the flags allow them
                    gp = make_pops(rng, d, flags, 'generic')
                    dt0 = tf / max(maxvm(p) for p in gp)
                    T1 = numgen.logdy(rng, 0.3 * dt0, 0.8 * dt0)
                    g1 = numgen.grid(rng, n, kind=rng.choice(['uniform', 'exp', 'quad', 'random']))
                    phi1 = c04.asym_density(rng, n, d)
                    a = mk_case(d, n, g1, gp, theta0, tf, T1, phi1, spec)
                    inj = influx_vector(a, flags, theta_end(a))
                    phi_b = [v + inj.get(j, 0.0) for j, v in enumerate(phi1)]
                    b = mk_case(d, n, g1, gp, 0.0, tf, T1, phi_b, spec)
                    entries.append(dict(tag, what='amounts', influx={str(j): v for j, v in inj.items()}, cases={'with': a, 'preloaded': b}))
                    # ---- alone: no migration, no selection, one step; every population against its stand-alone run
                    ip = make_pops(rng, d, flags, 'iso')
                    dt0 = tf / max(maxvm(p) for p in ip)
                    T1 = numgen.logdy(rng, 0.3 * dt0, 0.8 * dt0)
                    g2 = numgen.grid(rng, n, kind=rng.choice(['uniform', 'exp', 'quad']))
                    phi2 = c04.asym_density(rng, n, d)
                    joint = mk_case(d, n, g2, ip, theta0, tf, T1, phi2, spec)
                    cs = {'joint': joint}
                    if d >= 2:
                        for k in range(d):
                            _, mphi = c04.flat_marginal([n] * d, [g2] * d, phi2, [k])
                            sp = dict(ip[k], ms=[], nomut=False)
                            th = 0.0 if flagged(flags[k]) else theta0
                            s = mk_case(1, n, g2, [sp], th, tf, T1, mphi, sub_spec(spec, k, d))
                            if 'func_slopes' in s and 'theta0' in s['func_slopes'] and th != 0:
                                s['func_slopes']['theta0'] = (joint.get('func_slopes') or {}).get('theta0', 0.0)
                            cs['alone%d' % k] = s
                        entries.append(dict(tag, what='alone', cases=cs))
    return entries

def cases_of(entries):
    return [c for e in entries for c in e['cases'].values()]

def evaluate(ctx, entries, pred, note=''):
    """evaluates every entry whose cases ran; returns the number of failing predicate evaluations"""
    from harness.props import c04
    bad = 0
    def pub(c):
        return {a: b for a, b in c.items() if not a.startswith('_')}
    for e in entries:
        cs = e['cases']
        if any('_out' not in c for c in cs.values()):
            continue
        d = e['d']; flags = [tuple(f) for f in e['flags']]
        c0 = next(iter(cs.values()))
        n = c0['shape'][0]; g = c0['grid']; shape = [n] * d
        fl = [k for k in range(d) if flagged(flags[k])]
        active = [k for k in range(d) if k not in fl]
        head = '%s, %s, %s' % (DRIVERS[d], flag_text(flags), e['driver'])
        base = {'d': d, 'frozen': [k for k in range(d) if flags[k][0]], 'nomut': [k for k in range(d) if flags[k][1]], 'driver': e['driver'],
                'cases': {r: pub(c) for r, c in cs.items()}, 'results': {r: c['_out'] for r, c in cs.items()}}
        sig0 = ('cross', e['what'], d, tuple(flags), e['driver'], c0['id'])
        def off_face(vec, k):
            """largest |entry| at a non-zero frequency of population k"""
            return max([abs(v) for j, v in enumerate(vec) if c04.unflat(shape, j)[k] != 0] or [0.0])
        if e['what'] == 'face':
            out = cs['empty']['_out']
            top = max(abs(v) for v in out)
            for k in fl:
                w = off_face(out, k)
                ok = (w == 0.0) if top == 0 else (w <= 1e-13 * top)
                bad += not ok
                pred('flags x drivers: nothing enters a frozen/nomut population from an empty density', ok,
                     '%s%s: starting from an EMPTY density (theta0=%g, T=%g), density appears at non-zero frequencies of population %d, which is %s and has no selection and no incoming migration (largest entry %.3g, largest entry overall %.3g)'
                     % (head, note, cs['empty']['theta0'], cs['empty']['T'], k + 1, 'frozen' if flags[k][0] else 'nomut', w, top),
                     dict(base, dev=w, population=k), sig=sig0 + (k,))
            if d == 1 and fl:
                ok = top == 0.0
                bad += not ok
                pred('flags x drivers: nothing enters a frozen/nomut population from an empty density', ok,
                     '%s%s: a frozen population received density from an empty start (largest entry %.3g)' % (head, note, top), dict(base, dev=top), sig=sig0 + ('1d',))
            if not active and d >= 2:
                ok = top == 0.0
                bad += not ok
                pred('flags x drivers: nothing enters a frozen/nomut population from an empty density', ok,
                     '%s%s: every population is frozen or nomut, yet an EMPTY density became non-zero (largest entry %.3g)' % (head, note, top), dict(base, dev=top), sig=sig0 + ('all',))
            dr = cs['drift']; out2 = dr['_out']
            top2 = max(abs(v) for v in out2)
            for k in fl:
                w = off_face(out2, k)
                ok = (w == 0.0) if top2 == 0 else (w <= 1e-13 * top2)
                bad += not ok
                pred('flags x drivers: nothing enters a frozen/nomut population from an empty density', ok,
                     '%s%s: starting from an EMPTY density (theta0=%g, T=%g, no selection, no migration), density appears at non-zero frequencies of population %d, which is %s (largest entry %.3g, largest entry overall %.3g)'
                     % (head, note, dr['theta0'], dr['T'], k + 1, 'frozen' if flags[k][0] else 'nomut', w, top2),
                     dict(base, dev=w, population=k), sig=sig0 + ('drift', k))
            m = c04.mass(shape, [g] * d, out2)
            bound = len(active) * dr['T'] * theta_end(dr) / (2 * g[1])
            ok = m <= bound * (1 + 1e-9) + 1e-300
            bad += not ok
            pred('flags x drivers: mass from an empty density within the influx into the active populations', ok,
                 '%s%s: from an EMPTY density (no selection, no migration: the density stays non-negative and mass only leaves) the total mass after T=%g is %.6g, more than the influx T*theta0/(2 x_1) = %.6g into the %d active population(s)'
                 % (head, note, dr['T'], m, bound, len(active)), dict(base, dev=m / bound - 1 if bound else m, mass=m, bound=bound), sig=sig0 + ('mass',))
        elif e['what'] == 'theta0':
            A = cs['with']['_out']; B = cs['without']['_out']
            top = max(max(abs(v) for v in A), max(abs(v) for v in B)) or 1.0
            D = [x - y for x, y in zip(A, B)]
            if e.get('regime') == 'face':
                for k in fl:
                    w = off_face(D, k) / top
                    ok = w <= 1e-11
                    bad += not ok
                    pred('flags x drivers: theta0 does not act on a frozen/nomut population', ok,
                         '%s%s: result with theta0=%g minus result with theta0=0 (same density, T=%g) is non-zero at non-zero frequencies of population %d, which is %s and has no selection and no incoming migration (rel dev %.3g of max|phi|)'
                         % (head, note, cs['with']['theta0'], cs['with']['T'], k + 1, 'frozen' if flags[k][0] else 'nomut', w),
                         dict(base, dev=w, population=k), sig=sig0 + (k,))
            if not active:
                w = max(abs(v) for v in D) / top
                ma = c04.mass(shape, [g] * d, A); mb = c04.mass(shape, [g] * d, B)
                ok = w <= 1e-11
                bad += not ok
                pred('flags x drivers: no dependence on theta0 when every population is frozen/nomut', ok,
                     '%s%s (%s parameters): every population is frozen or nomut, yet the result depends on theta0 (theta0=%g vs 0: rel dev %.3g of max|phi|; total mass %.9g vs %.9g without mutation)'
                     % (head, note, e.get('regime'), cs['with']['theta0'], w, ma, mb), dict(base, dev=w, mass_with=ma, mass_without=mb), sig=sig0 + ('all',))
        elif e['what'] == 'amounts':
            A = cs['with']['_out']; B = cs['preloaded']['_out']
            top = max(abs(v) for v in B) or 1.0
            w = max(abs(x - y) for x, y in zip(A, B)) / top
            ok = w <= 1e-11
            bad += not ok
            pred('flags x drivers: influx amounts per population', ok,
                 '%s%s: one step of length %g with theta0=%g does not equal the same step with theta0=0 from the density preloaded with the influx dt*theta0/2 (trapezoid-normalised) into the active populations %s only (rel dev %.3g of max|phi|): amount or place of the new mutations is wrong'
                 % (head, note, cs['with']['T'], theta_end(cs['with']), [k + 1 for k in active], w), dict(base, dev=w, influx=e['influx']), sig=sig0)
        elif e['what'] == 'alone':
            J = cs['joint']['_out']
            for k in range(d):
                S = cs['alone%d' % k]['_out']
                mj = c04.marginal_keep(shape, [g] * d, J, [k])
                scale = max(abs(v) for v in S) or 1.0
                w = max(abs(mj[(i,)] - S[i]) for i in range(1, n - 1)) / scale
                ok = w <= 1e-10
                bad += not ok
                st = 'frozen' if flags[k][0] else ('nomut' if flags[k][1] else 'active')
                pred('flags x drivers: marginal of each population vs stand-alone run', ok,
                     '%s%s (no migration, no selection, one step of length %g): the marginal density of population %d (%s) at interior frequencies differs from %s (rel dev %.3g)'
                     % (head, note, cs['joint']['T'], k + 1, st,
                        'its marginal before the step' if flags[k][0] else 'one_pop alone with the same step and theta0=%g' % cs['alone%d' % k]['theta0'], w),
                     dict(base, dev=w, population=k), sig=sig0 + (k,))
    return bad

def targeted(ctx, rng, pred, d, as_func, frozen, nomut, next_id):
    """fresh parameters / grids / sizes for ONE (dimension, driver kind, flags): returns (#evaluated entries, #failing evaluations)"""
    flags = [(i in frozen, i in nomut) for i in range(d)]
    want_const = as_func is None
    entries = gen(ctx, rng, dims=[d], only_flags=flags, only_drivers=lambda s: is_const_driver(s) == want_const,
                  reps=ctx.pick(4, 12), bigger=True, count=False)
    cases = cases_of(entries)
    for i, c in enumerate(cases):
        c['id'] = next_id + i
    res = lib.run_impl('c04_impl.py', [{k: v for k, v in c.items() if not k.startswith('_')} for c in cases], timeout=1500)
    for c, r in zip(cases, res):
        assert r['id'] == c['id']
        if 'error' in r:
            ctx.obligation('targeted flag x driver case %d runs' % c['id'], False, 'predicate', r['error'])
        else:
            c['_out'] = r['res']
    ctx.count('targeted flag x driver search d=%d (%s)' % (d, 'constants' if want_const else 'functions of time'), len(entries))
    bad = evaluate(ctx, entries, pred, note=' [targeted search after the driver case disagreed with the Coq model]')
    return len(entries), bad
