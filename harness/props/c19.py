"""C19 — the uncertainty machinery (dadi/Godambe.py) differentiates exactly and matches closed-form information.

Static theorems: coq/theories/Props/C19.v   (model: Model/Godambe.v).
Per run:
  (1) translator obligations: hessian_elem, the loop body of get_grad and the step-size loops of get_hess / get_grad are
      symbolically executed from the current source (harness/translate/stencil.py) into Coq terms; obligations
      `forall f p0 ii jj eps os, model = generated` (field / case analysis); skeleton of get_hess and the numpy assembly
      statements of get_godambe are compared as text;
  (2) stream A  get_hess / get_grad / hessian_elem on random polynomials (1-5 parameters; zero, tiny, negative, near-threshold
      parameters; eps in [1e-4, 1e-1]) : correspondence with the model over Q + exactness predicate on the implementation;
  (3) stream B  get_godambe / GIM_uncert / FIM_uncert / LRT_adjust / Wald_stat / score_stat on Poisson models linear in their
      parameters: (L1) H, J, cU against the model over Q (Qln), (L2) the statistics against exact linear algebra on the
      matrices the implementation produced, (T) truncation error of the model against the proved closed forms at eps, eps/2,
      (P) the implementation against closed forms at eps and eps/2, (O) bootstrap order;
  (4) stream C  sum_chi2_ppf scalar vs array vs closed form;
  (5) stream D  call histories sharing Godambe.cache against the same calls on an empty cache;
  (6) stream E  order and sequence type of the list arguments: LRT_adjust / Wald_stat / score_stat with the nested parameters listed
      ascending, descending, rotated, with a repeated index, as list / array / tuple; full_params complete or as the nested values in
      the caller's order; 1-3 nested parameters out of 3-5; multinom on/off; adj_and_org and plain; each against the closed form, the
      exact model (H, J, cU in the caller's listing), exact linear algebra on (H, J) from the caller's own lists (Model wald_diff /
      wald_stat / score_stat / lrt_adjust), and against the ascending listing (C19_*_order_invariant);  get_godambe / GIM_uncert /
      FIM_uncert with p0 / bootstraps / grid points / theta adjusts as list, tuple, array and the theta adjusts re-paired with the
      bootstraps;  fail-closed reading of the index handling in the three functions.
"""
import json, math, os
from fractions import Fraction
import numpy as np
import scipy.special
from harness import lib
from harness.lib import q, ql, qll, b
from harness.translate import stencil, pyexpr
from harness.props import c19_types

GODAMBE = os.path.join(lib.REPO, 'dadi', 'Godambe.py')
K_ABS = Fraction(1, 2 ** 40)        # absolute allowance, in units of the conditioning scale  (sum|terms| / (h_i h_j))
REL = Fraction(1, 10 ** 11)
REL_STAT = Fraction(1, 10 ** 8)     # exact linear algebra on the implementation's own matrices
KEY_CHI2 = 'sum_chi2_ppf-array-input-scalar_input-unbound'
KEY_CACHE = 'godambe-cache-keyed-by-function-hash-stale-after-id-reuse'
TINY = Fraction(1, 10 ** 6)

HEADER_R = '\n'.join(['From Coq Require Import ZArith Reals List Lra Bool.',
                      'From Dadi Require Import Base.Num Base.NumR Model.Godambe Proofs.GodambeProofs.',
                      'Import ListNotations. Local Open Scope R_scope.',
                      'Ltac ob_bools := repeat match goal with',
                      '  | |- context [Reqb ?a ?b] => destruct (Reqb a b)',
                      '  | |- context [Rleb ?a ?b] => destruct (Rleb a b)',
                      '  | |- context [nth ?i ?l false] => destruct (nth i l false)',
                      '  end; cbn [negb andb].',
                      'Ltac ob_arith := gd_unfold; cbv beta; replace (1 + 1) with 2 by ring; field; auto.', ''])
HEADER_Q = '\n'.join(['From Coq Require Import ZArith QArith List.',
                      'From Dadi Require Import Base.Num Base.NumQ Model.Godambe Model.GodambeCheck.',
                      'Import ListNotations.', 'Open Scope Q_scope.'])

# ------------------------------------------------------------------------------------------------------
# (1) translator

def translator_obligations(ctx):
    consts = {}
    try:
        consts = stencil.module_constants(GODAMBE)
    except (SyntaxError, OSError) as e:
        ctx.obligation('parse dadi/Godambe.py', False, 'translator', str(e))
        return
    ctx.obligation('Godambe.two_pt_deriv_test = False at module level (the modelled gradient branch)',
                   consts.get('two_pt_deriv_test') is False, 'translator', repr(consts.get('two_pt_deriv_test')))
    gens = {}
    for name, fn in (('hessian_elem', lambda: stencil.translate_hessian_elem(GODAMBE)),
                     ('get_grad loop body', lambda: stencil.translate_grad_elem(GODAMBE, consts)),
                     ('get_hess step-size loop', lambda: stencil.translate_step_rule(GODAMBE, 'get_hess', 'gen_step_hess')),
                     ('get_grad step-size loop', lambda: stencil.translate_step_rule(GODAMBE, 'get_grad', 'gen_step_grad'))):
        try:
            gens[name] = fn()
            ctx.obligation('translate Godambe %s' % name, True, 'translator')
        except (pyexpr.Refuse, SyntaxError, OSError, IndexError, KeyError) as e:
            ctx.obligation('translate Godambe %s' % name, False, 'translator', '%s: %s' % (type(e).__name__, e))
    files = []
    if 'hessian_elem' in gens:
        files.append(('C19_ob_hess_diag', HEADER_R + gens['hessian_elem'] + '''
Lemma ob_hess_diag : forall (f : list R -> R) f0 p0 ii eps os, nth ii eps 0 <> 0 ->
  hess_elem f f0 p0 ii ii eps os
  = gen_hess_diag (fun x => f (upd p0 ii x)) f0 (nth ii p0 0) (nth ii eps 0) (nth ii os false).
Proof. intros. unfold hess_elem, gen_hess_diag. rewrite Nat.eqb_refl. numR. ob_bools; ob_arith. Qed.
'''))
        files.append(('C19_ob_hess_off', HEADER_R + gens['hessian_elem'] + '''
Lemma ob_hess_off : forall (f : list R -> R) f0 p0 ii jj eps os, ii <> jj -> nth ii eps 0 <> 0 -> nth jj eps 0 <> 0 ->
  hess_elem f f0 p0 ii jj eps os
  = gen_hess_off (fun x y => f (upd (upd p0 ii x) jj y)) f0 (nth ii p0 0) (nth jj p0 0) (nth ii eps 0) (nth jj eps 0)
                 (nth ii os false) (nth jj os false).
Proof. intros f f0 p0 ii jj eps os Hne Hi Hj. unfold hess_elem, gen_hess_off.
  destruct (Nat.eqb_spec ii jj) as [E|_]; [contradiction|]. numR. ob_bools; ob_arith. Qed.
'''))
    if 'get_grad loop body' in gens:
        files.append(('C19_ob_grad_elem', HEADER_R + gens['get_grad loop body'] + '''
Lemma ob_grad_elem : forall (f : list R -> R) p0 ii eps os, nth ii eps 0 <> 0 ->
  grad_elem f p0 ii eps os = gen_grad_elem (fun x => f (upd p0 ii x)) (nth ii p0 0) (nth ii eps 0) (nth ii os false).
Proof. intros. unfold grad_elem, gen_grad_elem. numR. ob_bools; ob_arith. Qed.
'''))
    for nm, gname in (('get_hess step-size loop', 'gen_step_hess'), ('get_grad step-size loop', 'gen_step_grad')):
        if nm in gens:
            files.append(('C19_ob_' + gname, HEADER_R + gens[nm] + '''
Lemma ob_%s : forall e p : R, %s e p = step_rule e p.
Proof. intros. unfold %s, step_rule, nltb, tiny. numR. ob_bools; f_equal; ring. Qed.
''' % (gname, gname, gname)))
    res = lib.run_case_files(files, timeout=600)
    for n, (rc, so, se, secs) in res.items():
        ctx.obligation('generated obligation %s (source = model for all functions, points, steps, flags)' % n, rc == 0,
                       'translator', se[-500:] if rc else '')
    ctx.checker_cmds.append('coqc build/cases/C19_ob_*.v (regenerated from dadi/Godambe.py)')
    try:
        for what, ok, detail in stencil.structure_get_hess(GODAMBE):
            ctx.obligation(what, ok, 'translator', detail)
        for what, ok in stencil.structure_get_godambe(GODAMBE):
            ctx.obligation('get_godambe contains: ' + what, ok, 'translator')
    except (pyexpr.Refuse, SyntaxError, OSError, IndexError) as e:
        ctx.obligation('skeleton of get_hess / get_godambe', False, 'translator', str(e))

# ------------------------------------------------------------------------------------------------------
# helpers shared by the streams

EPS_FIXED = [0.1, 0.05, 0.01, 0.01, 0.001, 0.0001, 2.0 ** -4, 2.0 ** -7, 2.0 ** -10, 2.0 ** -13]

def pick_eps(rng):
    if rng.random() < 0.25:
        return float('%.4g' % (10 ** rng.uniform(-4, -1)))
    return rng.choice(EPS_FIXED)

def step_rule_py(eps, p):
    """independent re-statement of the documented rule, in exact arithmetic: (step, one_sided stencil used?)"""
    e, x = Fraction(eps), Fraction(p)
    if x == 0:
        return e, True
    if x * e < TINY:
        return e, True
    return e * x, False

def finite(x):
    if isinstance(x, list):
        return all(finite(t) for t in x)
    return x is not None

def nat(k):
    return '%d%%nat' % k

_nsamp = {}
def samp(stream, d):
    """evidence samples (lib keeps six): two each of streams A and B, one each of C and D"""
    _nsamp[stream] = _nsamp.get(stream, 0) + 1
    return d if _nsamp[stream] <= {'A': 2, 'B': 2}.get(stream, 1) else None

_seen = {}
def report(ctx, tag, what, **kw):
    """at most two violations per kind of failure; further ones are only counted (every failure is still a failed obligation)"""
    _seen[tag] = _seen.get(tag, 0) + 1
    if _seen[tag] <= 2:
        ctx.violation(what, **kw)
    else:
        ctx.count('further failures of kind: ' + tag)

# ------------------------------------------------------------------------------------------------------
# (2) stream A: polynomial test functions

def gen_param(rng, eps):
    cl = rng.choices(['regular', 'zero', 'tiny', 'negative', 'near_above', 'near_below'], weights=[6, 2, 2, 1.5, 1, 1])[0]
    if cl == 'regular':
        v = lib.dyadic(rng, 0.25, 8, 5)
    elif cl == 'zero':
        v = 0.0
    elif cl == 'tiny':
        v = rng.randint(1, 1000) / 2.0 ** 30           # p*eps <= 1e-7 for every eps <= 0.1
    elif cl == 'negative':
        v = -lib.dyadic(rng, 0.25, 8, 5)
    elif cl == 'near_above':
        v = 2e-6 / eps                                  # p*eps = 2e-6: central, far from the float decision boundary
    else:
        v = 5e-7 / eps                                  # p*eps = 5e-7: one-sided
    return cl, v

def gen_hess_cases(ctx):
    rng = ctx.rng
    N = ctx.pick(160, 3000)
    cases = []
    for cid in range(N):
        n = rng.choice([1, 2, 2, 3, 3, 4, 5])
        eps = pick_eps(rng)
        pcs = [gen_param(rng, eps) for _ in range(n)]
        kind = rng.choices(['quadratic', 'linear', 'sparse'], weights=[6, 2, 2])[0]
        c0 = lib.dyadic(rng, -4, 4, 4)
        lin = [[lib.dyadic(rng, -4, 4, 4), k] for k in range(n) if rng.random() < 0.85]
        if rng.random() < 0.3 and lin:
            lin.append([lib.dyadic(rng, -4, 4, 4), rng.randrange(n)])          # repeated monomial
        qd = []
        if kind == 'quadratic':
            for _ in range(rng.randint(1, n * (n + 1))):
                qd.append([lib.dyadic(rng, -4, 4, 4), rng.randrange(n), rng.randrange(n)])
        elif kind == 'sparse':
            for _ in range(rng.randint(1, 2)):
                qd.append([lib.dyadic(rng, -4, 4, 4), rng.randrange(n), rng.randrange(n)])
        c = {'op': 'hess', 'id': cid, 'c': c0, 'lin': lin, 'qd': qd, 'p': [v for _, v in pcs], 'classes': [cl for cl, _ in pcs],
             'eps': eps, 'kind': kind, 'direct': None, 'p_as': rng.choice(['list', 'array']),
             'args': rng.choice([[], [], [3.5], [1, 2]])}
        if rng.random() < 0.25:
            de = []
            for k in range(n):
                m = rng.choice([2.0 ** -rng.randint(3, 12), float('%.3g' % (10 ** rng.uniform(-4, -1)))])
                de.append(m if rng.random() < 0.8 else -m)
            c['direct'] = {'eps': de, 'one_sided': None if rng.random() < 0.3 else [rng.random() < 0.4 for _ in range(n)]}
        cases.append(c)
    return cases

def poly_exact(c):
    """exact Hessian and gradient of the polynomial (Fractions)"""
    n = len(c['p'])
    P = [Fraction(x) for x in c['p']]
    H = [[Fraction(0)] * n for _ in range(n)]
    G = [Fraction(0)] * n
    for a, k in c['lin']:
        G[k] += Fraction(a)
    for a, k, l in c['qd']:
        a = Fraction(a)
        H[k][l] += a; H[l][k] += a
        G[k] += a * P[l]; G[l] += a * P[k]
    return H, G

def poly_scale(c, steps):
    X = [abs(Fraction(x)) + 2 * abs(s) for x, s in zip(c['p'], steps)]
    S = abs(Fraction(c['c']))
    for a, k in c['lin']:
        S += abs(Fraction(a)) * X[k]
    for a, k, l in c['qd']:
        S += abs(Fraction(a)) * X[k] * X[l]
    return S

def hcase_text(c, r):
    lin = '[' + '; '.join('(%s, %s)' % (q(a), nat(k)) for a, k in c['lin']) + ']'
    qd = '[' + '; '.join('(%s, (%s, %s))' % (q(a), nat(k), nat(l)) for a, k, l in c['qd']) + ']'
    d = c['direct']
    if d is None:
        dt = 'None'
    else:
        os_ = d['one_sided'] if d['one_sided'] is not None else [False] * len(c['p'])
        dt = 'Some (%s, %s)' % (ql(d['eps']), lib.bl(os_))
    gt = 'Some %s' % ql(r['grad']) if r.get('grad') is not None else 'None'
    return '{| hc_c := %s; hc_lin := %s; hc_qd := %s; hc_p := %s; hc_eps := %s; hc_direct := %s; hc_hess := %s; hc_grad := %s |}' % (
        q(c['c']), lin, qd, ql(c['p']), q(c['eps']), dt, qll(r['hess']), gt)

def run_hess_stream(ctx, cases):
    res = lib.run_impl('c19_impl.py', cases, timeout=1200)
    byid = {r['id']: r for r in res}
    exprs, meta = [], {}
    for c in cases:
        r = byid[c['id']]
        n = len(c['p'])
        ctx.count('A.n=%d' % n); ctx.count('A.kind=' + c['kind']); ctx.count('A.' + ('hessian_elem direct' if c['direct'] else 'get_hess+get_grad'))
        for cl in c['classes']:
            ctx.count('A.param=' + cl)
        if 'error' in r or not finite(r.get('hess')) or not finite(r.get('grad', [])):
            report(ctx, 'A-error', 'get_hess/get_grad/hessian_elem failed on a polynomial test function: %s' % (r.get('error') or 'non-finite result'),
                          data={'stream': 'hess', 'case': c, 'impl': r})
            ctx.obligation('hess case %d runs' % c['id'], False, 'predicate', r.get('error', 'non-finite'))
            continue
        ctx.case(signature=('A', c['p'], c['eps'], c['lin'], c['qd'], repr(c['direct'])),
                 sample=samp('A', {'stream': 'A', 'p': c['p'], 'eps': c['eps'], 'lin': c['lin'], 'qd': c['qd'], 'direct': c['direct'],
                                   'impl_hess': r['hess'], 'impl_grad': r.get('grad')}))
        # ---- property predicate on the implementation: exact second partials up to round-off / (h_i h_j)
        Hx, Gx = poly_exact(c)
        if c['direct'] is None:
            st = [step_rule_py(c['eps'], x) for x in c['p']]
            steps = [s for s, _ in st]; onesided = [o for _, o in st]
        else:
            steps = [Fraction(e) for e in c['direct']['eps']]; onesided = None
        S = poly_scale(c, steps)
        bad = None
        for i in range(n):
            for j in range(n):
                tol = Fraction(1, 10 ** 9) * abs(Hx[i][j]) + Fraction(1, 2 ** 38) * S / abs(steps[i] * steps[j])
                if abs(Fraction(r['hess'][i][j]) - Hx[i][j]) > tol:
                    bad = bad or ('hess', i, j, r['hess'][i][j], float(Hx[i][j]))
        if c['direct'] is None:
            if not r.get('sym') or not r.get('p_unchanged'):
                bad = bad or ('symmetry/p0 modified', r.get('sym'), r.get('p_unchanged'))
            if r.get('grad_shape') != [n, 1]:
                bad = bad or ('grad shape', r.get('grad_shape'))
            for i in range(n):
                if (not onesided[i]) or Hx[i][i] == 0:      # central on quadratics; one-sided where linear in the coordinate
                    tol = Fraction(1, 10 ** 9) * abs(Gx[i]) + Fraction(1, 2 ** 38) * S / abs(steps[i])
                    if abs(Fraction(r['grad'][i]) - Gx[i]) > tol:
                        bad = bad or ('grad', i, r['grad'][i], float(Gx[i]))
                    ctx.count('A.grad exact: ' + ('one-sided, linear in coordinate' if onesided[i] else 'central'))
                else:
                    ctx.count('A.grad one-sided on curved coordinate (first order, not exact: by design)')
        ok = bad is None
        ctx.obligation('A%d exactness on polynomial (implementation)' % c['id'], ok, 'predicate', '' if ok else repr(bad))
        if not ok:
            report(ctx, 'A-inexact', 'finite-difference derivative of a %s polynomial is not exact: %r (eps=%r, p=%r)' % (c['kind'], bad, c['eps'], c['p']),
                          data={'stream': 'hess', 'case': c, 'impl': r, 'exact_hess': [[float(x) for x in row] for row in Hx]})
        k = len(exprs)
        exprs.append((k, hcase_text(c, r)))
        meta[k] = c
    results = ctx.coq_cases('hess', HEADER_Q, exprs, '(hcheck %s %s)' % (q(K_ABS), q(REL)),
                            'K=2^-40 x sum|monomials|/(h_i h_j) + 1e-11 relative', shard=ctx.pick(20, 100), kind='A: log2(|impl-model| / conditioning scale)')
    nbad = 0
    for k, c in meta.items():
        rr = results.get(k)
        ok = rr is not None and rr[0]
        ctx.obligation('A%d correspondence get_hess/get_grad/hessian_elem vs model' % c['id'], ok, 'correspondence', '' if ok else 'coq: %r' % (rr,))
        if not ok:
            nbad += 1
            if nbad <= 3:
                report(ctx, 'A-model', 'Godambe.%s disagrees with the model on a polynomial (eps=%r, p=%r)' % ('hessian_elem' if c['direct'] else 'get_hess/get_grad', c['eps'], c['p']),
                              data={'stream': 'hess', 'case': c, 'impl': byid[c['id']], 'coq': rr})

# ------------------------------------------------------------------------------------------------------
# (3) stream B: Poisson models linear in their parameters

FNS = ['get_godambe', 'GIM_uncert', 'FIM_uncert', 'LRT_adjust', 'Wald_stat', 'score_stat']

def gen_pois_case(rng, cid, fn=None, force=None):
    force = force or {}
    fn = fn or rng.choice(FNS)
    npar = force.get('npar') or rng.choice([1, 2, 2, 3, 3, 4])
    multinom = force.get('multinom', rng.random() < 0.4) if fn != 'get_godambe' else False
    log = (rng.random() < 0.3) if fn in ('get_godambe', 'GIM_uncert', 'FIM_uncert') else False
    if log and not force.get('npar'):
        npar = rng.choice([1, 2, 2])          # 160-bit rationals (Qexp/Qln) make the exact model slow: keep log-mode cases small
    shape = rng.choice([[rng.randint(npar + 5, npar + 7)], [rng.randint(npar + 5, npar + 7)], [3, rng.randint(3, 4)]])
    if log:
        shape = [npar + 5]
    nent = int(np.prod(shape))
    eps = force.get('eps') or rng.choice([0.1, 0.05, 0.01, 0.01, 2.0 ** -7, 0.001, 2.0 ** -10, 0.0001])
    pclass = force.get('pclass') or rng.choices(['central', 'zero', 'tiny', 'negative'], weights=[6, 2, 1, 1])[0]
    nested = None
    if fn in ('LRT_adjust', 'Wald_stat', 'score_stat'):
        if npar == 1 and not multinom:
            npar = 2
        nn = force.get('nn') or rng.randint(1, max(1, npar - 1))
        nested = sorted(rng.sample(range(npar), nn))
    for attempt in range(200):
        Bs = [[lib.dyadic(rng, 0.25, 6, 2) for _ in range(nent)] for _ in range(npar)]
        p0 = [lib.dyadic(rng, 0.5, 3, 3) for _ in range(npar)]
        if log:
            p0 = [x if (x >= 1.25 or x <= 0.875 or x == 1.0) else 1.5 for x in p0]      # ln p * eps stays away from 1e-6
            pclass = 'central'
        special = None
        if pclass != 'central':
            special = rng.choice(nested) if nested else rng.randrange(npar)
            if pclass == 'zero':
                p0[special] = 0.0
            elif pclass == 'tiny':
                p0[special] = rng.randint(1, 1000) / 2.0 ** 30
            else:
                p0[special] = -0.125
                Bs[special] = [lib.dyadic(rng, 0.25, 1, 2) for _ in range(nent)]
        B0 = [lib.dyadic(rng, 0.25, 6, 2) for _ in range(nent)] if (multinom or rng.random() < 0.3) else None
        m = [(B0[i] if B0 else 0.0) + sum(p0[k] * Bs[k][i] for k in range(npar)) for i in range(nent)]
        if min(m) < 0.2:
            continue
        scale = rng.choice([1.0, 4.0, 16.0])
        if multinom:
            mm = [x * scale for x in m]
        else:
            Bs = [[x * scale for x in bk] for bk in Bs]
            B0 = [x * scale for x in B0] if B0 else None
            mm = [x * scale for x in m]
        def noisy(amp):
            return [max(0.0, round(4 * x * (1 + amp * rng.uniform(-1, 1))) / 4.0) for x in mm]
        data = noisy(0.3)
        dim = len(nested) if nested else npar + (1 if multinom else 0)
        nb = force.get('nb') or (0 if fn == 'FIM_uncert' else dim + 1 + rng.randint(0, 1 if log else 2))
        boots = [noisy(0.45) for _ in range(nb)]
        break
    else:
        raise RuntimeError('generator could not produce positive means')
    c = {'op': 'godambe', 'id': cid, 'fn': fn, 'shape': shape, 'Bs': Bs, 'B0': B0, 'p0': p0, 'eps': eps, 'data': data, 'boots': boots,
         'multinom': multinom, 'log': log, 'nested': nested, 'pclass': pclass, 'special': special,
         'func_kind': rng.choice(['closure', 'persistent', 'lambda']), 'pts': [rng.choice([10, 20])]}
    if fn == 'get_godambe' and rng.random() < 0.2:
        c['just_hess'] = True
    if fn in ('get_godambe', 'GIM_uncert', 'LRT_adjust') and not multinom and nb and rng.random() < 0.4:
        c['adjusts'] = [lib.dyadic(rng, 0.75, 1.25, 4) for _ in range(nb)]
    if fn == 'Wald_stat':
        diffs = [lib.dyadic(rng, -0.5, 0.5, 4) or 0.25 for _ in nested]
        if rng.random() < 0.5:
            fp = list(p0)
            for ix, d in zip(nested, diffs):
                fp[ix] = p0[ix] + d
            c['full_params'] = fp
        else:
            c['full_params'] = [p0[ix] + d for ix, d in zip(nested, diffs)]
        c['diffs'] = diffs
    if fn in ('GIM_uncert', 'Wald_stat') and rng.random() < 0.3:
        c['also_plain'] = True
    if rng.random() < 0.2 and nb:
        c['boots_as_arrays'] = True
    if rng.random() < 0.15 and len(shape) == 1:
        em = [False] * nent
        em[rng.randrange(1, nent - 1)] = True
        c['extra_mask'] = em
    return c

# ---- closed forms (numpy; independent of the implementation) -----------------------------------------

def closed_forms(c, r, keep):
    """exact-derivative versions of (H, J, cU) in the coordinates get_godambe differentiates in, and the statistics."""
    npar = len(c['Bs'])
    B = np.array(c['Bs'], dtype=float)[:, keep]                # npar x nent
    x = np.array(c['p0'], dtype=float)
    d = np.array(c['data'], dtype=float)[keep]
    b0 = np.array(c['B0'], dtype=float)[keep] if c.get('B0') else 0.0
    if c['multinom']:
        s = b0 + x @ B
        T = d.sum() / s.sum()
        full = np.concatenate([x, [T]])
        m = T * s
        dm = np.vstack([T * B, s[None, :]])                     # (npar+1) x nent
        d2 = np.zeros((npar + 1, npar + 1, B.shape[1]))
        for k in range(npar):
            d2[k, npar] = B[k]; d2[npar, k] = B[k]
    else:
        full = x
        m = b0 + x @ B
        dm = B
        d2 = np.zeros((npar, npar, B.shape[1]))
    act = list(c['nested']) if c['nested'] else list(range(len(full)))
    xa = full[act]
    dm = dm[act]; d2 = d2[np.ix_(act, act)]
    def grad(dd, a):
        return dm @ (dd / m - a)
    def hess(dd, a):
        return (dm * (dd / m ** 2)) @ dm.T - np.einsum('abi,i->ab', d2, dd / m - a)
    H = hess(d, 1.0)
    g0 = grad(d, 1.0)
    adj = c.get('adjusts') or [1.0] * len(c['boots'])
    gs = [grad(np.array(bt, dtype=float)[keep], a) for bt, a in zip(c['boots'], adj)]
    if c['log']:
        H = np.outer(xa, xa) * H - np.diag(xa * g0)
        gs = [xa * g for g in gs]
    out = {'H': H, 'theta': (full[-1] if c['multinom'] else None)}
    if gs:
        J = sum(np.outer(g, g) for g in gs) / len(gs)
        cU = sum(gs) / len(gs)
        out['J'] = J; out['cU'] = cU
        G = H @ np.linalg.inv(J) @ H
        out['G'] = G
        sg = sum(np.abs(g) for g in gs) / len(gs)          # gradient magnitude without cancellation between bootstraps
        out['scale_cU'] = float(sg.max())
        out['scale_score'] = [float(sg @ np.abs(np.linalg.inv(J)) @ sg), float(sg @ np.abs(np.linalg.inv(H)) @ sg)]
    fn = c['fn']
    if fn == 'GIM_uncert':
        out['val'] = np.sqrt(np.diag(np.linalg.inv(out['G'])))
    elif fn == 'FIM_uncert':
        out['val'] = np.sqrt(np.diag(np.linalg.inv(H)))
    elif fn == 'LRT_adjust':
        out['val'] = np.array([len(act) / np.trace(out['J'] @ np.linalg.inv(H))])
    elif fn == 'Wald_stat':
        dv = np.array(c['diffs'], dtype=float)
        out['val'] = np.array([dv @ out['G'] @ dv, dv @ H @ dv])
    elif fn == 'score_stat':
        out['val'] = np.array([out['cU'] @ np.linalg.inv(out['J']) @ out['cU'], out['cU'] @ np.linalg.inv(H) @ out['cU']])
    elif fn == 'get_godambe':
        out['val'] = None
    out['cond'] = max(np.linalg.cond(H), np.linalg.cond(out['J']) if gs else 1.0)
    out['cond_chain'] = np.linalg.cond(H) * (np.linalg.cond(out['J']) * np.linalg.cond(out['G']) if gs else 1.0)
    out['active'] = xa
    return out

def pdata_text(adj, d, g):
    return '{| pd_adj := %s; pd_d := %s; pd_g := %s |}' % (q(adj), ql(d), ql(g))

def pcase_text(c, r, inner, keep, full_aug):
    Bs_entry = [[c['Bs'][k][i] for k in range(len(c['Bs']))] + ([c['B0'][i]] if c.get('B0') else []) for i in keep]
    nest = 'None'
    if c['nested']:
        nest = 'Some (%s, %s)' % (ql(full_aug), lib.natl(c['nested']))
    adj = inner['adjusts'] or [1.0] * len(c['boots'])
    data = pdata_text(1, [c['data'][i] for i in keep], [r['g_data'][i] for i in keep])
    boots = '[' + '; '.join(pdata_text(a, [bt[i] for i in keep], [g[i] for i in keep])
                            for bt, g, a in zip(c['boots'], r['g_boots'], adj)) + ']'
    if inner['just_hess']:
        boots = '[]'
    jt = 'None' if inner['just_hess'] else 'Some (%s, %s)' % (qll(inner['J']), ql(inner['cU']))
    return ('{| pc_Bs := %s; pc_aug := %s; pc_nest := %s; pc_log := %s; pc_p0 := %s; pc_eps := %s; pc_data := %s; pc_boots := %s; '
            'pc_H := %s; pc_J := %s |}') % (qll(Bs_entry), b(c['multinom']), nest, b(inner['log']), ql(inner['p0']), q(inner['eps']),
                                            data, boots, qll(inner['H']), jt)

def scase_text(kind, H, J, cU, d, vals, theta=None, p0=(), idx=(), full=()):
    return ('{| sc_kind := %s; sc_H := %s; sc_J := %s; sc_cU := %s; sc_d := %s; sc_vals := %s; '
            'sc_theta := %s; sc_p0 := %s; sc_idx := %s; sc_full := %s |}') % (
        nat(kind), qll(H), qll(J), ql(cU), ql(d), ql(vals),
        'None' if theta is None else 'Some %s' % q(theta), ql(list(p0)), lib.natl(list(idx)), ql(list(full)))

def relerr(a, bb, scale=None):
    """max |a - b| / max |b|   (or entrywise / scale when a scale is given)"""
    a = np.asarray(a, dtype=float).ravel(); bb = np.asarray(bb, dtype=float).ravel()
    if scale is not None:
        return float(np.max(np.abs(a - bb) / np.maximum(np.asarray(scale, dtype=float), 1e-300)))
    s = np.max(np.abs(bb))
    return float(np.max(np.abs(a - bb)) / (s if s > 0 else 1.0))

def central_everywhere(c, inner):
    """are all coordinates get_godambe differentiates in on the central branch (at eps and at eps/2)?"""
    x = [math.log(v) for v in inner['p0']] if inner['log'] else inner['p0']
    return all((not step_rule_py(inner['eps'] / 2, v)[1]) for v in x)

def relist_inner(c, r):
    """LRT_adjust / Wald_stat / score_stat return scalars that do not depend on the order in which the nested parameters are listed
    (Props/C19.v, C19_*_order_invariant), so the order in which get_godambe sees them is the implementation's business.  Where it
    differs from the caller's, the recorded (p0, H, J, cU, G) are re-listed in the caller's order (sub_mat / select of the model);
    every comparison then proceeds as if the call had been made in that order.  Returns True when something was re-listed."""
    if not c.get('nested') or 'error' in r or not r.get('inner') or r.get('theta_opt') is None:
        return False
    full_aug = list(c['p0']) + ([r['theta_opt']] if c['multinom'] else [])
    if any(ix >= len(full_aug) for ix in c['nested']):
        return False
    want = [full_aug[ix] for ix in c['nested']]
    done = False
    for inn in r['inner']:
        got = inn.get('p0')
        if got is None or len(got) != len(want) or got == want or relerr(got, want) <= 1e-12:
            continue
        pos, used = [], set()
        for w in want:
            cand = [a for a, g in enumerate(got) if a not in used and (g == w or abs(g - w) <= 1e-12 * max(abs(w), 1e-300))]
            if not cand:
                pos = None; break
            pos.append(cand[0]); used.add(cand[0])
        if pos is None:
            continue
        inn['relisted'] = pos
        inn['p0'] = [got[a] for a in pos]
        for kk in ('H', 'J', 'G'):
            if inn.get(kk) is not None:
                inn[kk] = [[inn[kk][a][bb] for bb in pos] for a in pos]
        if inn.get('cU') is not None:
            inn['cU'] = [inn['cU'][a] for a in pos]
        done = True
    return done

def run_pois_stream(ctx, base, tag=''):
    """base: generated ops.  Adds the eps/2 twin and (for some) the bootstrap-permuted twin of every op.
    Flags of an op: no_l1 (the identical get_godambe call of another op goes to the exact model), perm_twin (True: always,
    False: never), no_kind0.  Returns {id of the op: its evaluation} for the ops that ran."""
    rng = ctx.rng
    ops = []
    evaluated = {}
    for c in base:
        c = dict(c); c['role'] = 'main'; c['base'] = c['id']
        ops.append(c)
        h = dict(c); h['eps'] = c['eps'] / 2; h['role'] = 'half'
        ops.append(h)
        want_perm = c.get('perm_twin')
        if len(c['boots']) >= 2 and (want_perm if want_perm is not None else rng.random() < 0.6):
            perm = list(range(len(c['boots']))); rng.shuffle(perm)
            if perm == sorted(perm):
                perm = perm[1:] + perm[:1]
            pm = dict(c); pm['boots'] = [c['boots'][i] for i in perm]; pm['role'] = 'perm'; pm['perm'] = perm
            if c.get('adjusts'):
                pm['adjusts'] = [c['adjusts'][i] for i in perm]
            ops.append(pm)
    for k, o in enumerate(ops):
        o['id'] = k
    import time
    t_ = time.time()
    res = lib.run_impl('c19_impl.py', ops, timeout=2400)
    ctx.notes.append('pois%s: %d implementation calls %.1fs' % (tag, len(ops), time.time() - t_))
    byid = {r['id']: r for r in res}
    for o in ops:
        if relist_inner(o, byid[o['id']]):
            ctx.count('B.the implementation lists the nested parameters in another order internally (its matrices are re-listed in the caller\'s order before any comparison)')
    groups = {}
    for o in ops:
        groups.setdefault(o['base'], {})[o['role']] = o
    pex, pmeta, tex, tmeta, sex, smeta = [], {}, [], {}, [], {}
    for bid, g in groups.items():
        c = g['main']; r = byid[c['id']]
        ctx.count('B.fn=' + c['fn']); ctx.count('B.npar=%d' % len(c['Bs'])); ctx.count('B.params=' + c['pclass'])
        ctx.count('B.multinom' if c['multinom'] else 'B.explicit theta'); ctx.count('B.log' if c['log'] else 'B.linear params')
        ctx.count('B.eps=%g' % c['eps'])
        failed = [o for o in g.values() if 'error' in byid[o['id']]]
        if failed:
            rr = byid[failed[0]['id']]
            ctx.obligation('B%d %s runs' % (bid, c['fn']), False, 'predicate', rr['error'])
            report(ctx, 'B-error', 'Godambe.%s raised %s on a linear Poisson model' % (c['fn'], rr['error']),
                          data={'stream': 'pois', 'case': failed[0], 'impl': rr})
            evaluated[bid] = {'c': c, 'error': rr['error']}
            continue
        if not r['boot_masks_equal']:
            raise RuntimeError('generator: bootstrap masks differ')
        keep = [i for i, mk in enumerate(r['mask']) if not mk]
        ctx.case(signature=('B', c['fn'], c['Bs'], c['p0'], c['eps'], c['multinom'], c['log'], repr(c['nested'])),
                 sample=samp('B', {'stream': 'B', 'fn': c['fn'], 'p0': c['p0'], 'eps': c['eps'], 'multinom': c['multinom'], 'log': c['log'],
                                   'nested': c['nested'], 'shape': c['shape'], 'Bs': c['Bs'], 'data': c['data'], 'value': r.get('val'),
                                   'inner_H': r['inner'][0]['H']}))
        with np.errstate(all='ignore'):          # an indefinite exact information matrix gives NaN uncertainties: handled below
            cf = closed_forms(c, r, keep)
        # ---- glue predicates
        glue = []
        if c['multinom']:
            if abs(r['theta_opt'] - cf['theta']) > 1e-12 * abs(cf['theta']):
                glue.append('theta_opt %r vs sum(data)/sum(model) %r' % (r['theta_opt'], cf['theta']))
        for inn in r['inner']:
            want_p = list(cf['active'])
            if relerr(inn['p0'], want_p) > 1e-12:
                glue.append('get_godambe received p0 %r, expected %r' % (inn['p0'], want_p))
            if inn['eps'] != c['eps'] or inn['log'] != c['log']:
                glue.append('eps/log not passed through')
            if (inn['adjusts'] or None) != (c.get('adjusts') or None) and not (inn['adjusts'] and all(a == 1.0 for a in inn['adjusts']) and not c.get('adjusts')):
                glue.append('boot_theta_adjusts not passed through: %r' % (inn['adjusts'],))
        if r.get('args_unchanged') is False:
            glue.append('p0, nested_indices or full_params was modified in place')
        if c.get('also_plain') and 'val_plain' in r:
            if r['val_plain'] != r['val'][:len(r['val_plain'])]:
                glue.append('plain return value differs from the adj_and_org/return_GIM one')
        if c['fn'] == 'GIM_uncert':
            if r['ret_G'] != r['inner'][0]['G'] or r['ret_H'] != r['inner'][0]['H']:
                glue.append('GIM_uncert(return_GIM=True) does not return get_godambe\'s matrices')
        if c['fn'] == 'FIM_uncert' and r['ret_H'] != r['inner'][0]['H']:
            glue.append('FIM_uncert(return_FIM=True) does not return the Hessian')
        ok = not glue
        ctx.obligation('B%d %s glue (theta augmentation, arguments, return values)' % (bid, c['fn']), ok, 'predicate', '; '.join(glue))
        if not ok:
            report(ctx, 'B-glue', 'Godambe.%s: %s' % (c['fn'], glue[0]), data={'stream': 'pois', 'case': c, 'impl': r})
        inner = r['inner'][0]
        order = 2 if central_everywhere(c, inner) else 1
        ctx.count('B.order=%d' % order)
        val_finite = finite(r.get('val') or []) and finite(byid[g['half']['id']].get('val') or [])
        evaluated[bid] = {'c': c, 'r': r, 'cf': cf, 'order': order, 'val_finite': val_finite, 'keep': keep}
        # an O(eps^2) (central) or O(eps) (one-sided) perturbation of H may make an ill-conditioned matrix indefinite: NaN uncertainties
        # are a violation only where the allowed error times the condition number is small
        # (away from the optimum the exact observed information of a multinom model can itself be indefinite: closed form NaN too)
        cf_finite = cf.get('val') is None or bool(np.all(np.isfinite(cf['val'])))
        must_be_finite = order == 2 and cf_finite and C_ORDER2 * c['eps'] ** 2 * cf['cond'] < 0.25
        if not finite([inner['H'], inner.get('J', []), inner.get('cU', [])]) or (must_be_finite and not val_finite):
            ctx.obligation('B%d finite results' % bid, False, 'predicate', 'non-finite')
            report(ctx, 'B-nonfinite', 'Godambe.%s returned non-finite values on a well-conditioned linear Poisson model' % c['fn'],
                          data={'stream': 'pois', 'case': c, 'impl': r})
            continue
        if not val_finite:
            ctx.count('B.statistic is NaN (indefinite information matrix: exact one indefinite too, or ill-conditioned within the O(eps^2) allowance); not compared')
        full_aug = list(c['p0']) + ([r['theta_opt']] if c['multinom'] else [])
        # ---- L1: (H, J, cU) against the model over Q
        rh = byid[g['half']['id']]
        nlog = sum(1 for (cc, _, _) in pmeta.values() if cc['log'])
        if c.get('no_l1'):
            pass
        elif c['log'] and nlog >= ctx.pick(3, 40):
            ctx.count('B.log-mode case not sent to the exact model (cost cap)')
        else:
            k = len(pex)
            pex.append((k, pcase_text(c, r, inner, keep, full_aug)))
            pmeta[k] = (c, bid, 'main')
        if not c['log'] and not c.get('no_l1') and ctx.rng.random() < ctx.pick(0.15, 0.3):
            k = len(pex)
            pex.append((k, pcase_text(g['half'], rh, rh['inner'][0], keep, full_aug)))
            pmeta[k] = (g['half'], bid, 'half')
        # ---- T: truncation error of the model vs the proved closed forms (pure linear model, central branch)
        if not c['multinom'] and not c['log'] and not c['nested'] and c['pclass'] == 'central' and not inner['just_hess'] and not c.get('B0') and not c.get('no_t') and len(tex) < ctx.pick(4, 60):
            k = len(tex)
            tex.append((k, pcase_text(c, r, inner, keep, full_aug)))
            tmeta[k] = (c, bid)
        # ---- L2: statistics from the implementation's own matrices
        kindmap = {'GIM_uncert': 1, 'FIM_uncert': 2, 'LRT_adjust': 3, 'Wald_stat': 4, 'score_stat': 5}
        if cf['cond_chain'] < 1e6:
            Jm = inner.get('J') or []; cUm = inner.get('cU') or []
            if not inner['just_hess'] and not c.get('no_kind0'):
                k = len(sex); sex.append((k, scase_text(0, inner['H'], Jm, cUm, [], [x for row in inner['G'] for x in row]))); smeta[k] = (c, bid, 'godambe = H J^-1 H')
            if c['fn'] in kindmap and val_finite and not (c.get('no_kind4') and c['fn'] == 'Wald_stat'):
                k = len(sex)
                sex.append((k, scase_text(kindmap[c['fn']], inner['H'], Jm, cUm, c.get('diffs', []), r['val'])))
                smeta[k] = (c, bid, c['fn'])
            if c['fn'] == 'Wald_stat' and val_finite:
                # the statistic from the caller's own lists (index list and full_params as passed): Model wald_diff + wald_stat
                k = len(sex)
                sex.append((k, scase_text(6, inner['H'], Jm, cUm, [], r['val'], theta=(r['theta_opt'] if c['multinom'] else None),
                                          p0=c['p0'], idx=c['nested'], full=c['full_params'])))
                smeta[k] = (c, bid, 'Wald_stat from (p0, nested_indices, full_params) as passed')
        else:
            ctx.count('B.ill-conditioned (statistics not compared)')
        # ---- P: implementation vs closed forms at eps and eps/2
        quantities = [('H', inner['H'], rh['inner'][0]['H'], cf['H'], None)]
        if not inner['just_hess']:
            quantities += [('J', inner['J'], rh['inner'][0]['J'], cf['J'], None),
                           ('cU', inner['cU'], rh['inner'][0]['cU'], cf['cU'], cf['scale_cU'])]
        if cf.get('val') is not None and cf['cond'] < 1e5 and val_finite and finite(cf['val'].tolist()):
            quantities.append((c['fn'], r['val'], rh['val'], cf['val'], cf['scale_score'] if c['fn'] == 'score_stat' else np.abs(cf['val'])))
        hmin = min(float(step_rule_py(inner['eps'] / 2, v)[0]) for v in ([math.log(v) for v in inner['p0']] if inner['log'] else inner['p0']))
        Lmag = float(sum(abs(x) for x in r['g_data'])) + float(np.abs(cf['H']).max())
        noise = 1e-13 * (1 + Lmag) / hmin ** 2 / max(1e-300, float(np.abs(cf['H']).max())) * max(1.0, cf['cond'])
        bad = None
        worst = 0.0
        qlog = []
        for name, v1, v2, ex, sc in quantities:
            e1, e2 = relerr(v1, ex, sc), relerr(v2, ex, sc)
            qlog.append((name, e1, e2))
            if order == 2:
                bound = C_ORDER2 * c['eps'] ** 2 * (max(1.0, cf['cond']) if name not in ('H', 'J', 'cU') else 1.0) + noise
                if e1 > 1000 * noise:
                    worst = max(worst, e1 / c['eps'] ** 2 / (max(1.0, cf['cond']) if name not in ('H', 'J', 'cU') else 1.0))
                if e1 > bound:
                    bad = bad or '%s: relative error %.3g at eps=%g exceeds C*eps^2 = %.3g' % (name, e1, c['eps'], bound)
                # halving: the truncation terms of H all have one sign (B > 0), so its error must fall by ~4; in J, cU and the
                # statistics terms of both signs can cancel, so they are tested only where the error has its typical size
                if 1000 * noise < e1 <= 0.1 and e1 > 1e-9 and (name == 'H' or e1 >= 0.5 * c['eps'] ** 2):
                    ctx.count('B.halving test applied (second order)')
                    if e2 > (0.45 if name == 'H' else 0.6) * e1 + 10 * noise:
                        bad = bad or '%s: error %.3g at eps, %.3g at eps/2: not O(eps^2)' % (name, e1, e2)
            else:
                # one-sided stencils (absolute step eps): first order by design, with model-dependent constants and mixed-sign
                # error terms; nothing is required of them here beyond the correspondence with the model (L1, L2)
                ctx.count('B.first-order case: closed form recorded only (%s)' % ('error fell' if e2 < e1 else 'error did not fall'))
        ctx.stats['B.max relative err/eps^2 (central cases, above round-off; statistics / cond)'] = max(ctx.stats.get('B.max relative err/eps^2 (central cases, above round-off; statistics / cond)', 0.0), round(worst, 3))
        ok = bad is None
        ctx.obligation('B%d %s vs closed forms within O(eps^%d), eps and eps/2' % (bid, c['fn'], order), ok, 'predicate', bad or '')
        if not ok:
            report(ctx, 'B-closed-form', 'Godambe.%s on a linear Poisson model does not match its closed form: %s' % (c['fn'], bad),
                          data={'stream': 'pois', 'case': c, 'impl': r, 'impl_half_eps': rh,
                                'closed': {kk: (vv.tolist() if hasattr(vv, 'tolist') else vv) for kk, vv in cf.items()}})
        # ---- O: bootstrap order
        if 'perm' in g:
            rp = byid[g['perm']['id']]
            ip = rp['inner'][0]
            diffs = []
            for name in ('H', 'J', 'cU', 'G'):
                if name in inner:
                    diffs.append((name, relerr(ip[name], inner[name])))
            if r.get('val') is not None:
                diffs.append(('value', relerr(rp['val'], r['val'])))
            lim = 1e-9 * max(1.0, cf['cond'])
            worstp = max(dd for _, dd in diffs)
            ok = worstp <= lim
            ctx.obligation('B%d %s independent of bootstrap order' % (bid, c['fn']), ok, 'predicate', '' if ok else repr(diffs))
            if not ok:
                report(ctx, 'B-boot-order', 'Godambe.%s depends on the order of the bootstraps: %r' % (c['fn'], diffs),
                              data={'stream': 'pois', 'case': g['perm'], 'impl': rp, 'impl_original_order': r})
    # ---- run the Coq sides
    ctx.notes.append('pois%s: python side %.1fs; %d L1, %d T, %d L2 cases' % (tag, time.time() - t_, len(pex), len(tex), len(sex))); t_ = time.time()
    results = ctx.coq_cases('pois' + tag, HEADER_Q, pex, '(pcheck %s %s)' % (q(K_ABS), q(REL)),
                            'K=2^-40 x sum|ll terms|/(h_i h_j) + 1e-11 relative', shard=ctx.pick(2, 6), timeout=1800,
                            kind='B/L1: log2(|impl-model| / conditioning scale)')
    nbad = 0
    for k, (c, bid, role) in pmeta.items():
        rr = results.get(k)
        ok = rr is not None and rr[0]
        ctx.obligation('B%d(%s) correspondence get_godambe (H, J, cU) vs model' % (bid, role), ok, 'correspondence', '' if ok else 'coq: %r' % (rr,))
        if not ok:
            nbad += 1
            if nbad <= 3:
                report(ctx, 'B-L1', 'get_godambe (called by %s) disagrees with the model in H, J or cU' % c['fn'],
                              data={'stream': 'pois', 'case': c, 'impl': byid[c['id']], 'coq': rr})
    ctx.notes.append('pois%s: L1 in Coq %.1fs' % (tag, time.time() - t_)); t_ = time.time()
    results = ctx.coq_cases('trunc' + tag, HEADER_Q, tex, '(tcheck %s)' % q(Fraction(C_MODEL)),
                            'err(eps) <= %g eps^2 x scale and err(eps/2) <= 0.3 err(eps)' % C_MODEL, shard=ctx.pick(1, 4), timeout=1800,
                            kind='B/T: log2(model truncation error / (eps^2 x scale))')
    for k, (c, bid) in tmeta.items():
        rr = results.get(k)
        ok = rr is not None and rr[0]
        ctx.obligation('B%d model finite differences vs proved closed forms: O(eps^2), halving (exact arithmetic)' % bid, ok, 'correspondence',
                       '' if ok else 'coq: %r' % (rr,))
    ctx.notes.append('pois%s: T in Coq %.1fs' % (tag, time.time() - t_)); t_ = time.time()
    results = ctx.coq_cases('stat' + tag, HEADER_Q, sex, '(scheck %s)' % q(REL_STAT), '1e-8 relative (x2 for variances), cond(H) cond(J) cond(G) < 1e6', shard=ctx.pick(40 if not tag else 16, 150),
                            kind='B/L2: log2 relative error of statistics')
    nbad = 0
    for k, (c, bid, what) in smeta.items():
        rr = results.get(k)
        ok = rr is not None and rr[0]
        ctx.obligation('B%d %s = exact linear algebra on the returned (H, J, cU)' % (bid, what), ok, 'correspondence', '' if ok else 'coq: %r' % (rr,))
        if not ok:
            nbad += 1
            if nbad <= 3:
                report(ctx, 'B-L2', 'Godambe.%s: %s is not what the model computes from get_godambe\'s (H, J, cU)' % (c['fn'], what),
                              data={'stream': 'pois', 'case': c, 'impl': byid[c['id']], 'coq': rr})
    ctx.notes.append('pois%s: L2 in Coq %.1fs' % (tag, time.time() - t_))
    return evaluated

C_ORDER2 = 60.0      # |stat(eps) - closed| <= C eps^2 (x condition number for the statistics); observed <= 12 eps^2 on the unchanged tree
C_MODEL = 16

# ------------------------------------------------------------------------------------------------------
# (4) stream C: mixture chi-square tail probability

def chi2_closed(x, weights):
    cdf = 0.0
    for dof, w in enumerate(weights):
        if dof == 0:
            cdf += w * (1.0 if x > 0 else 0.0)
        else:
            cdf += w * float(scipy.special.gammainc(dof / 2.0, x / 2.0))
    return 1 - cdf

def run_chi2_stream(ctx, replay_case=None):
    rng = ctx.rng
    wsets = [[0, 1], [0.5, 0.5], [0.25, 0.5, 0.25], [0, 0, 1], [0.125, 0.375, 0.375, 0.125]]
    ops = []
    n = ctx.pick(6, 40)
    for k in range(n):
        w = wsets[k % len(wsets)]
        xs = [float('%.4g' % rng.uniform(0.01, 12)) for _ in range(rng.randint(1, 5))]
        if k % 4 == 0:
            xs[0] = 0.0
        ops.append({'op': 'chi2', 'x': xs, 'weights': w, 'x_as': rng.choice(['list', 'array']), 'default_weights': w == [0, 1] and k % 2 == 0, 'role': 'array'})
        for x in xs:
            ops.append({'op': 'chi2', 'x': x, 'weights': w, 'default_weights': False, 'role': 'scalar', 'of': len(ops) - 1})
    if replay_case is not None:
        ops = [replay_case] + [{'op': 'chi2', 'x': x, 'weights': replay_case['weights'], 'role': 'scalar'} for x in
                               (replay_case['x'] if isinstance(replay_case['x'], list) else [replay_case['x']])]
        ops[0]['role'] = 'array' if isinstance(replay_case['x'], list) else 'scalar'
    for k, o in enumerate(ops):
        o['id'] = k
    res = lib.run_impl('c19_impl.py', ops, timeout=600)
    byid = {r['id']: r for r in res}
    k = 0
    while k < len(ops):
        o = ops[k]; r = byid[o['id']]
        if o['role'] == 'array':
            xs = o['x']
            scal = [byid[ops[k + 1 + t]['id']] for t in range(len(xs))]
            ctx.count('C.array input'); ctx.case(signature=('C', xs, o['weights']), sample=samp('C', {'stream': 'C', 'x': xs, 'weights': o['weights'], 'impl': r.get('val', r.get('error'))}))
            sc_ok = all('error' not in s and s['scalar'] and abs(s['val'][0] - chi2_closed(x, o['weights'])) <= 1e-12 for s, x in zip(scal, xs))
            ctx.obligation('C%d sum_chi2_ppf scalar inputs = closed form' % o['id'], sc_ok, 'predicate', '' if sc_ok else repr(scal))
            if not sc_ok:
                report(ctx, 'C-scalar', 'sum_chi2_ppf(scalar) differs from 1 - sum_d w_d P(chi2_d <= x)', data={'stream': 'chi2', 'case': o, 'impl': scal})
            if 'error' in r:
                known = 'scalar_input' in r['error']
                ctx.obligation('C%d sum_chi2_ppf accepts an array' % o['id'], False, 'predicate', r['error'])
                if known:
                    ctx.obligations[-1]['known_key'] = KEY_CHI2
                if not known or not any(v['key'] == KEY_CHI2 for v in ctx.violations):
                    ctx.violation('sum_chi2_ppf(%r, %r) raised %s while the scalar calls work' % (xs, o['weights'], r['error']),
                                  data={'stream': 'chi2', 'case': {kk: vv for kk, vv in o.items() if kk != 'id'}, 'impl': r},
                                  key=KEY_CHI2 if known else None)
                else:
                    ctx.count('C.further arrays raising the same UnboundLocalError')
            else:
                ok = (not r['scalar']) and len(r['val']) == len(xs) and all('error' not in s and s['val'][0] == v for s, v in zip(scal, r['val']))
                ctx.obligation('C%d sum_chi2_ppf array = scalar results' % o['id'], ok, 'predicate', '' if ok else repr((r, scal)))
                if not ok:
                    report(ctx, 'C-array-vs-scalar', 'sum_chi2_ppf gives different answers for array and scalar input', data={'stream': 'chi2', 'case': o, 'impl': r, 'scalar': scal})
            k += 1 + len(xs)
        else:
            ok = 'error' not in r and r['scalar'] and abs(r['val'][0] - chi2_closed(o['x'], o['weights'])) <= 1e-12
            ctx.obligation('C%d sum_chi2_ppf scalar = closed form' % o['id'], ok, 'predicate', '' if ok else repr(r))
            if not ok:
                report(ctx, 'C-scalar2', 'sum_chi2_ppf(scalar) differs from the closed form', data={'stream': 'chi2', 'case': o, 'impl': r})
            k += 1

# ------------------------------------------------------------------------------------------------------
# (5) stream D: call histories sharing Godambe.cache

def gen_history(rng, hid):
    """2-8 calls on the same spectrum shape / p0 / eps with 2-3 different model functions."""
    fn_pool = ['score_stat', 'LRT_adjust', 'Wald_stat', 'GIM_uncert', 'FIM_uncert', 'get_godambe']
    npar0 = rng.choice([2, 3])
    base = gen_pois_case(rng, 0, fn='score_stat', force={'npar': npar0, 'multinom': False, 'pclass': 'central', 'nb': npar0 + 3,
                                                         'eps': rng.choice([0.01, 0.05, 2.0 ** -7])})
    nent = len(base['data']); npar = len(base['Bs'])
    models = [base['Bs']]
    for _ in range(rng.choice([1, 2])):
        sc = max(max(bk) for bk in base['Bs']) / 6.0
        models.append([[lib.dyadic(rng, 0.25, 6, 2) * sc for _ in range(nent)] for _ in range(npar)])
    ops = []
    for k in range(rng.randint(2, 8)):
        fn = rng.choice(fn_pool)
        o = {kk: vv for kk, vv in base.items() if kk not in ('adjusts', 'full_params', 'diffs', 'also_plain', 'just_hess')}
        o.update({'fn': fn, 'Bs': models[rng.randrange(len(models))], 'keep_cache': k > 0, 'log': False,
                  'multinom': rng.random() < 0.3 if fn not in ('get_godambe',) else False,
                  'func_kind': rng.choice(['closure', 'closure', 'persistent', 'lambda'])})
        o['nested'] = sorted(rng.sample(range(npar), rng.randint(1, npar - 1))) if fn in ('score_stat', 'LRT_adjust', 'Wald_stat') else None
        if fn == 'Wald_stat':
            o['diffs'] = [0.25 for _ in o['nested']]
            o['full_params'] = [base['p0'][ix] + 0.25 for ix in o['nested']]
        ops.append(o)
    return {'hid': hid, 'ops': ops}

def canonical_histories(rng):
    """the patterns in which a per-call function object is created for every call: the closures Godambe itself builds
    (diff_func of LRT_adjust / Wald_stat / score_stat, the multinom lambda) and user lambdas; plus one with long-lived functions"""
    out = []
    def base_ops(npar, shape1d=True):
        bs = gen_pois_case(rng, 0, fn='score_stat', force={'npar': npar, 'multinom': False, 'pclass': 'central', 'nb': npar + 3, 'eps': 0.01})
        bs = {kk: vv for kk, vv in bs.items() if kk not in ('adjusts', 'full_params', 'diffs', 'also_plain', 'just_hess', 'extra_mask', 'boots_as_arrays')}
        nent = len(bs['data'])
        sc = max(max(bk) for bk in bs['Bs']) / 6.0
        other = [[lib.dyadic(rng, 0.25, 6, 2) * sc for _ in range(nent)] for _ in range(npar)]
        return bs, other
    def op(bs, Bs, fn, kind, multinom=False, nested=None, keep=True, **kw):
        o = dict(bs); o.update({'fn': fn, 'Bs': Bs, 'func_kind': kind, 'multinom': multinom, 'nested': nested, 'keep_cache': keep, 'log': False})
        o.update(kw)
        if fn == 'Wald_stat':
            o['diffs'] = [0.25 for _ in nested]; o['full_params'] = [bs['p0'][ix] + 0.25 for ix in nested]
        return o
    bs, other = base_ops(2)
    out.append([op(bs, bs['Bs'], 'score_stat', 'persistent', nested=[1], keep=False), op(bs, other, 'score_stat', 'persistent', nested=[1])])
    bs, other = base_ops(3)
    out.append([op(bs, bs['Bs'], 'LRT_adjust', 'closure', nested=[0, 2], keep=False), op(bs, other, 'Wald_stat', 'closure', nested=[0, 2])])
    bs, other = base_ops(2)
    bs['B0'] = bs.get('B0') or [lib.dyadic(rng, 0.25, 6, 2) for _ in bs['data']]
    if len(bs['shape']) == 1:
        rev = lambda v: list(reversed(v))
    else:
        rev = lambda v: list(reversed(v))          # flattened C-order reversal = 180 degree rotation: corners map to corners
    o1 = op(bs, bs['Bs'], 'GIM_uncert', 'persistent', multinom=True, keep=False)
    o2 = op(bs, [rev(bk) for bk in bs['Bs']], 'GIM_uncert', 'persistent', multinom=True)
    o2['B0'] = rev(bs['B0'])
    o2['data'] = bs['data']
    # same sum over the unmasked entries => same theta_opt => same cache key apart from the function
    out.append([o1, o2])
    bs, other = base_ops(2)
    out.append([op(bs, bs['Bs'], 'FIM_uncert', 'lambda', keep=False), op(bs, other, 'FIM_uncert', 'lambda')])
    bs, other = base_ops(2)
    out.append([op(bs, bs['Bs'], 'get_godambe', 'persistent', keep=False), op(bs, other, 'get_godambe', 'persistent'),
                op(bs, bs['Bs'], 'FIM_uncert', 'persistent'), op(bs, other, 'GIM_uncert', 'persistent')])
    return [{'hid': 100 + k, 'ops': ops} for k, ops in enumerate(out)]

def digest(res):
    if res[0] == 'error':
        return res[1]
    return res[0] if res[0] is not None else {'hess[0][0]': res[1][0][0]}

def result_of(r):
    if 'error' in r:
        return ('error', r['error'])
    inn = r['inner'][0]
    return (r.get('val'), inn['H'], inn.get('J'), inn.get('cU'))

def same_result(a, bb):
    if a[0] == 'error' or bb[0] == 'error':
        return a == bb
    for x, y in zip(a, bb):
        if (x is None) != (y is None):
            return False
        if x is not None and not finite([x, y]):
            if x != y:
                return False
        elif x is not None and relerr(x, y) > 1e-12:
            return False
    return True

def run_histories(hists, fresh):
    """hists: list of op lists; all run in ONE interpreter (each history starts by clearing Godambe.cache, so histories do not
    see each other).  fresh=True: the cache is cleared before every call.  -> list of result lists"""
    flat = []
    for hi, ops in enumerate(hists):
        for k, o in enumerate(ops):
            o = dict(o); o['id'] = len(flat); o['keep_cache'] = False if (fresh or k == 0) else True
            flat.append((hi, o))
    if not flat:
        return []
    res = lib.run_impl('c19_impl.py', [o for _, o in flat], timeout=2400)
    byid = {r['id']: r for r in res}
    out = [[] for _ in hists]
    for hi, o in flat:
        out[hi].append(result_of(byid[o['id']]))
    return out

def run_history_stream(ctx, histories):
    allops = [h['ops'] for h in histories]
    got_all = run_histories(allops, fresh=False)
    ref_all = run_histories(allops, fresh=True)
    failing = []
    for h, got, ref in zip(histories, got_all, ref_all):
        ops = h['ops']
        ctx.count('D.histories'); ctx.count('D.calls', len(ops))
        ctx.case(signature=('D', [(o['fn'], o['Bs'][0][:3], o['func_kind'], o['multinom']) for o in ops]),
                 sample=samp('D', {'stream': 'D', 'calls': [(o['fn'], o['func_kind'], o['multinom']) for o in ops], 'values': [digest(x) for x in got]}))
        badk = [k for k in range(len(ops)) if not same_result(got[k], ref[k])]
        ok = not badk
        ctx.obligation('D%d every call of the history returns what it returns on an empty cache' % h['hid'], ok, 'predicate',
                       '' if ok else 'calls %r differ' % badk)
        if not ok:
            ctx.obligations[-1]['known_key'] = KEY_CACHE
            failing.append((h, got, ref, badk[0], len(ctx.obligations) - 1))
    # shrink: an earlier single call followed by the first failing one
    pairs, owner = [], []
    for fi, (h, got, ref, k, _) in enumerate(failing):
        for j in range(k):
            pairs.append([h['ops'][j], h['ops'][k]]); owner.append((fi, j))
    pres = run_histories(pairs, fresh=False)
    small = {}
    for (fi, j), pr in zip(owner, pres):
        h, got, ref, k, _ = failing[fi]
        if fi not in small and not same_result(pr[1], ref[k]):
            small[fi] = ([dict(h['ops'][j], keep_cache=False), dict(h['ops'][k], keep_cache=True)], pr[1])
    reported = 0
    for fi, (h, got, ref, k, obi) in enumerate(failing):
        if fi in small:
            rep, wrong = small[fi]
        else:
            rep, wrong = [dict(o) for o in h['ops'][:k + 1]], got[k]
        # a stale hit: the wrong answer is built from an earlier call's spectra (reproduced by a two-call history)
        stale = fi in small or any(got[k][0] != 'error' and ref[j][0] != 'error' and got[k][1] == ref[j][1] for j in range(k))
        if not stale:
            ctx.obligations[obi].pop('known_key', None)
            report(ctx, 'D-other', 'history-dependent result that is not a stale cache hit: call %d (%s) of a %d-call history' % (k, h['ops'][k]['fn'], len(h['ops'])),
                          data={'stream': 'history', 'ops': rep})
        elif reported < 1:
            # make sure the replay input reproduces in an interpreter of its own (allocation patterns differ from the batch)
            cands = [[dict(h['ops'][j], keep_cache=False), dict(h['ops'][k], keep_cache=True)] for j in range(k)] + [[dict(o) for o in h['ops'][:k + 1]]]
            if fi in small:
                cands.insert(0, rep)
            for cand in cands:
                alone = run_histories([cand], fresh=False)[0]
                if not same_result(alone[-1], ref[k]):
                    rep, wrong = cand, alone[-1]
                    break
            else:
                ctx.notes.append('the stale hit of history %d was seen in the batch run only; replay input is the whole history' % h['hid'])
            first, last = rep[0], rep[-1]
            ctx.violation('Godambe.%s after Godambe.%s with a different model function (same p0, ns, pts) returns %r instead of %r: '
                          'Godambe.cache is keyed by func_ex.__hash__() and the id of a collected closure is reused' % (
                              last['fn'], first['fn'], digest(wrong), digest(ref[k])),
                          data={'stream': 'history', 'ops': rep, 'got': digest(wrong), 'on_empty_cache': digest(ref[k])}, key=KEY_CACHE)
            reported += 1
        else:
            ctx.count('D.further histories with a stale cache hit')

# ------------------------------------------------------------------------------------------------------
# (6) stream E: order and container type of the list arguments
#
# LRT_adjust / Wald_stat / score_stat take the nested parameters as an index list (and Wald_stat optionally their values as a
# second list): the statistics must not depend on the order in which the nested parameters are listed (Props/C19.v:
# C19_wald_nested_order_irrelevant, C19_score_order_invariant, C19_lrt_adjust_order_invariant), whatever sequence type carries
# the lists.  get_godambe / GIM_uncert / LRT_adjust pair boot_theta_adjusts with the bootstraps by position.

ORDER_FAMILIES = [   # (parameters of the complex model, nested ones, multinom, class of one nested parameter, eps)
    (3, 1, False, 'central', 0.01), (3, 2, True, 'central', 2.0 ** -7), (4, 2, False, 'central', 0.01),
    (4, 3, True, 'central', 0.01), (5, 3, False, 'central', 2.0 ** -7), (5, 2, True, 'central', 0.01),
    (4, 1, True, 'central', 0.05), (5, 3, True, 'zero', 0.01), (3, 2, False, 'tiny', 0.01)]
L1_FAMILIES = (1, 2, 4, 8)      # quick tier: families whose last (non-ascending) listing goes to the exact model
TUPLE_ERRORS = ('IndexError', 'TypeError')          # numpy reads a tuple as a multi-axis index (documented type: list)
ARRAY_ADJ_ERRORS = ('ValueError',)                  # `if not boot_theta_adjusts` on an array (documented type: list)

def listings(nn, thorough):
    """orders in which nn nested parameters are listed: name -> positions in the ascending listing"""
    out = [('ascending', list(range(nn)))]
    if nn >= 2:
        out.append(('descending', list(range(nn))[::-1]))
    if nn >= 3:
        out.append(('rotated', list(range(1, nn)) + [0]))
        if thorough:
            out += [('rotated twice', [2, 0, 1]), ('first two swapped', [1, 0, 2]), ('last two swapped', [0, 2, 1])]
    return out

def default_keep(c):
    """entries the likelihood sums over: Spectrum masks the two corners (+ the case's extra mask)"""
    nent = int(np.prod(c['shape']))
    em = c.get('extra_mask') or [False] * nent
    return [i for i in range(nent) if i not in (0, nent - 1) and not em[i]]

def gen_order_family(rng, fi, npar, nn, multinom, pclass, eps, thorough):
    for attempt in range(200):
        base = gen_pois_case(rng, 0, fn='Wald_stat', force={'npar': npar, 'nn': nn, 'multinom': multinom, 'pclass': pclass, 'eps': eps})
        for kk in ('full_params', 'diffs', 'also_plain', 'adjusts'):
            base.pop(kk, None)
        probe = dict(base, fn='LRT_adjust')
        with np.errstate(all='ignore'):
            cf = closed_forms(probe, None, default_keep(base))
        distinct = len(set(base['p0'][ix] for ix in base['nested'])) == nn         # the listing get_godambe sees can then be read off its p0
        if distinct and np.isfinite(cf['cond_chain']) and cf['cond_chain'] < (1e4 if fi < len(ORDER_FAMILIES) else 1e5) and bool(np.all(np.isfinite(cf['val']))):
            break
    else:
        raise RuntimeError('order sweep: no well-conditioned family found')
    S = base['nested']
    mags = rng.sample([0.125, 0.25, 0.375, 0.5, 0.625, 0.75], nn)           # distinct magnitudes: a mispaired value shows
    diffs = [m if rng.random() < 0.5 else -m for m in mags]
    p0 = base['p0']
    fp_full = list(p0)
    for ix, d in zip(S, diffs):
        fp_full[ix] = p0[ix] + d
    adjusts = [lib.dyadic(rng, 0.75, 1.25, 4) for _ in base['boots']] if (not multinom and fi % 2 == 0) else None
    cases, pairs, special = [], [], []
    ring = {'nested': ['list', 'array'], 'fp': ['array', 'list', 'tuple']}
    cnt = {'nested': fi, 'fp': fi}
    def nxt(what):
        cnt[what] += 1
        return ring[what][cnt[what] % len(ring[what])]
    def variant(oname, perm, call, **kw):
        nested = [S[k] for k in perm]; dv = [diffs[k] for k in perm]
        c = dict(base)
        c.update({'nested': nested, 'nested_as': nxt('nested'), 'perm_twin': False, 'no_kind0': True,
                  'sweep': {'family': fi, 'listing': oname, 'perm': perm, 'call': call}})
        if call == 'LRT_adjust':
            c['fn'] = 'LRT_adjust'
            if adjusts:
                c['adjusts'] = adjusts; c['adjusts_as'] = ['list', 'tuple'][fi // 2 % 2]
        elif call == 'score_stat':
            c['fn'] = 'score_stat'; c['also_plain'] = True
        else:
            c['fn'] = 'Wald_stat'; c['diffs'] = dv; c['also_plain'] = True; c['fp_as'] = nxt('fp')
            c['full_params'] = list(fp_full) if call == 'Wald full' else [p0[ix] + d for ix, d in zip(nested, dv)]
        c.update(kw)
        return c
    calls = ['LRT_adjust', 'score_stat', 'Wald full', 'Wald values']
    lst = listings(nn, thorough)
    ref = {}
    for oname, perm in lst:
        rep = None
        for call in calls:
            c = variant(oname, perm, call)
            c['no_t'] = True; c['no_kind4'] = True      # kind 6 (from the caller's lists) subsumes kind 4 (from the difference vector)
            if call == 'LRT_adjust' and adjusts:
                c['no_kind0'] = False; c['no_l1'] = True        # theta adjusts give this call a J of its own (exact model: stream B)
            elif rep is None:
                # the other calls of this listing make the same get_godambe call; the exact model sees the last listing of each
                # family (the ascending one is stream B's daily bread)
                rep = c; c['no_kind0'] = False
                c['no_l1'] = not ((thorough and oname != 'ascending') or (nn >= 2 and oname == lst[-1][0] and fi in L1_FAMILIES))
            else:
                c['no_l1'] = True
                pairs.append(('same get_godambe call', rep, c))
            cases.append(c)
            if oname == 'ascending':
                ref[call] = c
            else:
                pairs.append(('listing order', ref[call], c))
    # full_params as the whole list and as the nested values only: the same statistic
    for oname, perm in lst:
        a = [c for c in cases if c['sweep']['listing'] == oname and c['sweep']['call'] == 'Wald full'][0]
        bb = [c for c in cases if c['sweep']['listing'] == oname and c['sweep']['call'] == 'Wald values'][0]
        pairs.append(('full_params complete / nested values only', a, bb))
    # the index list as a tuple (every call, last listing) and with a repeated index (one call per family)
    oname, perm = lst[-1]
    for call in calls:
        refc = [c for c in cases if c['sweep']['listing'] == oname and c['sweep']['call'] == call][0]
        t = dict(refc); t['nested_as'] = 'tuple'; t['sweep'] = dict(refc['sweep'], special='tuple')
        special.append(('tuple index list', refc, t))
    call = calls[fi % 4]
    refc = [c for c in cases if c['sweep']['listing'] == oname and c['sweep']['call'] == call][0]
    rp = dict(refc); rp['nested_as'] = 'list'
    rp['nested'] = list(refc['nested']) + [refc['nested'][0]]
    if call == 'Wald values':
        rp['full_params'] = list(refc['full_params']) + [refc['full_params'][0] + 0.5]
        rp['diffs'] = list(refc['diffs']) + [refc['diffs'][0] + 0.5]
    rp['sweep'] = dict(refc['sweep'], special='repeated')
    special.append(('repeated index', refc, rp))
    return cases, pairs, special

def gen_container_family(rng, fi, npar, multinom, log, thorough):
    """get_godambe / GIM_uncert / FIM_uncert: sequence types of p0, the bootstraps, the grid points and the theta adjusts;
    theta adjusts against the order of the bootstraps"""
    for attempt in range(200):
        base = gen_pois_case(rng, 0, fn='GIM_uncert', force={'npar': npar, 'multinom': multinom, 'pclass': 'central', 'eps': 0.01})
        if base['log'] != log:
            continue
        for kk in ('also_plain', 'adjusts', 'boots_as_arrays'):
            base.pop(kk, None)
        with np.errstate(all='ignore'):
            cf = closed_forms(base, None, default_keep(base))
        # (theta as an extra parameter scales the matrices badly: the sequence-type comparisons below do not depend on conditioning)
        if bool(np.all(np.isfinite(cf['val']))) and np.isfinite(cf['cond_chain']) and (multinom or cf['cond_chain'] < 1e6):
            break
    else:
        raise RuntimeError('container sweep: no well-conditioned family found')
    nb = len(base['boots'])
    adjusts = None
    if not multinom:
        pool = [0.75, 0.8125, 0.875, 0.9375, 1.0625, 1.125, 1.1875, 1.25]
        adjusts = rng.sample(pool, nb) if nb <= len(pool) else [rng.choice(pool) for _ in range(nb)]
    cases, pairs, special = [], [], []
    def mk(fn, **kw):
        c = dict(base); c['fn'] = fn; c['perm_twin'] = False; c['no_kind0'] = True; c['no_t'] = True
        c['sweep'] = {'family': 100 + fi, 'call': fn}
        if fn == 'FIM_uncert':
            c['boots'] = []
        elif adjusts and fn in ('GIM_uncert', 'get_godambe'):
            c['adjusts'] = list(adjusts)
        c.update(kw)
        return c
    for fn in ('GIM_uncert', 'FIM_uncert', 'get_godambe'):
        if fn == 'get_godambe' and (multinom or log):
            continue
        refc = mk(fn, perm_twin=(fn != 'FIM_uncert'), no_kind0=False, no_l1=not thorough)      # bootstraps and their adjusts permuted together: perm twin
        cases.append(refc)
        combos = [('tuple', 'tuple', 'tuple', 'tuple'), ('array', 'list', 'list', 'tuple'), ('list', 'tuple', 'tuple', 'list')]
        for p0_as, boots_as, pts_as, adj_as in (combos if thorough else combos[:2] if fn != 'get_godambe' else combos[:1]):
            v = mk(fn, p0_as=p0_as, boots_as=boots_as, pts_as=pts_as, no_l1=True)
            if 'adjusts' in v:
                v['adjusts_as'] = adj_as
            v['sweep'] = dict(v['sweep'], containers=[p0_as, boots_as, pts_as, adj_as])
            cases.append(v); pairs.append(('sequence types of p0 / bootstraps / grid points / theta adjusts', refc, v))
        if 'adjusts' in refc and nb >= 2:
            # the adjusts alone rotated: another pairing, another (closed-form) answer
            rot = mk(fn, no_l1=(fn != 'GIM_uncert' or log), no_kind0=False)
            rot['adjusts'] = adjusts[1:] + adjusts[:1]
            rot['sweep'] = dict(rot['sweep'], adjusts='rotated against the bootstraps')
            cases.append(rot); pairs.append(('theta adjusts re-paired', refc, rot))
            arr = mk(fn, adjusts_as='array'); arr['sweep'] = dict(arr['sweep'], special='array adjusts')
            special.append(('array of theta adjusts', refc, arr))
    return cases, pairs, special

def value_of(ev):
    r = ev['r']
    if r.get('val') is not None:
        return r['val']
    inn = r['inner'][0]
    return [x for row in inn['H'] for x in row] + ([x for row in inn.get('J', []) for x in row] if inn.get('J') else []) + list(inn.get('cU') or [])

def roundoff_allowance(ev):
    """relative size of the float differences two evaluation orders of the same stencils can show: ulp(ll) / h^2 against |H|, times cond"""
    c, r, cf = ev['c'], ev['r'], ev['cf']
    inner = r['inner'][0]
    x = [math.log(v) for v in inner['p0']] if inner['log'] else inner['p0']
    h = min(abs(float(step_rule_py(inner['eps'], v)[0])) for v in x)
    Lmag = float(sum(abs(t) for t in r['g_data'])) + float(np.abs(cf['H']).max()) + float(sum(abs(t) for t in c['data']))
    return (1e-9 + 4e-15 * (1 + Lmag) / h ** 2 / max(1e-300, float(np.abs(cf['H']).max()))) * max(1.0, cf['cond'])

def describe(c):
    sw = c.get('sweep', {})
    bits = ['nested_indices=%r as %s' % (c['nested'], c.get('nested_as', 'list'))] if c.get('nested') is not None else []
    if c.get('full_params') is not None:
        bits.append('full_params=%r as %s' % (c['full_params'], c.get('fp_as', 'array')))
    if sw.get('containers'):
        bits.append('p0/boots/pts/adjusts as %s' % '/'.join(sw['containers']))
    if c.get('adjusts') is not None:
        bits.append('boot_theta_adjusts=%r' % (c['adjusts'],))
    return 'Godambe.%s(multinom=%s, %s)' % (c['fn'], c['multinom'], ', '.join(bits))

def check_pairs(ctx, pairs, ev):
    for what, a, bb in pairs:
        ea, eb = ev.get(a['id']), ev.get(bb['id'])
        name = 'E %s: %s vs %s' % (what, describe(a), describe(bb))
        ctx.count('E.pair: ' + what)
        if ea is None or eb is None or 'error' in ea or 'error' in eb:
            ctx.obligation(name, False, 'predicate', 'one of the two calls did not run: %r' % ((ea or {}).get('error'), (eb or {}).get('error')),)
            if (ea is None or 'error' not in ea) and eb is not None and 'error' in eb:
                report(ctx, 'E-error', '%s raised %s while %s works' % (describe(bb), eb['error'], describe(a)),
                       data={'stream': 'order', 'mode': what, 'cases': [a, bb]})
            continue
        va, vb = value_of(ea), value_of(eb)
        if not (finite(va) and finite(vb)):
            ok = (finite(va) == finite(vb)) or not ea['val_finite'] or not eb['val_finite']
            ctx.obligation(name, ok, 'predicate', 'non-finite: %r / %r' % (va, vb))
            if not ok:
                report(ctx, 'E-nonfinite', '%s is finite but %s is not' % (describe(a), describe(bb)), data={'stream': 'order', 'mode': what, 'cases': [a, bb]})
            continue
        if what == 'theta adjusts re-paired':
            # non-vacuity of the positional pairing: the answer must move (each is separately held against its closed form and the model)
            moved = relerr(vb, va) > 1e-6
            ctx.count('E.theta adjusts re-paired: result %s' % ('differs (pairing is positional)' if moved else 'did not move'))
            ctx.obligation(name + ' (the pairing matters)', moved, 'predicate', '' if moved else 'identical results for two pairings')
            if not moved:
                report(ctx, 'E-adjust-pairing', 'boot_theta_adjusts re-paired with the bootstraps leaves %s unchanged: the adjusts are not applied by position' % describe(a),
                       data={'stream': 'order', 'mode': what, 'cases': [a, bb]})
            continue
        if what == 'same get_godambe call':
            ia, ib = ea['r']['inner'][0], eb['r']['inner'][0]
            err = max(relerr(ib[kk], ia[kk]) for kk in ('H', 'J', 'cU', 'p0'))
            lim = 1e-12
        else:
            err = relerr(vb, va, ea['cf']['scale_score']) if a['fn'] == 'score_stat' else relerr(vb, va)
            lim = 1e-12 if what.startswith(('sequence types', 'full_params')) else max(roundoff_allowance(ea), roundoff_allowance(eb))
        ok = err <= lim
        ctx.err('E: log2 relative difference between two listings / sequence types', int(math.floor(math.log2(max(err, 2.0 ** -80)))), 'roundoff allowance (1e-9 + 4e-15 |ll| / h^2 / |H|) x cond; 1e-12 for sequence types')
        ctx.obligation(name, ok, 'predicate', '' if ok else '%r vs %r (relative difference %.3g > %.3g)' % (va, vb, err, lim))
        if not ok:
            if what == 'listing order':
                msg = ('the statistic depends on the order in which the nested parameters are listed: %s = %r but %s = %r'
                       % (describe(a), va, describe(bb), vb))
            elif what == 'same get_godambe call':
                msg = ('%s and %s should hand get_godambe the same problem but the matrices differ: p0 %r / %r, H %r / %r'
                       % (describe(a), describe(bb), ia['p0'], ib['p0'], ia['H'], ib['H']))
            else:
                msg = '%s: %s = %r but %s = %r' % (what, describe(a), va, describe(bb), vb)
            report(ctx, 'E-' + what, msg, data={'stream': 'order', 'mode': what, 'cases': [a, bb]})

def check_special(ctx, special, ev):
    """tuple index lists / array theta adjusts (not the documented types: an exception of numpy's is tolerated, a different number
    is not) and repeated indices (model: singular, no value)"""
    if not special:
        return
    ops = []
    for k, (what, refc, v) in enumerate(special):
        o = dict(v); o['id'] = k
        ops.append(o)
    res = lib.run_impl('c19_impl.py', ops, timeout=1200)
    byid = {r['id']: r for r in res}
    pex, pmeta = [], {}
    for k, (what, refc, v) in enumerate(special):
        r = byid[k]
        er = ev.get(refc['id'])
        name = 'E %s: %s' % (what, describe(v))
        ctx.count('E.special: ' + what)
        ctx.case(signature=('E', what, v['fn'], v['Bs'], repr(v['nested']), v.get('nested_as')), sample=None)
        data = {'stream': 'order', 'mode': what, 'cases': [refc, v]}
        if what == 'repeated index':
            inn = (r.get('inner') or [{}])[0]
            Hm = inn.get('H')
            err_ok = 'error' in r and r['error'].startswith('LinAlgError')
            zero_ok = Hm is not None and all(x == 0.0 for x in Hm[0]) and all(row[0] == 0.0 for row in Hm)
            want_p = [(list(v['p0']) + ([r.get('theta_opt')] if v['multinom'] else []))[ix] for ix in v['nested']]
            p_ok = inn.get('p0') is not None and len(inn['p0']) == len(want_p) and relerr(inn['p0'], want_p) <= 1e-12
            ok = err_ok and zero_ok and p_ok
            ctx.obligation(name + ': no value (LinAlgError), row and column of H at the shadowed position vanish', ok, 'correspondence',
                           '' if ok else 'error=%r H=%r p0=%r' % (r.get('error'), Hm, inn.get('p0')))
            if not ok:
                got = r.get('error') or r.get('val')
                report(ctx, 'E-repeated', '%s: the model (Props/C19.v C19_repeated_nested_index_singular) has a singular H and J and no value; '
                       'the implementation gives %r' % (describe(v), got), data=dict(data, impl=r))
            elif len(pex) < ctx.pick(2, 20):
                keep = [i for i, mk in enumerate(r['mask']) if not mk]
                full_aug = list(v['p0']) + ([r['theta_opt']] if v['multinom'] else [])
                inner = {'H': Hm, 'p0': inn['p0'], 'eps': inn['eps'], 'log': False, 'just_hess': True, 'adjusts': None}
                kk = len(pex)
                pex.append((kk, pcase_text(v, r, inner, keep, full_aug))); pmeta[kk] = (v, r, data)
            continue
        allowed = TUPLE_ERRORS if what == 'tuple index list' else ARRAY_ADJ_ERRORS
        if 'error' in r:
            kind = r['error'].split(':')[0]
            ok = kind in allowed
            ctx.count('E.%s: raises %s' % (what, kind))
            ctx.obligation(name + ': a value equal to the list call\'s, or numpy\'s %s' % '/'.join(allowed), ok, 'predicate', r['error'])
            if not ok:
                report(ctx, 'E-special-error', '%s raised %s (the same call with lists works)' % (describe(v), r['error']), data=dict(data, impl=r))
            continue
        ctx.count('E.%s: accepted' % what)
        if er is None or 'error' in er:
            ctx.obligation(name, False, 'predicate', 'reference call did not run')
            continue
        va = value_of(er); vb = r['val'] if r.get('val') is not None else value_of({'r': r})
        ok = finite(va) == finite(vb) and (not finite(va) or relerr(vb, va) <= 1e-12)
        ctx.obligation(name + ': a value equal to the list call\'s, or numpy\'s %s' % '/'.join(allowed), ok, 'predicate', '' if ok else '%r vs %r' % (vb, va))
        if not ok:
            report(ctx, 'E-special-value', '%s = %r but %s = %r' % (describe(v), vb, describe(refc), va), data=dict(data, impl=r))
    results = ctx.coq_cases('sing', HEADER_Q, pex, '(pcheck_singular %s %s)' % (q(K_ABS), q(REL)),
                            'K=2^-40 x sum|ll terms|/(h_i h_j) + 1e-11 relative; model Hessian singular', shard=1, timeout=1800,
                            kind='E: log2(|impl-model| / conditioning scale), repeated index')
    for kk, (v, r, data) in pmeta.items():
        rr = results.get(kk)
        ok = rr is not None and rr[0]
        ctx.obligation('E repeated index: Hessian of %s = model (singular)' % describe(v), ok, 'correspondence', '' if ok else 'coq: %r' % (rr,))
        if not ok:
            report(ctx, 'E-repeated-L1', '%s: the Hessian computed before the failure is not the model\'s singular one' % describe(v), data=dict(data, impl=r, coq=rr))

def nested_glue_obligations(ctx):
    """fail-closed reading of the index handling in LRT_adjust / Wald_stat / score_stat (Model: scatter, select, wald_diff):
    `nested_indices` is never rebound, it is the index of the scatter in diff_func, of p_nested and of the reduction of full_params,
    and get_godambe receives (diff_func, p_nested)"""
    import ast
    try:
        tree = ast.parse(open(GODAMBE).read())
    except (SyntaxError, OSError) as e:
        ctx.obligation('parse dadi/Godambe.py (nested index handling)', False, 'translator', str(e)); return
    defs = {n.name: n for n in tree.body if isinstance(n, ast.FunctionDef)}
    norm = lambda node: ast.unparse(node).replace(' ', '')
    for fn in ('LRT_adjust', 'Wald_stat', 'score_stat'):
        f = defs.get(fn)
        if f is None:
            ctx.obligation('Godambe.%s exists' % fn, False, 'translator'); continue
        stmts = [norm(n) for n in ast.walk(f) if isinstance(n, (ast.Assign, ast.AugAssign))]
        rebound = [n for n in ast.walk(f) if (isinstance(n, ast.Name) and n.id == 'nested_indices' and not isinstance(n.ctx, ast.Load))
                   or (isinstance(n, ast.arg) and n.arg == 'nested_indices' and n not in f.args.args)]
        want = ['p_nested=numpy.asarray(p0)[nested_indices]', 'full_params[nested_indices]=diff_params',
                'full_params=numpy.array(p0,copy=True,dtype=float)']
        if fn == 'Wald_stat':
            want += ['full_params=numpy.asarray(full_params)[nested_indices]', 'param_diff=full_params-p_nested']
        calls = [n for n in ast.walk(f) if isinstance(n, ast.Call) and norm(n.func) == 'get_godambe']
        call_ok = len(calls) == 1 and len(calls[0].args) >= 5 and norm(calls[0].args[0]) == 'diff_func' and norm(calls[0].args[3]) == 'p_nested'
        missing = [w for w in want if w not in stmts]
        ok = not rebound and not missing and call_ok
        ctx.obligation('Godambe.%s: nested_indices not rebound; it indexes the scatter of diff_func, p_nested%s; get_godambe(diff_func, .., p_nested, ..)'
                       % (fn, ' and the reduction of full_params' if fn == 'Wald_stat' else ''), ok, 'translator',
                       '' if ok else 'rebound=%d missing=%r call=%r' % (len(rebound), missing, call_ok))

def run_order_stream(ctx):
    rng = ctx.rng
    thorough = not ctx.quick
    fams = list(ORDER_FAMILIES)
    if thorough:
        for _ in range(16):
            npar = rng.choice([3, 4, 5])
            fams.append((npar, rng.randint(1, min(3, npar - 1)), rng.random() < 0.5, rng.choice(['central', 'central', 'zero', 'tiny']),      # (a negative parameter comes with a near-collinear spectrum: stream B)
                         rng.choice([0.05, 0.01, 2.0 ** -7, 0.001])))
    cases, pairs, special = [], [], []
    for fi, fam in enumerate(fams):
        cs, ps, sp = gen_order_family(rng, fi, *fam, thorough)
        cases += cs; pairs += ps; special += sp
        ctx.count('E.family npar=%d nested=%d %s %s' % (fam[0], fam[1], 'multinom' if fam[2] else 'explicit theta', fam[3]))
    cfams = [(2, False, False), (3, True, False), (2, False, True)] + ([(3, False, False), (2, True, True), (4, False, False)] if thorough else [])
    for fi, (npar, multinom, log) in enumerate(cfams):
        cs, ps, sp = gen_container_family(rng, fi, npar, multinom, log, thorough)
        cases += cs; pairs += ps; special += sp
    for k, c in enumerate(cases):
        c['id'] = 10000 + k
    for c in cases:
        sw = c.get('sweep', {})
        if c.get('nested') is not None:
            ctx.count('E.%s, %s listing, index list as %s' % (sw.get('call'), sw.get('listing'), c.get('nested_as')))
        if c['fn'] == 'Wald_stat':
            ctx.count('E.Wald_stat full_params as %s (%s)' % (c.get('fp_as'), 'complete' if len(c['full_params']) == len(c['p0']) else 'nested values'))
    ev = run_pois_stream(ctx, cases, tag='_order')
    check_pairs(ctx, pairs, ev)
    check_special(ctx, special, ev)

def replay_order(ctx, inp):
    cases = [dict(c) for c in inp['cases']]
    mode = inp.get('mode')
    for k, c in enumerate(cases):
        c['id'] = 10000 + k; c.pop('role', None); c.pop('base', None)
    if mode in ('tuple index list', 'array of theta adjusts', 'repeated index'):
        ev = run_pois_stream(ctx, cases[:1], tag='_order')
        check_special(ctx, [(mode, cases[0], cases[1])], ev)
    else:
        ev = run_pois_stream(ctx, cases, tag='_order')
        check_pairs(ctx, [(mode, cases[0], cases[1])], ev)

# ------------------------------------------------------------------------------------------------------

def run(ctx):
    ctx.rule = ('A: polynomial (constant + monomials a*p_k + a*p_k*p_l, dyadic coefficients) in 1-5 parameters; each parameter drawn from '
                '{regular, zero, tiny (p*eps<1e-7), negative, p*eps=2e-6, p*eps=5e-7}; eps from {0.1,0.05,0.01,1e-3,1e-4,2^-4,2^-7,2^-10,2^-13} or log-uniform; '
                'get_hess+get_grad or direct hessian_elem with arbitrary signed steps / flags.  B: linear Poisson model (1-4 spectra B_k, 1-D or 2-D, dyadic), '
                'p0 central or with one zero/tiny/negative parameter, data and bootstraps = noisy means on a 1/4 grid, function in '
                '{get_godambe,GIM_uncert,FIM_uncert,LRT_adjust,Wald_stat,score_stat} x multinom x log x nested subsets x theta adjusts; every op also at eps/2 and, '
                'for 60%, with permuted bootstraps.  C: sum_chi2_ppf on scalars and arrays.  D: histories of 2-8 calls with 2-3 model functions on one cache. '
                'E (every run, systematic): 9 families (npar 3-5, 1-3 nested, multinom on/off, one with a zero and one with a tiny nested parameter) x listings of the nested '
                'indices {ascending, descending, rotated} x {LRT_adjust, score_stat, Wald_stat with complete full_params, Wald_stat with the nested values} x index list as '
                '{list, array, tuple} x full_params as {array, list, tuple}, plus a repeated index per family; 3 families of get_godambe / GIM_uncert / FIM_uncert with '
                'p0 / bootstraps / grid points / theta adjusts as list, tuple, array and theta adjusts rotated against the bootstraps (thorough: 16 more random families, all listings). '
                'T (every run, enumerated): the same numbers in every python / numpy type, container and memory layout the unchanged library accepts (tables in c19_types.py): '
                'sum_chi2_ppf x as python float/int/bool, numpy float64/32/16, int64..int8, uint8/64, bool_ scalars, 0-d arrays, lists / tuples / ndarrays of each, strided / negatively strided / '
                'read-only / Fortran / transposed views, masked arrays, 2-D, weights in 22 spellings or left out; get_hess / get_grad / hessian_elem with p0 / eps / args / one_sided / ii, jj / f0 typed; '
                'the six get_godambe-family functions with p0 / grid points / eps / nested_indices / full_params / theta adjusts / flags / data / bootstraps typed, the same object passed twice; '
                'each against the canonical spelling (bit for bit), the property predicates, unchanged arguments, a repeated call; thorough size whenever a source obligation is broken. '
                'distinct = distinct generated input; non-trivial = every case (all have >= 1 parameter and evaluate >= 3 stencil points)')
    ctx.assumptions += [
        'float64 results are compared with the exact-rational model at K=2^-40 x (sum of |terms| of the function) / (h_i h_j) + 1e-11 relative: round-off of a second difference scales with 1/h^2',
        'Qln/Qexp are rational approximations with relative error < 2^-100',
        'the O(eps^2) agreement with the closed forms is NOT proved: it is checked at eps and eps/2 (model in exact arithmetic: err <= %g eps^2 x scale and ratio <= 0.3; implementation: err <= %g eps^2 (x cond for statistics) and ratio <= 0.45 where the error is above round-off and below 0.1)' % (C_MODEL, C_ORDER2),
        'parameters on the one-sided branch (zero, tiny, negative; in log mode p <= 1) make the stencils first order: no closed-form agreement is required there, only correspondence with the model',
        'scipy.special.gammainc is the reference for the chi-square distribution function',
        'order invariance of the statistics (Props/C19.v) is proved for matrices whose inverse certifies itself (A Ai = Ai A = 1 tested entry by entry); that the elimination finds the inverse of the re-listed matrix whenever it finds that of the original is not proved: evaluated on every case',
        'the order in which get_godambe sees the nested parameters is not prescribed: where the implementation re-lists them, its (p0, H, J, cU) are put back in the caller\'s order before the comparisons (the returned statistics are compared as returned)',
        'nested_indices as a tuple and boot_theta_adjusts as an array are outside the documented types (list): numpy\'s IndexError/TypeError/ValueError is tolerated there, a value different from the list call\'s is not',
        'two listings of the same nested parameters run the same stencils in another order: their results may differ by round-off of size ulp(ll)/h^2, allowed as (1e-9 + 4e-15 |ll| / h^2 / |H|) x cond',
        'argument types (stream T): float32 / float16 parameters and steps are compared only where every abscissa of the stencils is exact in that precision (numpy adds p0[i] + step in the operand precision); '
        'numpy.log of a float32 parameter array (log mode) is a float32 logarithm and is not compared; a 0-d array statistic makes sum_chi2_ppf answer with a shape-(1,) array (numpy.isscalar is False): values compared, shape allowed',
    ]
    ctx.trusted += ['harness/translate/stencil.py (symbolic execution of hessian_elem / get_grad / step-size loops into Coq terms; fail-closed)',
                    'numpy assembly in get_godambe (outer, dot, inv) and Spectrum masking are covered by execution only']
    if ctx.replay:
        rp = json.load(open(ctx.replay))
        inp = rp.get('input') or {}
        st = inp.get('stream')
        if st == 'hess':
            c = inp['case']; c['id'] = 0
            run_hess_stream(ctx, [c]); return
        if st == 'pois':
            c = dict(inp['case']); c['id'] = 0; c.pop('role', None); c.pop('perm', None)
            run_pois_stream(ctx, [c]); return
        if st == 'chi2':
            run_chi2_stream(ctx, replay_case=dict(inp['case'], op='chi2')); return
        if st == 'history':
            run_history_stream(ctx, [{'hid': 0, 'ops': inp['ops']}]); return
        if st == 'order':
            replay_order(ctx, inp); return
        if st == 'types':
            c19_types.replay(ctx, report, inp); return
    import time
    t = time.time()
    translator_obligations(ctx); ctx.notes.append('translator %.1fs' % (time.time() - t)); t = time.time()
    # stream T (argument types / containers / layouts), every run.  A source obligation that no longer checks starts a targeted
    # search: the stream at thorough size, before anything is reported without a failing input
    c19_types.source_obligation(ctx, GODAMBE)
    broken = [o['name'] for o in ctx.obligations if not o['ok'] and o['kind'] == 'translator']
    if broken:
        ctx.notes.append('source obligation(s) broken (%s): argument-type stream run at thorough size as a targeted search' % '; '.join(broken[:3]))
        ctx.count('T.targeted search after a broken source obligation')
    nT = c19_types.run(ctx, report, thorough=(not ctx.quick) or bool(broken))
    ctx.notes.append('stream T %.1fs (%d failing spellings)' % (time.time() - t, nT)); t = time.time()
    run_hess_stream(ctx, gen_hess_cases(ctx)); ctx.notes.append('stream A %.1fs' % (time.time() - t)); t = time.time()
    nB = ctx.pick(30, 300)
    base = []
    for k in range(nB):
        fn = FNS[k % len(FNS)]
        base.append(gen_pois_case(ctx.rng, k, fn=fn))
    run_pois_stream(ctx, base); ctx.notes.append('stream B %.1fs' % (time.time() - t)); t = time.time()
    run_chi2_stream(ctx)
    run_history_stream(ctx, canonical_histories(ctx.rng) + [gen_history(ctx.rng, h) for h in range(ctx.pick(4, 60))]); ctx.notes.append('streams C, D %.1fs' % (time.time() - t)); t = time.time()
    nested_glue_obligations(ctx)
    run_order_stream(ctx); ctx.notes.append('stream E %.1fs' % (time.time() - t))
    if os.environ.get('C19_TIMING'):
        import sys
        print('C19 timing: ' + '; '.join(ctx.notes), file=sys.stderr)
