"""C19 — the uncertainty machinery (dadi/Godambe.py) differentiates exactly and matches closed-form information.

Static theorems: coq/theories/Props/C19.v   (model: Model/Godambe.v).
Per run:
  (1) translator obligations: hessian_elem, the loop body of get_grad and the step-size loops of get_hess / get_grad are
      symbolically executed from the current source (harness/translate/stencil.py) into Coq terms; obligations
      `forall f p0 ii jj eps os, model = generated` (field / case analysis); skeleton of get_hess and the numpy assembly
      statements of get_godambe are compared as text;
  (2) stream A  get_hess / get_grad / hessian_elem on random polynomials (1-5 parameters; zero, tiny, negative, near-threshold
      parameters; eps in [1e-4, 1e-1]) : correspondence with the model over Q + exactness predicate on the implementation;
  (3) stream B  get_godambe / GIM_uncert / FIM_uncert / LRT_adjust / Wald_stat / score_stat on Poisson models linear in their
      parameters: (L1) H, J, cU against the model over Q (Qln), (L2) the statistics against exact linear algebra on the
      matrices the implementation produced, (T) truncation error of the model against the proved closed forms at eps, eps/2,
      (P) the implementation against closed forms at eps and eps/2, (O) bootstrap order;
  (4) stream C  sum_chi2_ppf scalar vs array vs closed form;
  (5) stream D  call histories sharing Godambe.cache against the same calls on an empty cache.
"""
import json, math, os
from fractions import Fraction
import numpy as np
import scipy.special
from harness import lib
from harness.lib import q, ql, qll, b
from harness.translate import stencil, pyexpr

GODAMBE = os.path.join(lib.REPO, 'dadi', 'Godambe.py')
K_ABS = Fraction(1, 2 ** 40)        # absolute allowance, in units of the conditioning scale  (sum|terms| / (h_i h_j))
REL = Fraction(1, 10 ** 11)
REL_STAT = Fraction(1, 10 ** 8)     # exact linear algebra on the implementation's own matrices
KEY_CHI2 = 'sum_chi2_ppf-array-input-scalar_input-unbound'
KEY_CACHE = 'godambe-cache-keyed-by-function-hash-stale-after-id-reuse'
TINY = Fraction(1, 10 ** 6)

HEADER_R = '\n'.join(['From Coq Require Import ZArith Reals List Lra Bool.',
                      'From Dadi Require Import Base.Num Base.NumR Model.Godambe Proofs.GodambeProofs.',
                      'Import ListNotations. Local Open Scope R_scope.',
                      'Ltac ob_bools := repeat match goal with',
                      '  | |- context [Reqb ?a ?b] => destruct (Reqb a b)',
                      '  | |- context [Rleb ?a ?b] => destruct (Rleb a b)',
                      '  | |- context [nth ?i ?l false] => destruct (nth i l false)',
                      '  end; cbn [negb andb].',
                      'Ltac ob_arith := gd_unfold; cbv beta; replace (1 + 1) with 2 by ring; field; auto.', ''])
HEADER_Q = '\n'.join(['From Coq Require Import ZArith QArith List.',
                      'From Dadi Require Import Base.Num Base.NumQ Model.Godambe Model.GodambeCheck.',
                      'Import ListNotations.', 'Open Scope Q_scope.'])

# ------------------------------------------------------------------------------------------------------
# (1) translator

def translator_obligations(ctx):
    consts = {}
    try:
        consts = stencil.module_constants(GODAMBE)
    except (SyntaxError, OSError) as e:
        ctx.obligation('parse dadi/Godambe.py', False, 'translator', str(e))
        return
    ctx.obligation('Godambe.two_pt_deriv_test = False at module level (the modelled gradient branch)',
                   consts.get('two_pt_deriv_test') is False, 'translator', repr(consts.get('two_pt_deriv_test')))
    gens = {}
    for name, fn in (('hessian_elem', lambda: stencil.translate_hessian_elem(GODAMBE)),
                     ('get_grad loop body', lambda: stencil.translate_grad_elem(GODAMBE, consts)),
                     ('get_hess step-size loop', lambda: stencil.translate_step_rule(GODAMBE, 'get_hess', 'gen_step_hess')),
                     ('get_grad step-size loop', lambda: stencil.translate_step_rule(GODAMBE, 'get_grad', 'gen_step_grad'))):
        try:
            gens[name] = fn()
            ctx.obligation('translate Godambe %s' % name, True, 'translator')
        except (pyexpr.Refuse, SyntaxError, OSError, IndexError, KeyError) as e:
            ctx.obligation('translate Godambe %s' % name, False, 'translator', '%s: %s' % (type(e).__name__, e))
    files = []
    if 'hessian_elem' in gens:
        files.append(('C19_ob_hess_diag', HEADER_R + gens['hessian_elem'] + '''
Lemma ob_hess_diag : forall (f : list R -> R) f0 p0 ii eps os, nth ii eps 0 <> 0 ->
  hess_elem f f0 p0 ii ii eps os
  = gen_hess_diag (fun x => f (upd p0 ii x)) f0 (nth ii p0 0) (nth ii eps 0) (nth ii os false).
Proof. intros. unfold hess_elem, gen_hess_diag. rewrite Nat.eqb_refl. numR. ob_bools; ob_arith. Qed.
'''))
        files.append(('C19_ob_hess_off', HEADER_R + gens['hessian_elem'] + '''
Lemma ob_hess_off : forall (f : list R -> R) f0 p0 ii jj eps os, ii <> jj -> nth ii eps 0 <> 0 -> nth jj eps 0 <> 0 ->
  hess_elem f f0 p0 ii jj eps os
  = gen_hess_off (fun x y => f (upd (upd p0 ii x) jj y)) f0 (nth ii p0 0) (nth jj p0 0) (nth ii eps 0) (nth jj eps 0)
                 (nth ii os false) (nth jj os false).
Proof. intros f f0 p0 ii jj eps os Hne Hi Hj. unfold hess_elem, gen_hess_off.
  destruct (Nat.eqb_spec ii jj) as [E|_]; [contradiction|]. numR. ob_bools; ob_arith. Qed.
'''))
    if 'get_grad loop body' in gens:
        files.append(('C19_ob_grad_elem', HEADER_R + gens['get_grad loop body'] + '''
Lemma ob_grad_elem : forall (f : list R -> R) p0 ii eps os, nth ii eps 0 <> 0 ->
  grad_elem f p0 ii eps os = gen_grad_elem (fun x => f (upd p0 ii x)) (nth ii p0 0) (nth ii eps 0) (nth ii os false).
Proof. intros. unfold grad_elem, gen_grad_elem. numR. ob_bools; ob_arith. Qed.
'''))
    for nm, gname in (('get_hess step-size loop', 'gen_step_hess'), ('get_grad step-size loop', 'gen_step_grad')):
        if nm in gens:
            files.append(('C19_ob_' + gname, HEADER_R + gens[nm] + '''
Lemma ob_%s : forall e p : R, %s e p = step_rule e p.
Proof. intros. unfold %s, step_rule, nltb, tiny. numR. ob_bools; f_equal; ring. Qed.
''' % (gname, gname, gname)))
    res = lib.run_case_files(files, timeout=600)
    for n, (rc, so, se, secs) in res.items():
        ctx.obligation('generated obligation %s (source = model for all functions, points, steps, flags)' % n, rc == 0,
                       'translator', se[-500:] if rc else '')
    ctx.checker_cmds.append('coqc build/cases/C19_ob_*.v (regenerated from dadi/Godambe.py)')
    try:
        for what, ok, detail in stencil.structure_get_hess(GODAMBE):
            ctx.obligation(what, ok, 'translator', detail)
        for what, ok in stencil.structure_get_godambe(GODAMBE):
            ctx.obligation('get_godambe contains: ' + what, ok, 'translator')
    except (pyexpr.Refuse, SyntaxError, OSError, IndexError) as e:
        ctx.obligation('skeleton of get_hess / get_godambe', False, 'translator', str(e))

# ------------------------------------------------------------------------------------------------------
# helpers shared by the streams

EPS_FIXED = [0.1, 0.05, 0.01, 0.01, 0.001, 0.0001, 2.0 ** -4, 2.0 ** -7, 2.0 ** -10, 2.0 ** -13]

def pick_eps(rng):
    if rng.random() < 0.25:
        return float('%.4g' % (10 ** rng.uniform(-4, -1)))
    return rng.choice(EPS_FIXED)

def step_rule_py(eps, p):
    """independent re-statement of the documented rule, in exact arithmetic: (step, one_sided stencil used?)"""
    e, x = Fraction(eps), Fraction(p)
    if x == 0:
        return e, True
    if x * e < TINY:
        return e, True
    return e * x, False

def finite(x):
    if isinstance(x, list):
        return all(finite(t) for t in x)
    return x is not None

def nat(k):
    return '%d%%nat' % k

_nsamp = {}
def samp(stream, d):
    """evidence samples (lib keeps six): two each of streams A and B, one each of C and D"""
    _nsamp[stream] = _nsamp.get(stream, 0) + 1
    return d if _nsamp[stream] <= {'A': 2, 'B': 2}.get(stream, 1) else None

_seen = {}
def report(ctx, tag, what, **kw):
    """at most two violations per kind of failure; further ones are only counted (every failure is still a failed obligation)"""
    _seen[tag] = _seen.get(tag, 0) + 1
    if _seen[tag] <= 2:
        ctx.violation(what, **kw)
    else:
        ctx.count('further failures of kind: ' + tag)

# ------------------------------------------------------------------------------------------------------
# (2) stream A: polynomial test functions

def gen_param(rng, eps):
    cl = rng.choices(['regular', 'zero', 'tiny', 'negative', 'near_above', 'near_below'], weights=[6, 2, 2, 1.5, 1, 1])[0]
    if cl == 'regular':
        v = lib.dyadic(rng, 0.25, 8, 5)
    elif cl == 'zero':
        v = 0.0
    elif cl == 'tiny':
        v = rng.randint(1, 1000) / 2.0 ** 30           # p*eps <= 1e-7 for every eps <= 0.1
    elif cl == 'negative':
        v = -lib.dyadic(rng, 0.25, 8, 5)
    elif cl == 'near_above':
        v = 2e-6 / eps                                  # p*eps = 2e-6: central, far from the float decision boundary
    else:
        v = 5e-7 / eps                                  # p*eps = 5e-7: one-sided
    return cl, v

def gen_hess_cases(ctx):
    rng = ctx.rng
    N = ctx.pick(160, 3000)
    cases = []
    for cid in range(N):
        n = rng.choice([1, 2, 2, 3, 3, 4, 5])
        eps = pick_eps(rng)
        pcs = [gen_param(rng, eps) for _ in range(n)]
        kind = rng.choices(['quadratic', 'linear', 'sparse'], weights=[6, 2, 2])[0]
        c0 = lib.dyadic(rng, -4, 4, 4)
        lin = [[lib.dyadic(rng, -4, 4, 4), k] for k in range(n) if rng.random() < 0.85]
        if rng.random() < 0.3 and lin:
            lin.append([lib.dyadic(rng, -4, 4, 4), rng.randrange(n)])          # repeated monomial
        qd = []
        if kind == 'quadratic':
            for _ in range(rng.randint(1, n * (n + 1))):
                qd.append([lib.dyadic(rng, -4, 4, 4), rng.randrange(n), rng.randrange(n)])
        elif kind == 'sparse':
            for _ in range(rng.randint(1, 2)):
                qd.append([lib.dyadic(rng, -4, 4, 4), rng.randrange(n), rng.randrange(n)])
        c = {'op': 'hess', 'id': cid, 'c': c0, 'lin': lin, 'qd': qd, 'p': [v for _, v in pcs], 'classes': [cl for cl, _ in pcs],
             'eps': eps, 'kind': kind, 'direct': None, 'p_as': rng.choice(['list', 'array']),
             'args': rng.choice([[], [], [3.5], [1, 2]])}
        if rng.random() < 0.25:
            de = []
            for k in range(n):
                m = rng.choice([2.0 ** -rng.randint(3, 12), float('%.3g' % (10 ** rng.uniform(-4, -1)))])
                de.append(m if rng.random() < 0.8 else -m)
            c['direct'] = {'eps': de, 'one_sided': None if rng.random() < 0.3 else [rng.random() < 0.4 for _ in range(n)]}
        cases.append(c)
    return cases

def poly_exact(c):
    """exact Hessian and gradient of the polynomial (Fractions)"""
    n = len(c['p'])
    P = [Fraction(x) for x in c['p']]
    H = [[Fraction(0)] * n for _ in range(n)]
    G = [Fraction(0)] * n
    for a, k in c['lin']:
        G[k] += Fraction(a)
    for a, k, l in c['qd']:
        a = Fraction(a)
        H[k][l] += a; H[l][k] += a
        G[k] += a * P[l]; G[l] += a * P[k]
    return H, G

def poly_scale(c, steps):
    X = [abs(Fraction(x)) + 2 * abs(s) for x, s in zip(c['p'], steps)]
    S = abs(Fraction(c['c']))
    for a, k in c['lin']:
        S += abs(Fraction(a)) * X[k]
    for a, k, l in c['qd']:
        S += abs(Fraction(a)) * X[k] * X[l]
    return S

def hcase_text(c, r):
    lin = '[' + '; '.join('(%s, %s)' % (q(a), nat(k)) for a, k in c['lin']) + ']'
    qd = '[' + '; '.join('(%s, (%s, %s))' % (q(a), nat(k), nat(l)) for a, k, l in c['qd']) + ']'
    d = c['direct']
    if d is None:
        dt = 'None'
    else:
        os_ = d['one_sided'] if d['one_sided'] is not None else [False] * len(c['p'])
        dt = 'Some (%s, %s)' % (ql(d['eps']), lib.bl(os_))
    gt = 'Some %s' % ql(r['grad']) if r.get('grad') is not None else 'None'
    return '{| hc_c := %s; hc_lin := %s; hc_qd := %s; hc_p := %s; hc_eps := %s; hc_direct := %s; hc_hess := %s; hc_grad := %s |}' % (
        q(c['c']), lin, qd, ql(c['p']), q(c['eps']), dt, qll(r['hess']), gt)

def run_hess_stream(ctx, cases):
    res = lib.run_impl('c19_impl.py', cases, timeout=1200)
    byid = {r['id']: r for r in res}
    exprs, meta = [], {}
    for c in cases:
        r = byid[c['id']]
        n = len(c['p'])
        ctx.count('A.n=%d' % n); ctx.count('A.kind=' + c['kind']); ctx.count('A.' + ('hessian_elem direct' if c['direct'] else 'get_hess+get_grad'))
        for cl in c['classes']:
            ctx.count('A.param=' + cl)
        if 'error' in r or not finite(r.get('hess')) or not finite(r.get('grad', [])):
            report(ctx, 'A-error', 'get_hess/get_grad/hessian_elem failed on a polynomial test function: %s' % (r.get('error') or 'non-finite result'),
                          data={'stream': 'hess', 'case': c, 'impl': r})
            ctx.obligation('hess case %d runs' % c['id'], False, 'predicate', r.get('error', 'non-finite'))
            continue
        ctx.case(signature=('A', c['p'], c['eps'], c['lin'], c['qd'], repr(c['direct'])),
                 sample=samp('A', {'stream': 'A', 'p': c['p'], 'eps': c['eps'], 'lin': c['lin'], 'qd': c['qd'], 'direct': c['direct'],
                                   'impl_hess': r['hess'], 'impl_grad': r.get('grad')}))
        # ---- property predicate on the implementation: exact second partials up to round-off / (h_i h_j)
        Hx, Gx = poly_exact(c)
        if c['direct'] is None:
            st = [step_rule_py(c['eps'], x) for x in c['p']]
            steps = [s for s, _ in st]; onesided = [o for _, o in st]
        else:
            steps = [Fraction(e) for e in c['direct']['eps']]; onesided = None
        S = poly_scale(c, steps)
        bad = None
        for i in range(n):
            for j in range(n):
                tol = Fraction(1, 10 ** 9) * abs(Hx[i][j]) + Fraction(1, 2 ** 38) * S / abs(steps[i] * steps[j])
                if abs(Fraction(r['hess'][i][j]) - Hx[i][j]) > tol:
                    bad = bad or ('hess', i, j, r['hess'][i][j], float(Hx[i][j]))
        if c['direct'] is None:
            if not r.get('sym') or not r.get('p_unchanged'):
                bad = bad or ('symmetry/p0 modified', r.get('sym'), r.get('p_unchanged'))
            if r.get('grad_shape') != [n, 1]:
                bad = bad or ('grad shape', r.get('grad_shape'))
            for i in range(n):
                if (not onesided[i]) or Hx[i][i] == 0:      # central on quadratics; one-sided where linear in the coordinate
                    tol = Fraction(1, 10 ** 9) * abs(Gx[i]) + Fraction(1, 2 ** 38) * S / abs(steps[i])
                    if abs(Fraction(r['grad'][i]) - Gx[i]) > tol:
                        bad = bad or ('grad', i, r['grad'][i], float(Gx[i]))
                    ctx.count('A.grad exact: ' + ('one-sided, linear in coordinate' if onesided[i] else 'central'))
                else:
                    ctx.count('A.grad one-sided on curved coordinate (first order, not exact: by design)')
        ok = bad is None
        ctx.obligation('A%d exactness on polynomial (implementation)' % c['id'], ok, 'predicate', '' if ok else repr(bad))
        if not ok:
            report(ctx, 'A-inexact', 'finite-difference derivative of a %s polynomial is not exact: %r (eps=%r, p=%r)' % (c['kind'], bad, c['eps'], c['p']),
                          data={'stream': 'hess', 'case': c, 'impl': r, 'exact_hess': [[float(x) for x in row] for row in Hx]})
        k = len(exprs)
        exprs.append((k, hcase_text(c, r)))
        meta[k] = c
    results = ctx.coq_cases('hess', HEADER_Q, exprs, '(hcheck %s %s)' % (q(K_ABS), q(REL)),
                            'K=2^-40 x sum|monomials|/(h_i h_j) + 1e-11 relative', shard=ctx.pick(20, 100), kind='A: log2(|impl-model| / conditioning scale)')
    nbad = 0
    for k, c in meta.items():
        rr = results.get(k)
        ok = rr is not None and rr[0]
        ctx.obligation('A%d correspondence get_hess/get_grad/hessian_elem vs model' % c['id'], ok, 'correspondence', '' if ok else 'coq: %r' % (rr,))
        if not ok:
            nbad += 1
            if nbad <= 3:
                report(ctx, 'A-model', 'Godambe.%s disagrees with the model on a polynomial (eps=%r, p=%r)' % ('hessian_elem' if c['direct'] else 'get_hess/get_grad', c['eps'], c['p']),
                              data={'stream': 'hess', 'case': c, 'impl': byid[c['id']], 'coq': rr})

# ------------------------------------------------------------------------------------------------------
# (3) stream B: Poisson models linear in their parameters

FNS = ['get_godambe', 'GIM_uncert', 'FIM_uncert', 'LRT_adjust', 'Wald_stat', 'score_stat']

def gen_pois_case(rng, cid, fn=None, force=None):
    force = force or {}
    fn = fn or rng.choice(FNS)
    npar = force.get('npar') or rng.choice([1, 2, 2, 3, 3, 4])
    multinom = force.get('multinom', rng.random() < 0.4) if fn != 'get_godambe' else False
    log = (rng.random() < 0.3) if fn in ('get_godambe', 'GIM_uncert', 'FIM_uncert') else False
    if log and not force.get('npar'):
        npar = rng.choice([1, 2, 2])          # 160-bit rationals (Qexp/Qln) make the exact model slow: keep log-mode cases small
    shape = rng.choice([[rng.randint(npar + 5, npar + 7)], [rng.randint(npar + 5, npar + 7)], [3, rng.randint(3, 4)]])
    if log:
        shape = [npar + 5]
    nent = int(np.prod(shape))
    eps = force.get('eps') or rng.choice([0.1, 0.05, 0.01, 0.01, 2.0 ** -7, 0.001, 2.0 ** -10, 0.0001])
    pclass = force.get('pclass') or rng.choices(['central', 'zero', 'tiny', 'negative'], weights=[6, 2, 1, 1])[0]
    nested = None
    if fn in ('LRT_adjust', 'Wald_stat', 'score_stat'):
        if npar == 1 and not multinom:
            npar = 2
        nn = rng.randint(1, max(1, npar - 1))
        nested = sorted(rng.sample(range(npar), nn))
    for attempt in range(200):
        Bs = [[lib.dyadic(rng, 0.25, 6, 2) for _ in range(nent)] for _ in range(npar)]
        p0 = [lib.dyadic(rng, 0.5, 3, 3) for _ in range(npar)]
        if log:
            p0 = [x if (x >= 1.25 or x <= 0.875 or x == 1.0) else 1.5 for x in p0]      # ln p * eps stays away from 1e-6
            pclass = 'central'
        special = None
        if pclass != 'central':
            special = rng.choice(nested) if nested else rng.randrange(npar)
            if pclass == 'zero':
                p0[special] = 0.0
            elif pclass == 'tiny':
                p0[special] = rng.randint(1, 1000) / 2.0 ** 30
            else:
                p0[special] = -0.125
                Bs[special] = [lib.dyadic(rng, 0.25, 1, 2) for _ in range(nent)]
        B0 = [lib.dyadic(rng, 0.25, 6, 2) for _ in range(nent)] if (multinom or rng.random() < 0.3) else None
        m = [(B0[i] if B0 else 0.0) + sum(p0[k] * Bs[k][i] for k in range(npar)) for i in range(nent)]
        if min(m) < 0.2:
            continue
        scale = rng.choice([1.0, 4.0, 16.0])
        if multinom:
            mm = [x * scale for x in m]
        else:
            Bs = [[x * scale for x in bk] for bk in Bs]
            B0 = [x * scale for x in B0] if B0 else None
            mm = [x * scale for x in m]
        def noisy(amp):
            return [max(0.0, round(4 * x * (1 + amp * rng.uniform(-1, 1))) / 4.0) for x in mm]
        data = noisy(0.3)
        dim = len(nested) if nested else npar + (1 if multinom else 0)
        nb = force.get('nb') or (0 if fn == 'FIM_uncert' else dim + 1 + rng.randint(0, 1 if log else 2))
        boots = [noisy(0.45) for _ in range(nb)]
        break
    else:
        raise RuntimeError('generator could not produce positive means')
    c = {'op': 'godambe', 'id': cid, 'fn': fn, 'shape': shape, 'Bs': Bs, 'B0': B0, 'p0': p0, 'eps': eps, 'data': data, 'boots': boots,
         'multinom': multinom, 'log': log, 'nested': nested, 'pclass': pclass, 'special': special,
         'func_kind': rng.choice(['closure', 'persistent', 'lambda']), 'pts': [rng.choice([10, 20])]}
    if fn == 'get_godambe' and rng.random() < 0.2:
        c['just_hess'] = True
    if fn in ('get_godambe', 'GIM_uncert', 'LRT_adjust') and not multinom and nb and rng.random() < 0.4:
        c['adjusts'] = [lib.dyadic(rng, 0.75, 1.25, 4) for _ in range(nb)]
    if fn == 'Wald_stat':
        diffs = [lib.dyadic(rng, -0.5, 0.5, 4) or 0.25 for _ in nested]
        if rng.random() < 0.5:
            fp = list(p0)
            for ix, d in zip(nested, diffs):
                fp[ix] = p0[ix] + d
            c['full_params'] = fp
        else:
            c['full_params'] = [p0[ix] + d for ix, d in zip(nested, diffs)]
        c['diffs'] = diffs
    if fn in ('GIM_uncert', 'Wald_stat') and rng.random() < 0.3:
        c['also_plain'] = True
    if rng.random() < 0.2 and nb:
        c['boots_as_arrays'] = True
    if rng.random() < 0.15 and len(shape) == 1:
        em = [False] * nent
        em[rng.randrange(1, nent - 1)] = True
        c['extra_mask'] = em
    return c

# ---- closed forms (numpy; independent of the implementation) -----------------------------------------

def closed_forms(c, r, keep):
    """exact-derivative versions of (H, J, cU) in the coordinates get_godambe differentiates in, and the statistics."""
    npar = len(c['Bs'])
    B = np.array(c['Bs'], dtype=float)[:, keep]                # npar x nent
    x = np.array(c['p0'], dtype=float)
    d = np.array(c['data'], dtype=float)[keep]
    b0 = np.array(c['B0'], dtype=float)[keep] if c.get('B0') else 0.0
    if c['multinom']:
        s = b0 + x @ B
        T = d.sum() / s.sum()
        full = np.concatenate([x, [T]])
        m = T * s
        dm = np.vstack([T * B, s[None, :]])                     # (npar+1) x nent
        d2 = np.zeros((npar + 1, npar + 1, B.shape[1]))
        for k in range(npar):
            d2[k, npar] = B[k]; d2[npar, k] = B[k]
    else:
        full = x
        m = b0 + x @ B
        dm = B
        d2 = np.zeros((npar, npar, B.shape[1]))
    act = list(c['nested']) if c['nested'] else list(range(len(full)))
    xa = full[act]
    dm = dm[act]; d2 = d2[np.ix_(act, act)]
    def grad(dd, a):
        return dm @ (dd / m - a)
    def hess(dd, a):
        return (dm * (dd / m ** 2)) @ dm.T - np.einsum('abi,i->ab', d2, dd / m - a)
    H = hess(d, 1.0)
    g0 = grad(d, 1.0)
    adj = c.get('adjusts') or [1.0] * len(c['boots'])
    gs = [grad(np.array(bt, dtype=float)[keep], a) for bt, a in zip(c['boots'], adj)]
    if c['log']:
        H = np.outer(xa, xa) * H - np.diag(xa * g0)
        gs = [xa * g for g in gs]
    out = {'H': H, 'theta': (full[-1] if c['multinom'] else None)}
    if gs:
        J = sum(np.outer(g, g) for g in gs) / len(gs)
        cU = sum(gs) / len(gs)
        out['J'] = J; out['cU'] = cU
        G = H @ np.linalg.inv(J) @ H
        out['G'] = G
        sg = sum(np.abs(g) for g in gs) / len(gs)          # gradient magnitude without cancellation between bootstraps
        out['scale_cU'] = float(sg.max())
        out['scale_score'] = [float(sg @ np.abs(np.linalg.inv(J)) @ sg), float(sg @ np.abs(np.linalg.inv(H)) @ sg)]
    fn = c['fn']
    if fn == 'GIM_uncert':
        out['val'] = np.sqrt(np.diag(np.linalg.inv(out['G'])))
    elif fn == 'FIM_uncert':
        out['val'] = np.sqrt(np.diag(np.linalg.inv(H)))
    elif fn == 'LRT_adjust':
        out['val'] = np.array([len(act) / np.trace(out['J'] @ np.linalg.inv(H))])
    elif fn == 'Wald_stat':
        dv = np.array(c['diffs'], dtype=float)
        out['val'] = np.array([dv @ out['G'] @ dv, dv @ H @ dv])
    elif fn == 'score_stat':
        out['val'] = np.array([out['cU'] @ np.linalg.inv(out['J']) @ out['cU'], out['cU'] @ np.linalg.inv(H) @ out['cU']])
    elif fn == 'get_godambe':
        out['val'] = None
    out['cond'] = max(np.linalg.cond(H), np.linalg.cond(out['J']) if gs else 1.0)
    out['cond_chain'] = np.linalg.cond(H) * (np.linalg.cond(out['J']) * np.linalg.cond(out['G']) if gs else 1.0)
    out['active'] = xa
    return out

def pdata_text(adj, d, g):
    return '{| pd_adj := %s; pd_d := %s; pd_g := %s |}' % (q(adj), ql(d), ql(g))

def pcase_text(c, r, inner, keep, full_aug):
    Bs_entry = [[c['Bs'][k][i] for k in range(len(c['Bs']))] + ([c['B0'][i]] if c.get('B0') else []) for i in keep]
    nest = 'None'
    if c['nested']:
        nest = 'Some (%s, %s)' % (ql(full_aug), lib.natl(c['nested']))
    adj = inner['adjusts'] or [1.0] * len(c['boots'])
    data = pdata_text(1, [c['data'][i] for i in keep], [r['g_data'][i] for i in keep])
    boots = '[' + '; '.join(pdata_text(a, [bt[i] for i in keep], [g[i] for i in keep])
                            for bt, g, a in zip(c['boots'], r['g_boots'], adj)) + ']'
    if inner['just_hess']:
        boots = '[]'
    jt = 'None' if inner['just_hess'] else 'Some (%s, %s)' % (qll(inner['J']), ql(inner['cU']))
    return ('{| pc_Bs := %s; pc_aug := %s; pc_nest := %s; pc_log := %s; pc_p0 := %s; pc_eps := %s; pc_data := %s; pc_boots := %s; '
            'pc_H := %s; pc_J := %s |}') % (qll(Bs_entry), b(c['multinom']), nest, b(inner['log']), ql(inner['p0']), q(inner['eps']),
                                            data, boots, qll(inner['H']), jt)

def scase_text(kind, H, J, cU, d, vals):
    return '{| sc_kind := %s; sc_H := %s; sc_J := %s; sc_cU := %s; sc_d := %s; sc_vals := %s |}' % (
        nat(kind), qll(H), qll(J), ql(cU), ql(d), ql(vals))

def relerr(a, bb, scale=None):
    """max |a - b| / max |b|   (or entrywise / scale when a scale is given)"""
    a = np.asarray(a, dtype=float).ravel(); bb = np.asarray(bb, dtype=float).ravel()
    if scale is not None:
        return float(np.max(np.abs(a - bb) / np.maximum(np.asarray(scale, dtype=float), 1e-300)))
    s = np.max(np.abs(bb))
    return float(np.max(np.abs(a - bb)) / (s if s > 0 else 1.0))

def central_everywhere(c, inner):
    """are all coordinates get_godambe differentiates in on the central branch (at eps and at eps/2)?"""
    x = [math.log(v) for v in inner['p0']] if inner['log'] else inner['p0']
    return all((not step_rule_py(inner['eps'] / 2, v)[1]) for v in x)

def run_pois_stream(ctx, base):
    """base: generated ops.  Adds the eps/2 twin and (for some) the bootstrap-permuted twin of every op."""
    rng = ctx.rng
    ops = []
    for c in base:
        c = dict(c); c['role'] = 'main'; c['base'] = c['id']
        ops.append(c)
        h = dict(c); h['eps'] = c['eps'] / 2; h['role'] = 'half'
        ops.append(h)
        if len(c['boots']) >= 2 and rng.random() < 0.6:
            perm = list(range(len(c['boots']))); rng.shuffle(perm)
            if perm == sorted(perm):
                perm = perm[1:] + perm[:1]
            pm = dict(c); pm['boots'] = [c['boots'][i] for i in perm]; pm['role'] = 'perm'; pm['perm'] = perm
            if c.get('adjusts'):
                pm['adjusts'] = [c['adjusts'][i] for i in perm]
            ops.append(pm)
    for k, o in enumerate(ops):
        o['id'] = k
    res = lib.run_impl('c19_impl.py', ops, timeout=2400)
    byid = {r['id']: r for r in res}
    groups = {}
    for o in ops:
        groups.setdefault(o['base'], {})[o['role']] = o
    pex, pmeta, tex, tmeta, sex, smeta = [], {}, [], {}, [], {}
    for bid, g in groups.items():
        c = g['main']; r = byid[c['id']]
        ctx.count('B.fn=' + c['fn']); ctx.count('B.npar=%d' % len(c['Bs'])); ctx.count('B.params=' + c['pclass'])
        ctx.count('B.multinom' if c['multinom'] else 'B.explicit theta'); ctx.count('B.log' if c['log'] else 'B.linear params')
        ctx.count('B.eps=%g' % c['eps'])
        failed = [o for o in g.values() if 'error' in byid[o['id']]]
        if failed:
            rr = byid[failed[0]['id']]
            ctx.obligation('B%d %s runs' % (bid, c['fn']), False, 'predicate', rr['error'])
            report(ctx, 'B-error', 'Godambe.%s raised %s on a linear Poisson model' % (c['fn'], rr['error']),
                          data={'stream': 'pois', 'case': failed[0], 'impl': rr})
            continue
        if not r['boot_masks_equal']:
            raise RuntimeError('generator: bootstrap masks differ')
        keep = [i for i, mk in enumerate(r['mask']) if not mk]
        ctx.case(signature=('B', c['fn'], c['Bs'], c['p0'], c['eps'], c['multinom'], c['log'], repr(c['nested'])),
                 sample=samp('B', {'stream': 'B', 'fn': c['fn'], 'p0': c['p0'], 'eps': c['eps'], 'multinom': c['multinom'], 'log': c['log'],
                                   'nested': c['nested'], 'shape': c['shape'], 'Bs': c['Bs'], 'data': c['data'], 'value': r.get('val'),
                                   'inner_H': r['inner'][0]['H']}))
        with np.errstate(all='ignore'):          # an indefinite exact information matrix gives NaN uncertainties: handled below
            cf = closed_forms(c, r, keep)
        # ---- glue predicates
        glue = []
        if c['multinom']:
            if abs(r['theta_opt'] - cf['theta']) > 1e-12 * abs(cf['theta']):
                glue.append('theta_opt %r vs sum(data)/sum(model) %r' % (r['theta_opt'], cf['theta']))
        for inn in r['inner']:
            want_p = list(cf['active'])
            if relerr(inn['p0'], want_p) > 1e-12:
                glue.append('get_godambe received p0 %r, expected %r' % (inn['p0'], want_p))
            if inn['eps'] != c['eps'] or inn['log'] != c['log']:
                glue.append('eps/log not passed through')
            if (inn['adjusts'] or None) != (c.get('adjusts') or None) and not (inn['adjusts'] and all(a == 1.0 for a in inn['adjusts']) and not c.get('adjusts')):
                glue.append('boot_theta_adjusts not passed through: %r' % (inn['adjusts'],))
        if c.get('also_plain') and 'val_plain' in r:
            if r['val_plain'] != r['val'][:len(r['val_plain'])]:
                glue.append('plain return value differs from the adj_and_org/return_GIM one')
        if c['fn'] == 'GIM_uncert':
            if r['ret_G'] != r['inner'][0]['G'] or r['ret_H'] != r['inner'][0]['H']:
                glue.append('GIM_uncert(return_GIM=True) does not return get_godambe\'s matrices')
        if c['fn'] == 'FIM_uncert' and r['ret_H'] != r['inner'][0]['H']:
            glue.append('FIM_uncert(return_FIM=True) does not return the Hessian')
        ok = not glue
        ctx.obligation('B%d %s glue (theta augmentation, arguments, return values)' % (bid, c['fn']), ok, 'predicate', '; '.join(glue))
        if not ok:
            report(ctx, 'B-glue', 'Godambe.%s: %s' % (c['fn'], glue[0]), data={'stream': 'pois', 'case': c, 'impl': r})
        inner = r['inner'][0]
        order = 2 if central_everywhere(c, inner) else 1
        ctx.count('B.order=%d' % order)
        val_finite = finite(r.get('val') or []) and finite(byid[g['half']['id']].get('val') or [])
        # an O(eps^2) (central) or O(eps) (one-sided) perturbation of H may make an ill-conditioned matrix indefinite: NaN uncertainties
        # are a violation only where the allowed error times the condition number is small
        # (away from the optimum the exact observed information of a multinom model can itself be indefinite: closed form NaN too)
        cf_finite = cf.get('val') is None or bool(np.all(np.isfinite(cf['val'])))
        must_be_finite = order == 2 and cf_finite and C_ORDER2 * c['eps'] ** 2 * cf['cond'] < 0.25
        if not finite([inner['H'], inner.get('J', []), inner.get('cU', [])]) or (must_be_finite and not val_finite):
            ctx.obligation('B%d finite results' % bid, False, 'predicate', 'non-finite')
            report(ctx, 'B-nonfinite', 'Godambe.%s returned non-finite values on a well-conditioned linear Poisson model' % c['fn'],
                          data={'stream': 'pois', 'case': c, 'impl': r})
            continue
        if not val_finite:
            ctx.count('B.statistic is NaN (indefinite information matrix: exact one indefinite too, or ill-conditioned within the O(eps^2) allowance); not compared')
        full_aug = list(c['p0']) + ([r['theta_opt']] if c['multinom'] else [])
        # ---- L1: (H, J, cU) against the model over Q
        rh = byid[g['half']['id']]
        nlog = sum(1 for (cc, _, _) in pmeta.values() if cc['log'])
        if c['log'] and nlog >= ctx.pick(3, 40):
            ctx.count('B.log-mode case not sent to the exact model (cost cap)')
        else:
            k = len(pex)
            pex.append((k, pcase_text(c, r, inner, keep, full_aug)))
            pmeta[k] = (c, bid, 'main')
        if not c['log'] and ctx.rng.random() < ctx.pick(0.15, 0.3):
            k = len(pex)
            pex.append((k, pcase_text(g['half'], rh, rh['inner'][0], keep, full_aug)))
            pmeta[k] = (g['half'], bid, 'half')
        # ---- T: truncation error of the model vs the proved closed forms (pure linear model, central branch)
        if not c['multinom'] and not c['log'] and not c['nested'] and c['pclass'] == 'central' and not inner['just_hess'] and not c.get('B0') and len(tex) < ctx.pick(4, 60):
            k = len(tex)
            tex.append((k, pcase_text(c, r, inner, keep, full_aug)))
            tmeta[k] = (c, bid)
        # ---- L2: statistics from the implementation's own matrices
        kindmap = {'GIM_uncert': 1, 'FIM_uncert': 2, 'LRT_adjust': 3, 'Wald_stat': 4, 'score_stat': 5}
        if cf['cond_chain'] < 1e6:
            Jm = inner.get('J') or []; cUm = inner.get('cU') or []
            if not inner['just_hess']:
                k = len(sex); sex.append((k, scase_text(0, inner['H'], Jm, cUm, [], [x for row in inner['G'] for x in row]))); smeta[k] = (c, bid, 'godambe = H J^-1 H')
            if c['fn'] in kindmap and val_finite:
                k = len(sex)
                sex.append((k, scase_text(kindmap[c['fn']], inner['H'], Jm, cUm, c.get('diffs', []), r['val'])))
                smeta[k] = (c, bid, c['fn'])
        else:
            ctx.count('B.ill-conditioned (statistics not compared)')
        # ---- P: implementation vs closed forms at eps and eps/2
        quantities = [('H', inner['H'], rh['inner'][0]['H'], cf['H'], None)]
        if not inner['just_hess']:
            quantities += [('J', inner['J'], rh['inner'][0]['J'], cf['J'], None),
                           ('cU', inner['cU'], rh['inner'][0]['cU'], cf['cU'], cf['scale_cU'])]
        if cf.get('val') is not None and cf['cond'] < 1e5 and val_finite and finite(cf['val'].tolist()):
            quantities.append((c['fn'], r['val'], rh['val'], cf['val'], cf['scale_score'] if c['fn'] == 'score_stat' else np.abs(cf['val'])))
        hmin = min(float(step_rule_py(inner['eps'] / 2, v)[0]) for v in ([math.log(v) for v in inner['p0']] if inner['log'] else inner['p0']))
        Lmag = float(sum(abs(x) for x in r['g_data'])) + float(np.abs(cf['H']).max())
        noise = 1e-13 * (1 + Lmag) / hmin ** 2 / max(1e-300, float(np.abs(cf['H']).max())) * max(1.0, cf['cond'])
        bad = None
        worst = 0.0
        qlog = []
        for name, v1, v2, ex, sc in quantities:
            e1, e2 = relerr(v1, ex, sc), relerr(v2, ex, sc)
            qlog.append((name, e1, e2))
            if order == 2:
                bound = C_ORDER2 * c['eps'] ** 2 * (max(1.0, cf['cond']) if name not in ('H', 'J', 'cU') else 1.0) + noise
                if e1 > 1000 * noise:
                    worst = max(worst, e1 / c['eps'] ** 2 / (max(1.0, cf['cond']) if name not in ('H', 'J', 'cU') else 1.0))
                if e1 > bound:
                    bad = bad or '%s: relative error %.3g at eps=%g exceeds C*eps^2 = %.3g' % (name, e1, c['eps'], bound)
                # halving: the truncation terms of H all have one sign (B > 0), so its error must fall by ~4; in J, cU and the
                # statistics terms of both signs can cancel, so they are tested only where the error has its typical size
                if 1000 * noise < e1 <= 0.1 and e1 > 1e-9 and (name == 'H' or e1 >= 0.5 * c['eps'] ** 2):
                    ctx.count('B.halving test applied (second order)')
                    if e2 > (0.45 if name == 'H' else 0.6) * e1 + 10 * noise:
                        bad = bad or '%s: error %.3g at eps, %.3g at eps/2: not O(eps^2)' % (name, e1, e2)
            else:
                # one-sided stencils (absolute step eps): first order by design, with model-dependent constants and mixed-sign
                # error terms; nothing is required of them here beyond the correspondence with the model (L1, L2)
                ctx.count('B.first-order case: closed form recorded only (%s)' % ('error fell' if e2 < e1 else 'error did not fall'))
        ctx.stats['B.max relative err/eps^2 (central cases, above round-off; statistics / cond)'] = max(ctx.stats.get('B.max relative err/eps^2 (central cases, above round-off; statistics / cond)', 0.0), round(worst, 3))
        ok = bad is None
        ctx.obligation('B%d %s vs closed forms within O(eps^%d), eps and eps/2' % (bid, c['fn'], order), ok, 'predicate', bad or '')
        if not ok:
            report(ctx, 'B-closed-form', 'Godambe.%s on a linear Poisson model does not match its closed form: %s' % (c['fn'], bad),
                          data={'stream': 'pois', 'case': c, 'impl': r, 'impl_half_eps': rh,
                                'closed': {kk: (vv.tolist() if hasattr(vv, 'tolist') else vv) for kk, vv in cf.items()}})
        # ---- O: bootstrap order
        if 'perm' in g:
            rp = byid[g['perm']['id']]
            ip = rp['inner'][0]
            diffs = []
            for name in ('H', 'J', 'cU', 'G'):
                if name in inner:
                    diffs.append((name, relerr(ip[name], inner[name])))
            if r.get('val') is not None:
                diffs.append(('value', relerr(rp['val'], r['val'])))
            lim = 1e-9 * max(1.0, cf['cond'])
            worstp = max(dd for _, dd in diffs)
            ok = worstp <= lim
            ctx.obligation('B%d %s independent of bootstrap order' % (bid, c['fn']), ok, 'predicate', '' if ok else repr(diffs))
            if not ok:
                report(ctx, 'B-boot-order', 'Godambe.%s depends on the order of the bootstraps: %r' % (c['fn'], diffs),
                              data={'stream': 'pois', 'case': g['perm'], 'impl': rp, 'impl_original_order': r})
    # ---- run the Coq sides
    results = ctx.coq_cases('pois', HEADER_Q, pex, '(pcheck %s %s)' % (q(K_ABS), q(REL)),
                            'K=2^-40 x sum|ll terms|/(h_i h_j) + 1e-11 relative', shard=ctx.pick(2, 6), timeout=1800,
                            kind='B/L1: log2(|impl-model| / conditioning scale)')
    nbad = 0
    for k, (c, bid, role) in pmeta.items():
        rr = results.get(k)
        ok = rr is not None and rr[0]
        ctx.obligation('B%d(%s) correspondence get_godambe (H, J, cU) vs model' % (bid, role), ok, 'correspondence', '' if ok else 'coq: %r' % (rr,))
        if not ok:
            nbad += 1
            if nbad <= 3:
                report(ctx, 'B-L1', 'get_godambe (called by %s) disagrees with the model in H, J or cU' % c['fn'],
                              data={'stream': 'pois', 'case': c, 'impl': byid[c['id']], 'coq': rr})
    results = ctx.coq_cases('trunc', HEADER_Q, tex, '(tcheck %s)' % q(Fraction(C_MODEL)),
                            'err(eps) <= %g eps^2 x scale and err(eps/2) <= 0.3 err(eps)' % C_MODEL, shard=ctx.pick(1, 4), timeout=1800,
                            kind='B/T: log2(model truncation error / (eps^2 x scale))')
    for k, (c, bid) in tmeta.items():
        rr = results.get(k)
        ok = rr is not None and rr[0]
        ctx.obligation('B%d model finite differences vs proved closed forms: O(eps^2), halving (exact arithmetic)' % bid, ok, 'correspondence',
                       '' if ok else 'coq: %r' % (rr,))
    results = ctx.coq_cases('stat', HEADER_Q, sex, '(scheck %s)' % q(REL_STAT), '1e-8 relative (x2 for variances), cond(H) cond(J) cond(G) < 1e6', shard=ctx.pick(40, 150),
                            kind='B/L2: log2 relative error of statistics')
    nbad = 0
    for k, (c, bid, what) in smeta.items():
        rr = results.get(k)
        ok = rr is not None and rr[0]
        ctx.obligation('B%d %s = exact linear algebra on the returned (H, J, cU)' % (bid, what), ok, 'correspondence', '' if ok else 'coq: %r' % (rr,))
        if not ok:
            nbad += 1
            if nbad <= 3:
                report(ctx, 'B-L2', 'Godambe.%s: %s is not what the model computes from get_godambe\'s (H, J, cU)' % (c['fn'], what),
                              data={'stream': 'pois', 'case': c, 'impl': byid[c['id']], 'coq': rr})

C_ORDER2 = 60.0      # |stat(eps) - closed| <= C eps^2 (x condition number for the statistics); observed <= 12 eps^2 on the unchanged tree
C_MODEL = 16

# ------------------------------------------------------------------------------------------------------
# (4) stream C: mixture chi-square tail probability

def chi2_closed(x, weights):
    cdf = 0.0
    for dof, w in enumerate(weights):
        if dof == 0:
            cdf += w * (1.0 if x > 0 else 0.0)
        else:
            cdf += w * float(scipy.special.gammainc(dof / 2.0, x / 2.0))
    return 1 - cdf

def run_chi2_stream(ctx, replay_case=None):
    rng = ctx.rng
    wsets = [[0, 1], [0.5, 0.5], [0.25, 0.5, 0.25], [0, 0, 1], [0.125, 0.375, 0.375, 0.125]]
    ops = []
    n = ctx.pick(6, 40)
    for k in range(n):
        w = wsets[k % len(wsets)]
        xs = [float('%.4g' % rng.uniform(0.01, 12)) for _ in range(rng.randint(1, 5))]
        if k % 4 == 0:
            xs[0] = 0.0
        ops.append({'op': 'chi2', 'x': xs, 'weights': w, 'x_as': rng.choice(['list', 'array']), 'default_weights': w == [0, 1] and k % 2 == 0, 'role': 'array'})
        for x in xs:
            ops.append({'op': 'chi2', 'x': x, 'weights': w, 'default_weights': False, 'role': 'scalar', 'of': len(ops) - 1})
    if replay_case is not None:
        ops = [replay_case] + [{'op': 'chi2', 'x': x, 'weights': replay_case['weights'], 'role': 'scalar'} for x in
                               (replay_case['x'] if isinstance(replay_case['x'], list) else [replay_case['x']])]
        ops[0]['role'] = 'array' if isinstance(replay_case['x'], list) else 'scalar'
    for k, o in enumerate(ops):
        o['id'] = k
    res = lib.run_impl('c19_impl.py', ops, timeout=600)
    byid = {r['id']: r for r in res}
    k = 0
    while k < len(ops):
        o = ops[k]; r = byid[o['id']]
        if o['role'] == 'array':
            xs = o['x']
            scal = [byid[ops[k + 1 + t]['id']] for t in range(len(xs))]
            ctx.count('C.array input'); ctx.case(signature=('C', xs, o['weights']), sample=samp('C', {'stream': 'C', 'x': xs, 'weights': o['weights'], 'impl': r.get('val', r.get('error'))}))
            sc_ok = all('error' not in s and s['scalar'] and abs(s['val'][0] - chi2_closed(x, o['weights'])) <= 1e-12 for s, x in zip(scal, xs))
            ctx.obligation('C%d sum_chi2_ppf scalar inputs = closed form' % o['id'], sc_ok, 'predicate', '' if sc_ok else repr(scal))
            if not sc_ok:
                report(ctx, 'C-scalar', 'sum_chi2_ppf(scalar) differs from 1 - sum_d w_d P(chi2_d <= x)', data={'stream': 'chi2', 'case': o, 'impl': scal})
            if 'error' in r:
                known = 'scalar_input' in r['error']
                ctx.obligation('C%d sum_chi2_ppf accepts an array' % o['id'], False, 'predicate', r['error'])
                if known:
                    ctx.obligations[-1]['known_key'] = KEY_CHI2
                if not known or not any(v['key'] == KEY_CHI2 for v in ctx.violations):
                    ctx.violation('sum_chi2_ppf(%r, %r) raised %s while the scalar calls work' % (xs, o['weights'], r['error']),
                                  data={'stream': 'chi2', 'case': {kk: vv for kk, vv in o.items() if kk != 'id'}, 'impl': r},
                                  key=KEY_CHI2 if known else None)
                else:
                    ctx.count('C.further arrays raising the same UnboundLocalError')
            else:
                ok = (not r['scalar']) and len(r['val']) == len(xs) and all('error' not in s and s['val'][0] == v for s, v in zip(scal, r['val']))
                ctx.obligation('C%d sum_chi2_ppf array = scalar results' % o['id'], ok, 'predicate', '' if ok else repr((r, scal)))
                if not ok:
                    report(ctx, 'C-array-vs-scalar', 'sum_chi2_ppf gives different answers for array and scalar input', data={'stream': 'chi2', 'case': o, 'impl': r, 'scalar': scal})
            k += 1 + len(xs)
        else:
            ok = 'error' not in r and r['scalar'] and abs(r['val'][0] - chi2_closed(o['x'], o['weights'])) <= 1e-12
            ctx.obligation('C%d sum_chi2_ppf scalar = closed form' % o['id'], ok, 'predicate', '' if ok else repr(r))
            if not ok:
                report(ctx, 'C-scalar2', 'sum_chi2_ppf(scalar) differs from the closed form', data={'stream': 'chi2', 'case': o, 'impl': r})
            k += 1

# ------------------------------------------------------------------------------------------------------
# (5) stream D: call histories sharing Godambe.cache

def gen_history(rng, hid):
    """2-8 calls on the same spectrum shape / p0 / eps with 2-3 different model functions."""
    fn_pool = ['score_stat', 'LRT_adjust', 'Wald_stat', 'GIM_uncert', 'FIM_uncert', 'get_godambe']
    npar0 = rng.choice([2, 3])
    base = gen_pois_case(rng, 0, fn='score_stat', force={'npar': npar0, 'multinom': False, 'pclass': 'central', 'nb': npar0 + 3,
                                                         'eps': rng.choice([0.01, 0.05, 2.0 ** -7])})
    nent = len(base['data']); npar = len(base['Bs'])
    models = [base['Bs']]
    for _ in range(rng.choice([1, 2])):
        sc = max(max(bk) for bk in base['Bs']) / 6.0
        models.append([[lib.dyadic(rng, 0.25, 6, 2) * sc for _ in range(nent)] for _ in range(npar)])
    ops = []
    for k in range(rng.randint(2, 8)):
        fn = rng.choice(fn_pool)
        o = {kk: vv for kk, vv in base.items() if kk not in ('adjusts', 'full_params', 'diffs', 'also_plain', 'just_hess')}
        o.update({'fn': fn, 'Bs': models[rng.randrange(len(models))], 'keep_cache': k > 0, 'log': False,
                  'multinom': rng.random() < 0.3 if fn not in ('get_godambe',) else False,
                  'func_kind': rng.choice(['closure', 'closure', 'persistent', 'lambda'])})
        o['nested'] = sorted(rng.sample(range(npar), rng.randint(1, npar - 1))) if fn in ('score_stat', 'LRT_adjust', 'Wald_stat') else None
        if fn == 'Wald_stat':
            o['diffs'] = [0.25 for _ in o['nested']]
            o['full_params'] = [base['p0'][ix] + 0.25 for ix in o['nested']]
        ops.append(o)
    return {'hid': hid, 'ops': ops}

def canonical_histories(rng):
    """the patterns in which a per-call function object is created for every call: the closures Godambe itself builds
    (diff_func of LRT_adjust / Wald_stat / score_stat, the multinom lambda) and user lambdas; plus one with long-lived functions"""
    out = []
    def base_ops(npar, shape1d=True):
        bs = gen_pois_case(rng, 0, fn='score_stat', force={'npar': npar, 'multinom': False, 'pclass': 'central', 'nb': npar + 3, 'eps': 0.01})
        bs = {kk: vv for kk, vv in bs.items() if kk not in ('adjusts', 'full_params', 'diffs', 'also_plain', 'just_hess', 'extra_mask', 'boots_as_arrays')}
        nent = len(bs['data'])
        sc = max(max(bk) for bk in bs['Bs']) / 6.0
        other = [[lib.dyadic(rng, 0.25, 6, 2) * sc for _ in range(nent)] for _ in range(npar)]
        return bs, other
    def op(bs, Bs, fn, kind, multinom=False, nested=None, keep=True, **kw):
        o = dict(bs); o.update({'fn': fn, 'Bs': Bs, 'func_kind': kind, 'multinom': multinom, 'nested': nested, 'keep_cache': keep, 'log': False})
        o.update(kw)
        if fn == 'Wald_stat':
            o['diffs'] = [0.25 for _ in nested]; o['full_params'] = [bs['p0'][ix] + 0.25 for ix in nested]
        return o
    bs, other = base_ops(2)
    out.append([op(bs, bs['Bs'], 'score_stat', 'persistent', nested=[1], keep=False), op(bs, other, 'score_stat', 'persistent', nested=[1])])
    bs, other = base_ops(3)
    out.append([op(bs, bs['Bs'], 'LRT_adjust', 'closure', nested=[0, 2], keep=False), op(bs, other, 'Wald_stat', 'closure', nested=[0, 2])])
    bs, other = base_ops(2)
    bs['B0'] = bs.get('B0') or [lib.dyadic(rng, 0.25, 6, 2) for _ in bs['data']]
    if len(bs['shape']) == 1:
        rev = lambda v: list(reversed(v))
    else:
        rev = lambda v: list(reversed(v))          # flattened C-order reversal = 180 degree rotation: corners map to corners
    o1 = op(bs, bs['Bs'], 'GIM_uncert', 'persistent', multinom=True, keep=False)
    o2 = op(bs, [rev(bk) for bk in bs['Bs']], 'GIM_uncert', 'persistent', multinom=True)
    o2['B0'] = rev(bs['B0'])
    o2['data'] = bs['data']
    # same sum over the unmasked entries => same theta_opt => same cache key apart from the function
    out.append([o1, o2])
    bs, other = base_ops(2)
    out.append([op(bs, bs['Bs'], 'FIM_uncert', 'lambda', keep=False), op(bs, other, 'FIM_uncert', 'lambda')])
    bs, other = base_ops(2)
    out.append([op(bs, bs['Bs'], 'get_godambe', 'persistent', keep=False), op(bs, other, 'get_godambe', 'persistent'),
                op(bs, bs['Bs'], 'FIM_uncert', 'persistent'), op(bs, other, 'GIM_uncert', 'persistent')])
    return [{'hid': 100 + k, 'ops': ops} for k, ops in enumerate(out)]

def digest(res):
    if res[0] == 'error':
        return res[1]
    return res[0] if res[0] is not None else {'hess[0][0]': res[1][0][0]}

def result_of(r):
    if 'error' in r:
        return ('error', r['error'])
    inn = r['inner'][0]
    return (r.get('val'), inn['H'], inn.get('J'), inn.get('cU'))

def same_result(a, bb):
    if a[0] == 'error' or bb[0] == 'error':
        return a == bb
    for x, y in zip(a, bb):
        if (x is None) != (y is None):
            return False
        if x is not None and not finite([x, y]):
            if x != y:
                return False
        elif x is not None and relerr(x, y) > 1e-12:
            return False
    return True

def run_histories(hists, fresh):
    """hists: list of op lists; all run in ONE interpreter (each history starts by clearing Godambe.cache, so histories do not
    see each other).  fresh=True: the cache is cleared before every call.  -> list of result lists"""
    flat = []
    for hi, ops in enumerate(hists):
        for k, o in enumerate(ops):
            o = dict(o); o['id'] = len(flat); o['keep_cache'] = False if (fresh or k == 0) else True
            flat.append((hi, o))
    if not flat:
        return []
    res = lib.run_impl('c19_impl.py', [o for _, o in flat], timeout=2400)
    byid = {r['id']: r for r in res}
    out = [[] for _ in hists]
    for hi, o in flat:
        out[hi].append(result_of(byid[o['id']]))
    return out

def run_history_stream(ctx, histories):
    allops = [h['ops'] for h in histories]
    got_all = run_histories(allops, fresh=False)
    ref_all = run_histories(allops, fresh=True)
    failing = []
    for h, got, ref in zip(histories, got_all, ref_all):
        ops = h['ops']
        ctx.count('D.histories'); ctx.count('D.calls', len(ops))
        ctx.case(signature=('D', [(o['fn'], o['Bs'][0][:3], o['func_kind'], o['multinom']) for o in ops]),
                 sample=samp('D', {'stream': 'D', 'calls': [(o['fn'], o['func_kind'], o['multinom']) for o in ops], 'values': [digest(x) for x in got]}))
        badk = [k for k in range(len(ops)) if not same_result(got[k], ref[k])]
        ok = not badk
        ctx.obligation('D%d every call of the history returns what it returns on an empty cache' % h['hid'], ok, 'predicate',
                       '' if ok else 'calls %r differ' % badk)
        if not ok:
            ctx.obligations[-1]['known_key'] = KEY_CACHE
            failing.append((h, got, ref, badk[0], len(ctx.obligations) - 1))
    # shrink: an earlier single call followed by the first failing one
    pairs, owner = [], []
    for fi, (h, got, ref, k, _) in enumerate(failing):
        for j in range(k):
            pairs.append([h['ops'][j], h['ops'][k]]); owner.append((fi, j))
    pres = run_histories(pairs, fresh=False)
    small = {}
    for (fi, j), pr in zip(owner, pres):
        h, got, ref, k, _ = failing[fi]
        if fi not in small and not same_result(pr[1], ref[k]):
            small[fi] = ([dict(h['ops'][j], keep_cache=False), dict(h['ops'][k], keep_cache=True)], pr[1])
    reported = 0
    for fi, (h, got, ref, k, obi) in enumerate(failing):
        if fi in small:
            rep, wrong = small[fi]
        else:
            rep, wrong = [dict(o) for o in h['ops'][:k + 1]], got[k]
        # a stale hit: the wrong answer is built from an earlier call's spectra (reproduced by a two-call history)
        stale = fi in small or any(got[k][0] != 'error' and ref[j][0] != 'error' and got[k][1] == ref[j][1] for j in range(k))
        if not stale:
            ctx.obligations[obi].pop('known_key', None)
            report(ctx, 'D-other', 'history-dependent result that is not a stale cache hit: call %d (%s) of a %d-call history' % (k, h['ops'][k]['fn'], len(h['ops'])),
                          data={'stream': 'history', 'ops': rep})
        elif reported < 1:
            # make sure the replay input reproduces in an interpreter of its own (allocation patterns differ from the batch)
            cands = [[dict(h['ops'][j], keep_cache=False), dict(h['ops'][k], keep_cache=True)] for j in range(k)] + [[dict(o) for o in h['ops'][:k + 1]]]
            if fi in small:
                cands.insert(0, rep)
            for cand in cands:
                alone = run_histories([cand], fresh=False)[0]
                if not same_result(alone[-1], ref[k]):
                    rep, wrong = cand, alone[-1]
                    break
            else:
                ctx.notes.append('the stale hit of history %d was seen in the batch run only; replay input is the whole history' % h['hid'])
            first, last = rep[0], rep[-1]
            ctx.violation('Godambe.%s after Godambe.%s with a different model function (same p0, ns, pts) returns %r instead of %r: '
                          'Godambe.cache is keyed by func_ex.__hash__() and the id of a collected closure is reused' % (
                              last['fn'], first['fn'], digest(wrong), digest(ref[k])),
                          data={'stream': 'history', 'ops': rep, 'got': digest(wrong), 'on_empty_cache': digest(ref[k])}, key=KEY_CACHE)
            reported += 1
        else:
            ctx.count('D.further histories with a stale cache hit')

# ------------------------------------------------------------------------------------------------------

def run(ctx):
    ctx.rule = ('A: polynomial (constant + monomials a*p_k + a*p_k*p_l, dyadic coefficients) in 1-5 parameters; each parameter drawn from '
                '{regular, zero, tiny (p*eps<1e-7), negative, p*eps=2e-6, p*eps=5e-7}; eps from {0.1,0.05,0.01,1e-3,1e-4,2^-4,2^-7,2^-10,2^-13} or log-uniform; '
                'get_hess+get_grad or direct hessian_elem with arbitrary signed steps / flags.  B: linear Poisson model (1-4 spectra B_k, 1-D or 2-D, dyadic), '
                'p0 central or with one zero/tiny/negative parameter, data and bootstraps = noisy means on a 1/4 grid, function in '
                '{get_godambe,GIM_uncert,FIM_uncert,LRT_adjust,Wald_stat,score_stat} x multinom x log x nested subsets x theta adjusts; every op also at eps/2 and, '
                'for 60%, with permuted bootstraps.  C: sum_chi2_ppf on scalars and arrays.  D: histories of 2-8 calls with 2-3 model functions on one cache. '
                'distinct = distinct generated input; non-trivial = every case (all have >= 1 parameter and evaluate >= 3 stencil points)')
    ctx.assumptions += [
        'float64 results are compared with the exact-rational model at K=2^-40 x (sum of |terms| of the function) / (h_i h_j) + 1e-11 relative: round-off of a second difference scales with 1/h^2',
        'Qln/Qexp are rational approximations with relative error < 2^-100',
        'the O(eps^2) agreement with the closed forms is NOT proved: it is checked at eps and eps/2 (model in exact arithmetic: err <= %g eps^2 x scale and ratio <= 0.3; implementation: err <= %g eps^2 (x cond for statistics) and ratio <= 0.45 where the error is above round-off and below 0.1)' % (C_MODEL, C_ORDER2),
        'parameters on the one-sided branch (zero, tiny, negative; in log mode p <= 1) make the stencils first order: no closed-form agreement is required there, only correspondence with the model',
        'scipy.special.gammainc is the reference for the chi-square distribution function',
    ]
    ctx.trusted += ['harness/translate/stencil.py (symbolic execution of hessian_elem / get_grad / step-size loops into Coq terms; fail-closed)',
                    'numpy assembly in get_godambe (outer, dot, inv) and Spectrum masking are covered by execution only']
    if ctx.replay:
        rp = json.load(open(ctx.replay))
        inp = rp.get('input') or {}
        st = inp.get('stream')
        if st == 'hess':
            c = inp['case']; c['id'] = 0
            run_hess_stream(ctx, [c]); return
        if st == 'pois':
            c = dict(inp['case']); c['id'] = 0; c.pop('role', None); c.pop('perm', None)
            run_pois_stream(ctx, [c]); return
        if st == 'chi2':
            run_chi2_stream(ctx, replay_case=dict(inp['case'], op='chi2')); return
        if st == 'history':
            run_history_stream(ctx, [{'hid': 0, 'ops': inp['ops']}]); return
    import time
    t = time.time()
    translator_obligations(ctx); ctx.notes.append('translator %.1fs' % (time.time() - t)); t = time.time()
    run_hess_stream(ctx, gen_hess_cases(ctx)); ctx.notes.append('stream A %.1fs' % (time.time() - t)); t = time.time()
    nB = ctx.pick(30, 300)
    base = []
    for k in range(nB):
        fn = FNS[k % len(FNS)]
        base.append(gen_pois_case(ctx.rng, k, fn=fn))
    run_pois_stream(ctx, base); ctx.notes.append('stream B %.1fs' % (time.time() - t)); t = time.time()
    run_chi2_stream(ctx)
    run_history_stream(ctx, canonical_histories(ctx.rng) + [gen_history(ctx.rng, h) for h in range(ctx.pick(4, 60))]); ctx.notes.append('streams C, D %.1fs' % (time.time() - t))
