"""C03 -- the ARGUMENT TYPES, CONTAINERS and LAYOUTS the API accepts.

The property quantifies over the VALUE of nu, theta0, gamma, m, T, the density and the grid -- not over the Python / numpy type that
carries the value.  Every other generator of C03 hands the library python floats and fresh C-contiguous float64 arrays.  A source change
whose effect depends on the type (an array allocated with a dtype inferred from nu*theta0 -> int64 when both are whole numbers written as
ints; `isinstance(x, float)`; `//`; an in-place operation on an integer array; a raw-buffer access that assumes contiguity) is invisible
there, although the identities of the property then FAIL for ordinary users: one side of each identity naturally carries floats
(theta0/c, c*nu with fractional c) and the other side the user's whole numbers.

On EVERY run (the lists below are enumerated, not sampled; only the values / grids are drawn from the seed), for every entry point the
property covers -- PhiManip.phi_1D / phi_1D_genic / phi_1D_snm, Integration.one_pop .. five_pops (constants and functions of time),
Integration._inject_mutations_1D..5D, Integration._compute_dt, whole models up to Spectrum.from_phi --

  (a) numbers    every numeric argument in every type of NUM_TYPES: all arguments at once, every single argument, and (equilibrium densities)
                 EVERY non-empty subset of the arguments; positional / keyword spelling; arguments left at their default vs the default
                 value written out in every type;
  (b) containers the grid as list / tuple / float32 / longdouble / object / masked array and as padded / strided / reversed-memory view; the
                 density as masked array / ndarray subclass / Fortran-ordered / transposed / strided / negatively strided view; ms of
                 _compute_dt as list / tuple / ndarray; ns of from_phi as list / tuple / ndarray / numpy integers;
  (c) re-use     the SAME argument objects handed over twice ('again': bit-identical), and every argument object unchanged afterwards.

Required of every variant (same VALUES as a canonical call made with python floats and fresh float64 arrays):
  * the property predicates on the variant itself, with the NATURAL typing of a user (a whole value is written in the variant's type,
    a fractional value -- theta0/c, gamma/c -- as a python float):
        linearity   F(.., a*t1 + b*t2) = a F(.., t1) + b F(.., t2)        a, b, t1, t2 whole, all in the variant's type        (1e-10)
        rescaling   F(c nu, theta0/c, gamma/c, m/c, c T) = F(nu, theta0, gamma, m, T)     c in RESCALE                   (1e-12 / 1e-9)
    -> a failing input of C03 proper;
  * the same result as the canonical call within TOL_SAME of the largest entry (observed on the unchanged tree: bit-identical, float32
    scalars aside);
  * the caller's objects unchanged, a second call with the same objects bit-identical.
A rotating selection of the typed driver calls goes through the correspondence with the Coq model (c03.run, like every driver case).

WHAT THE UNCHANGED LIBRARY ACCEPTS (established by running it, a9ecc98; rebuild aid: `C03_TYPES_DISCOVER=<file> ./check C03` writes the outcome
of every spelling).  accept() below is that table; 'same' = runs and must agree, 'maybe' = may raise (then only counted; when it runs it
must agree), 'count' = runs but is legitimately different or meaningless (only counted):
  * numbers, every entry point: python int, bool (values 0 / 1), numpy.int64 / int32 / bool_ / float64: 'same'.
      numpy.float32 scalars: 'count' for the integrators, _compute_dt and whole models (numpy 2 promotion turns the time-step arithmetic into
      float32, as in C04); 'same' at 2e-6 for the equilibrium densities and _inject_mutations (whole values: the only float32 operation is the
      exact product / quotient of small integers ... the genic shapes evaluate exp in float32).
      0-d arrays: 'maybe' for the integrators (Misc.ensure_1arg_func / numpy.isscalar -> ValueError for nu, gamma, h, m, theta0, beta; T
      accepted); 'same' for the equilibrium densities, _inject_mutations and _compute_dt.
  * grid of the equilibrium densities: list / tuple are REJECTED (`0*xx` is an empty list, `1-xx` a TypeError) -> 'maybe'; object arrays
      'maybe' (numpy.expm1 on objects); float32 grids 'count' (the density is then computed in float32); longdouble 'maybe' (the quadrature of
      the dominance branch refuses float128; elsewhere it runs and agrees at 1e-12); masked array and every memory layout 'same'.
      A longdouble grid at the head of a WHOLE MODEL is not generated: phi_1D then returns a float128 density and the compiled integrators
      read its buffer as raw doubles (garbage on the unchanged tree).
  * grid of the integrators / from_phi: every container 'same' (numpy.ascontiguousarray(xx, dtype=float)).
  * density of the integrators: masked array, ndarray subclass and every memory layout 'same'; other dtypes are not generated (the compiled
      wrappers read the buffer as raw doubles).
"""
import itertools, json, math, os, random, threading
from harness import lib, numgen

TOL_SAME = 1e-12
TOL_F32 = 2e-6
TOL_LINEAR = 1e-10
TOL_RESCALE_POW2 = 1e-12
TOL_RESCALE = 1e-9

INT_TYPES = ['int', 'np.int64', 'np.int32', '0d-int']
BOOL_TYPES = ['bool', 'np.bool_']
FLOAT_TYPES = ['np.float64', '0d-float', 'np.float32']
NUM_TYPES = INT_TYPES + BOOL_TYPES + FLOAT_TYPES
GRID_TYPES = ['list', 'tuple', 'float32', 'longdouble', 'object', 'ma']
XLAYOUTS = ['pad', 'step', 'neg', 'negstep']
PHI_TYPES = ['ma', 'subclass']
NS_TYPES = ['tuple', 'ndarray', 'np.int64-list', 'np.int32-tuple']
RESCALE = [2.0, 0.5, 0.4, 7.0]
DRIVERS = ['', 'one_pop', 'two_pops', 'three_pops', 'four_pops', 'five_pops']

def ispow2(k):
    return k > 0 and math.log2(k) == int(math.log2(k))

def whole(v):
    return float(v) == int(v)

def spell(ty, v):
    """the type in which a user of the type ty writes the value v (None = python float as the harness sends it)"""
    if ty is None:
        return None
    if ty in FLOAT_TYPES or ty == 'float':
        return ty
    if not whole(v):
        return None
    if ty in BOOL_TYPES and v not in (0, 1):
        return 'int' if ty == 'bool' else 'np.int64'
    return ty

def accept(entry, what, ty):
    """entry: 'eq' | 'driver' | 'inject' | 'compute_dt' | 'program'; what: 'num' | 'grid' | 'xlayout' | 'phi' | 'layout' | 'ns' | 'call'"""
    if what == 'num':
        if ty == 'np.float32':
            return 'f32' if entry in ('eq', 'inject') else 'count'
        if ty in ('0d-int', '0d-float'):
            return 'maybe' if entry in ('driver', 'program') else 'same'
        return 'same'
    if what == 'grid':
        if entry == 'eq':
            return {'list': 'maybe', 'tuple': 'maybe', 'object': 'maybe', 'float32': 'count', 'longdouble': 'maybe', 'ma': 'same'}[ty]
        return 'same'
    return 'same'

def worst(*acc):
    for a in ('count', 'maybe', 'f32'):
        if a in acc:
            return a
    return 'same'

# ----------------------------------------------------------------------------------------------------------------------
# a stream = calls + checks

class Stream(object):
    def __init__(self):
        self.calls = []       # call dicts (JSON for the implementation driver) with harness-only fields '_desc', '_accept', '_entry', '_sp'
        self.checks = []      # {'kind': 'same'|'linear'|'rescale', 'idx': [...], 'tol', 'a', 'b', 'c', 'text'}

    def call(self, c, desc, acc='same', sp='canonical'):
        c = dict(c); c['_desc'] = desc; c['_accept'] = acc; c['_sp'] = sp
        self.calls.append(c)
        return len(self.calls) - 1

    def same(self, iv, ic, tol=TOL_SAME):
        self.checks.append({'kind': 'same', 'idx': [iv, ic], 'tol': TOL_F32 if self.calls[iv]['_accept'] == 'f32' else tol})

    def linear(self, a, i1, b, i2, i3, text):
        f32 = any(self.calls[i]['_accept'] == 'f32' for i in (i1, i2, i3))
        self.checks.append({'kind': 'linear', 'idx': [i1, i2, i3], 'a': a, 'b': b, 'tol': TOL_F32 if f32 else TOL_LINEAR, 'text': text})

    def rescale(self, i0, i1, c, tol=None):
        f32 = any(self.calls[i]['_accept'] == 'f32' for i in (i0, i1))
        t = tol if tol is not None else (TOL_RESCALE_POW2 if ispow2(c) else TOL_RESCALE)
        self.checks.append({'kind': 'rescale', 'idx': [i0, i1], 'c': c, 'tol': max(t, TOL_F32) if f32 else t})

# ----------------------------------------------------------------------------------------------------------------------
# (1) the equilibrium densities

EQ_ARGS = {'phi_1D': ['nu', 'theta0', 'gamma', 'h', 'beta'], 'phi_1D_genic': ['nu', 'theta0', 'gamma', 'beta'], 'phi_1D_snm': ['nu', 'theta0', 'beta']}
EQ_DEFAULTS = {'nu': 1.0, 'theta0': 1.0, 'gamma': 0.0, 'h': 0.5, 'beta': 1.0}
EQ_REGIMES = {'phi_1D': ['neutral', 'genic', 'dominance', 'ones'], 'phi_1D_genic': ['neutral', 'genic', 'ones'], 'phi_1D_snm': ['neutral', 'ones']}

def eq_values(rng, fn, regime):
    v = {'nu': float(rng.choice([2, 3, 5])), 'theta0': float(rng.choice([3, 5, 7])), 'gamma': 0.0, 'h': 0.5, 'beta': float(rng.choice([1, 2, 3]))}
    if regime == 'genic':
        v['gamma'] = float(rng.choice([-3, -2, 1, 2]))
    if regime == 'dominance':
        v['gamma'] = float(rng.choice([-3, -2, 1, 2])); v['h'] = float(rng.choice([0, 1]))
    if regime == 'ones':
        v.update(nu=1.0, theta0=1.0, beta=1.0)
    return {k: x for k, x in v.items() if k in EQ_ARGS[fn]}

def eq_types(vals, ty, names):
    """natural typing of the arguments `names`; h = 0.5 has no integer spelling and stays a python float"""
    t = {}
    for k in names:
        s = spell(ty, vals[k])
        if s is not None:
            t[k] = s
    return t

def eq_rescaled(vals, c):
    r = dict(vals, nu=vals['nu'] * c, theta0=vals['theta0'] / c)
    if 'gamma' in r:
        r['gamma'] = vals['gamma'] / c
    return r

def gen_eq(rng, size, S, subsets=True):
    reps = 1 if size == 'quick' else 3
    for fn in ('phi_1D', 'phi_1D_genic', 'phi_1D_snm'):
        for regime in EQ_REGIMES[fn]:
            for rep in range(reps):
                n = rng.choice([9, 11, 13])
                g = numgen.grid(rng, n, kind=rng.choice(['exp', 'quad', 'uniform']))
                vals = eq_values(rng, fn, regime)
                names = [k for k in EQ_ARGS[fn]]
                base = {'kind': 'eq', 'fn': fn, 'grid': g}
                what = '%s(%s) [%s]' % (fn, ', '.join('%s=%g' % (k, vals[k]) for k in names), regime)
                canon = S.call(dict(base, vals=vals), what + ', python floats by keyword')
                a, b = float(rng.choice([2, 3])), float(rng.choice([4, 5]))
                t1, t2 = (1.0, 1.0) if regime == 'ones' else (float(rng.choice([1, 2])), float(rng.choice([3, 5])))
                # --- numbers: every type x every non-empty subset of the arguments (subsets=False: all at once and each alone)
                typable = [k for k in names if whole(vals[k])]
                for ty in NUM_TYPES:
                    acc = accept('eq', 'num', ty)
                    pool = typable if ty not in FLOAT_TYPES else names
                    if subsets:
                        subs = [list(s) for r in range(1, len(pool) + 1) for s in itertools.combinations(pool, r)]
                    else:
                        subs = [list(pool)] + [[k] for k in pool]
                    for cs in subs:
                        t = eq_types(vals, ty, cs)
                        if not t:
                            continue
                        iv = S.call(dict(base, vals=vals, types=t), '%s, %s as %s' % (what, '/'.join(cs), ty), acc, 'eq %s %s' % ('+'.join(cs), ty))
                        S.same(iv, canon)
                    # --- the predicates with the natural typing of a user of that type
                    full = eq_types(vals, ty, pool)
                    if not full:
                        continue
                    def typed(v):
                        return S.call(dict(base, vals=v, types=eq_types(v, ty, pool)), '%s(%s), whole values as %s' % (fn, ', '.join('%s=%g' % (k, v[k]) for k in names), ty), acc, 'eq natural %s' % ty)
                    i1 = typed(dict(vals, theta0=t1)); i2 = typed(dict(vals, theta0=t2)); i3 = typed(dict(vals, theta0=a * t1 + b * t2))
                    S.linear(a, i1, b, i2, i3, 'theta0 = %g*%g + %g*%g' % (a, t1, b, t2))
                    i0 = typed(vals)
                    for c in RESCALE:
                        S.rescale(i0, typed(eq_rescaled(vals, c)), c, tol=1e-7 if (regime == 'dominance' and not ispow2(c)) else None)
                # --- spelling: positional arguments, arguments left at their default
                for ty in (None, 'int', 'np.int64'):
                    for npos in range(1, len(names) + 1):
                        t = eq_types(vals, ty, typable) if ty else {}
                        iv = S.call(dict(base, vals=vals, types=t, positional=npos), '%s, first %d arguments positional, whole values as %s' % (what, npos, ty or 'float'),
                                    'same', 'eq positional %s' % (ty or 'float'))
                        S.same(iv, canon)
                atdef = [k for k in names if vals[k] == EQ_DEFAULTS[k]]
                for r in range(1, len(atdef) + 1):
                    for om in itertools.combinations(atdef, r):
                        for ty in (None, 'int', 'np.int64', 'bool'):
                            rest = [k for k in typable if k not in om]
                            t = eq_types(vals, ty, rest) if ty else {}
                            if ty and not t and rest:
                                continue
                            iv = S.call(dict(base, vals=vals, types=t, omit=list(om)), '%s, %s left at the default, the others as %s' % (what, '/'.join(om), ty or 'float'),
                                        'same', 'eq omitted %s' % (ty or 'float'))
                            S.same(iv, canon)
                # --- containers and layouts of the grid (python floats, and every whole value an int)
                gu = numgen.grid(rng, rng.choice([9, 17]), kind='uniform')      # representable in float32
                cu = {}
                for ty in (None, 'int'):
                    t = eq_types(vals, ty, typable) if ty else {}
                    cu[ty] = S.call(dict(base, grid=gu, vals=vals, types=t), '%s on a uniform grid, whole values as %s' % (what, ty or 'float'), 'same', 'eq natural %s' % (ty or 'float'))
                    for gt in GRID_TYPES:
                        iv = S.call(dict(base, grid=gu, vals=vals, types=t, grid_type=gt), '%s, grid as %s, whole values as %s' % (what, gt, ty or 'float'),
                                    accept('eq', 'grid', gt), 'eq grid %s' % gt)
                        S.same(iv, cu[None])
                    for xl in XLAYOUTS:
                        iv = S.call(dict(base, grid=gu, vals=vals, types=t, xlayout=xl), '%s, grid a %s view, whole values as %s' % (what, xl, ty or 'float'), 'same', 'eq grid view %s' % xl)
                        S.same(iv, cu[None])
                    iv = S.call(dict(base, grid=gu, vals=vals, types=t, xlayout='negstep', grid_type='ma'), '%s, grid a masked negstep view, whole values as %s' % (what, ty or 'float'),
                                'same', 'eq grid view negstep+ma')
                    S.same(iv, cu[None])
                S.same(cu['int'], cu[None])

# ----------------------------------------------------------------------------------------------------------------------
# (2) the integrators

def drv_rescaled(c, k):
    r = json.loads(json.dumps({a: b for a, b in c.items() if not a.startswith('_')}))
    for p in r['pops']:
        p['nu'] = p['nu'] * k; p['gamma'] = p['gamma'] / k; p['ms'] = [m / k for m in p['ms']]
    r['T'] = r['T'] * k
    if 'initial_t' in r:
        r['initial_t'] = r['initial_t'] * k
    r['theta0'] = r['theta0'] / k
    return r

def drv_classes(c):
    d = len(c['shape'])
    cl = {'nu': [p['nu'] for p in c['pops']], 'gamma': [p['gamma'] for p in c['pops']], 'h': [p['h'] for p in c['pops']],
          'theta0': [c['theta0']], 'T': [c['T']], 'initial_t': [c.get('initial_t', 0.0)]}
    if d == 1:
        cl['beta'] = [c['pops'][0].get('beta', 1.0)]
    else:
        cl['m'] = [m for p in c['pops'] for m in p['ms']]
    if 'initial_t' not in c:
        cl.pop('initial_t')
    return cl

def drv_types(c, ty, only=None):
    """natural typing per argument class (c04_impl.integrate types a class as a whole): a class is written in the type when every value
    of it can be"""
    t = {}
    for cls, vs in drv_classes(c).items():
        if only is not None and cls not in only:
            continue
        sp = [spell(ty, v) for v in vs]
        if all(s == ty for s in sp):
            t[cls] = ty
    return t

def drv_desc(c):
    d = len(c['shape'])
    return '%s (%s), nu=%s gamma=%s h=%s m=%s theta0=%g T=%g initial_t=%g' % (
        DRIVERS[d], 'constants' if c['as_func'] is None else 'functions of time', [p['nu'] for p in c['pops']], [p['gamma'] for p in c['pops']],
        [p['h'] for p in c['pops']], [p['ms'] for p in c['pops']], c['theta0'], c['T'], c.get('initial_t', 0.0))

LAYOUTS = lambda d: [('fortran', {'fortran': True}), ('transposed', {'order': list(range(d))[::-1]}), ('negative strides', {'neg': list(range(d))}),
                     ('strided padded', {'step': list(range(d)), 'pad': True}), ('last axis reversed, first strided', {'neg': [d - 1], 'step': [0], 'pad': True})]

def gen_drivers(rng, size, S, dims=range(1, 6), reps=None):
    from harness.props import c04_types, c04
    reps = reps or (1 if size == 'quick' else 2)
    for d in dims:
        for mode in (None, 'const'):
            for rep in range(reps):
                f = None
                canon = c04_types.int_driver(rng, d, f, mode)
                canon = {k: v for k, v in canon.items() if not k.startswith('_')}
                canon['theta0'] = float(rng.choice([2, 3, 5]))
                what = drv_desc(canon)
                ic = S.call(canon, what + ', python floats', 'same')
                classes = list(drv_classes(canon))
                n = canon['shape'][0]
                phi2 = c04.asym_density(rng, n, d)
                a, b = float(rng.choice([2, 3])), float(rng.choice([1, 4]))
                t1, t2 = canon['theta0'], float(rng.choice([1, 4, 7]))
                for ty in NUM_TYPES:
                    acc = accept('driver', 'num', ty)
                    for cs in [classes] + [[c] for c in classes]:
                        t = drv_types(canon, ty, only=cs)
                        if not t:
                            continue
                        iv = S.call(dict(canon, arg_types=t), '%s, %s as %s' % (what, 'all numeric arguments' if len(cs) > 1 else cs[0], ty), acc, 'driver %s %s' % ('all' if len(cs) > 1 else cs[0], ty))
                        S.same(iv, ic)
                    if acc == 'count':
                        continue
                    # the predicates in the natural typing
                    def typed(c):
                        return S.call(dict(c, arg_types=drv_types(c, ty)), '%s, whole values as %s' % (drv_desc(c), ty), acc, 'driver natural %s' % ty)
                    i1 = typed(canon)
                    c2 = dict(canon, phi=phi2, theta0=t2)
                    c3 = dict(canon, phi=[a * x + b * y for x, y in zip(canon['phi'], phi2)], theta0=a * t1 + b * t2)
                    S.linear(a, i1, b, typed(c2), typed(c3), '(phi, theta0) = %g*(phi1, %g) + %g*(phi2, %g)' % (a, t1, b, t2))
                    for k in (RESCALE if d <= 3 else RESCALE[:2] + RESCALE[3:]):
                        S.rescale(i1, typed(drv_rescaled(canon, k)), k)
                # containers and layouts: python floats and every whole value an int
                for ty in (None, 'int'):
                    t = drv_types(canon, ty) if ty else {}
                    sfx = ', whole values as %s' % (ty or 'float')
                    for gt in GRID_TYPES:
                        if gt == 'float32' and not c04_types.f32_exact(canon['grid']):
                            continue
                        S.same(S.call(dict(canon, arg_types=t, grid_type=gt), '%s, grid as %s%s' % (what, gt, sfx), accept('driver', 'grid', gt), 'driver grid %s' % gt), ic)
                    for xl in XLAYOUTS:
                        S.same(S.call(dict(canon, arg_types=t, xlayout=xl), '%s, grid a %s view%s' % (what, xl, sfx), 'same', 'driver grid view %s' % xl), ic)
                    for pt in PHI_TYPES:
                        S.same(S.call(dict(canon, arg_types=t, phi_type=pt), '%s, density as %s%s' % (what, pt, sfx), 'same', 'driver phi %s' % pt), ic)
                    for name, lay in LAYOUTS(d):
                        if d == 1 and name in ('fortran', 'transposed'):
                            continue
                        S.same(S.call(dict(canon, arg_types=t, layout=lay), '%s, density %s%s' % (what, name, sfx), 'same', 'driver layout %s' % name), ic)
                    name, lay = LAYOUTS(d)[-1]
                    S.same(S.call(dict(canon, arg_types=t, layout=lay, phi_type='ma', xlayout='negstep', grid_type='ma'),
                                  '%s, density masked + %s, grid masked negstep view%s' % (what, name, sfx), 'same', 'driver layout combined'), ic)

# ----------------------------------------------------------------------------------------------------------------------
# (3) the mutation influx and the time step

def gen_small(rng, size, S):
    for d in range(1, 6):
        n = 3 if d >= 4 else 5
        g = numgen.grid(rng, n)
        base = {'kind': 'inject', 'shape': [n] * d, 'grid': g, 'phi': numgen.density(rng, n ** d, kind='random'), 'dt': float(rng.choice([1, 2])), 'theta0': float(rng.choice([2, 3]))}
        what = '_inject_mutations_%dD(dt=%g, theta0=%g)' % (d, base['dt'], base['theta0'])
        ic = S.call(base, what + ', python floats')
        a, b, t2 = 2.0, 3.0, 5.0
        for ty in NUM_TYPES:
            acc = accept('inject', 'num', ty)
            for cs in (['dt', 'theta0'], ['dt'], ['theta0']):
                t = {k: spell(ty, base[k]) for k in cs if spell(ty, base[k])}
                S.same(S.call(dict(base, types=t), '%s, %s as %s' % (what, '/'.join(cs), ty), acc, 'inject %s %s' % ('+'.join(cs), ty)), ic)
            # influx linear in theta0: (inject(phi, a t1 + b t2) - phi) = a (inject(phi, t1) - phi) + b (inject(phi, t2) - phi); phi = 0 here
            z = dict(base, phi=[0.0] * (n ** d))
            def typed(th):
                return S.call(dict(z, theta0=th, types={k: spell(ty, v) for k, v in (('dt', z['dt']), ('theta0', th)) if spell(ty, v)}), '_inject_mutations_%dD(phi=0, dt=%g, theta0=%g) as %s' % (d, z['dt'], th, ty), acc, 'inject natural %s' % ty)
            S.linear(a, typed(base['theta0']), b, typed(t2), typed(a * base['theta0'] + b * t2), 'theta0 = %g*%g + %g*%g, phi = 0' % (a, base['theta0'], b, t2))
        for name, lay in LAYOUTS(d):
            if d == 1 and name in ('fortran', 'transposed'):
                continue
            S.same(S.call(dict(base, layout=lay, types={'dt': 'int', 'theta0': 'int'}), '%s as int, density %s' % (what, name), 'same', 'inject layout %s' % name), ic)
    for d in range(1, 6):
        for h in (0.0, 1.0, 0.5):
            base = {'kind': 'compute_dt', 'grid': numgen.grid(rng, 5), 'tf': 1 / 64, 'nu': float(rng.choice([1, 2, 3])), 'gamma': float(rng.choice([-4, -2, 2, 6])), 'h': h,
                    'ms': [float(rng.choice([0, 1, 2])) for _ in range(d - 1)]}
            what = '_compute_dt(nu=%g, ms=%s, gamma=%g, h=%g)' % (base['nu'], base['ms'], base['gamma'], h)
            ic = S.call(base, what + ', python floats')
            for ty in NUM_TYPES:
                acc = accept('compute_dt', 'num', ty)
                pool = [k for k in ('nu', 'gamma', 'h', 'ms') if all(spell(ty, v) == ty for v in (base[k] if k == 'ms' else [base[k]])) and (k != 'ms' or d > 1)]
                for cs in [pool] + [[k] for k in pool]:
                    if not cs:
                        continue
                    for cont in (['list'] if 'ms' not in cs else ['list', 'tuple', 'ndarray']):
                        S.same(S.call(dict(base, types={k: ty for k in cs}, ms_container=cont), '%s, %s as %s, ms a %s' % (what, '/'.join(cs), ty, cont), acc, 'compute_dt %s %s' % ('+'.join(cs), ty)), ic)
                if acc == 'count':
                    continue
                # dt(c nu, m/c, gamma/c) = c dt(nu, m, gamma)  -- as rescale of dt/c
                i0 = S.call(dict(base, types={k: ty for k in pool}), what + ', whole values as %s' % ty, acc, 'compute_dt natural %s' % ty)
                for k in (2.0, 0.5):
                    r = dict(base, nu=base['nu'] * k, gamma=base['gamma'] / k, ms=[m / k for m in base['ms']], tf=base['tf'] / k)
                    pr = [q for q in ('nu', 'gamma', 'h', 'ms') if all(spell(ty, v) == ty for v in (r[q] if q == 'ms' else [r[q]])) and (q != 'ms' or d > 1)]
                    S.rescale(i0, S.call(dict(r, types={q: ty for q in pr}), '_compute_dt(nu=%g, ms=%s, gamma=%g, h=%g) with timescale_factor/%g, whole values as %s' % (r['nu'], r['ms'], r['gamma'], h, k, ty),
                                         acc, 'compute_dt natural %s' % ty), k)

# ----------------------------------------------------------------------------------------------------------------------
# (4) whole models

PROG_CLASSES = ['nu', 'theta0', 'gamma', 'm', 'T', 'beta', 'f']

def gen_program(rng, variant):
    n = rng.choice([7, 8, 9])
    g = numgen.grid(rng, n, kind='uniform' if variant == 2 else rng.choice(['exp', 'quad']))
    theta0 = float(rng.choice([2, 3, 5]))
    gam = 0.0 if variant != 1 else float(rng.choice([-2, 2]))
    eqfn = {0: None, 1: 'phi_1D_genic', 2: 'phi_1D_snm', 3: None}[variant]
    st0 = {'op': 'phi_1D', 'nu': float(rng.choice([2, 3])), 'theta0': theta0, 'gamma': gam, 'h': 0.5}
    if eqfn:
        st0['fn'] = eqfn
    steps = [st0,
             {'op': 'one_pop', 'T': lib.dyadic(rng, 0.02, 0.08, 8) if variant != 3 else 1.0, 'nu': float(rng.choice([2, 3, 4])), 'gamma': gam, 'h': 0.5, 'theta0': theta0},
             {'op': 'split12'},
             {'op': 'two_pops', 'T': lib.dyadic(rng, 0.01, 0.05, 8), 'nu': [float(rng.choice([1, 3])), float(rng.choice([2, 4]))], 'm': [float(rng.choice([0, 1, 2])), float(rng.choice([1, 2]))],
              'gamma': [gam, gam], 'h': [0.5, 0.5], 'theta0': theta0}]
    if variant == 3 and n <= 8:
        steps += [{'op': 'split23'},
                  {'op': 'three_pops', 'T': lib.dyadic(rng, 0.005, 0.02, 8), 'nu': [float(rng.choice([1, 2])) for _ in range(3)], 'm': [float(rng.choice([0, 1])) for _ in range(6)],
                   'gamma': [gam] * 3, 'theta0': theta0},
                  {'op': 'remove', 'k': 3}]
    steps.append({'op': 'from_phi', 'ns': [rng.choice([3, 4, 5]), rng.choice([3, 4])]})
    return {'kind': 'program', 'grid': g, 'tf': 1 / 64, 'steps': steps, 'floats': True}

def prog_map(p, fn):
    r = json.loads(json.dumps({k: v for k, v in p.items() if not k.startswith('_')}))
    for st in r['steps']:
        for key in ('nu', 'T', 'theta0', 'gamma', 'm'):
            if key in st:
                st[key] = [fn(key, v) for v in st[key]] if isinstance(st[key], list) else fn(key, st[key])
    return r

def prog_rescaled(p, k):
    return prog_map(p, lambda key, v: v * k if key in ('nu', 'T') else v / k)

def prog_theta(p, s):
    return prog_map(p, lambda key, v: v * s if key == 'theta0' else v)

def prog_desc(p):
    s0 = p['steps'][0]
    return 'whole model %s; %s(nu=%g, theta0=%g, gamma=%g)' % ('+'.join(s['op'] if s['op'] != 'phi_1D' else (s.get('fn') or 'phi_1D') for s in p['steps']), s0.get('fn') or 'phi_1D', s0['nu'], s0['theta0'], s0['gamma'])

def gen_programs(rng, size, S):
    for variant in ([0, 1, 2, 3] if size == 'quick' else [0, 1, 2, 3, 0, 1, 2, 3]):
        P = gen_program(rng, variant)
        what = prog_desc(P)
        ic = S.call(P, what + ', python floats')
        th = P['steps'][0]['theta0']
        P1 = prog_theta(P, 1.0 / th)
        for ty in NUM_TYPES:
            acc = accept('program', 'num', ty)
            for cs in [PROG_CLASSES, ['nu', 'theta0'], ['nu'], ['theta0']]:
                S.same(S.call(dict(P, num_type=ty, num_classes=cs), '%s, whole %s as %s' % (what, '/'.join(cs) if len(cs) < 5 else 'numbers', ty), acc, 'program %s %s' % ('+'.join(cs) if len(cs) < 5 else 'all', ty)), ic)
            if acc == 'count':
                continue
            def typed(p):
                return S.call(dict(p, num_type=ty, num_classes=PROG_CLASSES), '%s, whole numbers as %s' % (prog_desc(p), ty), acc, 'program natural %s' % ty)
            i0 = typed(P)
            S.linear(th, typed(P1), 0.0, i0, i0, 'spectrum for theta0=%g = %g x spectrum for theta0=1' % (th, th))
            for k in (2.0, 0.4, 7.0):
                S.rescale(i0, typed(prog_rescaled(P, k)), k, tol=TOL_RESCALE)
        for ty in (None, 'int'):
            kw = dict(num_type=ty, num_classes=PROG_CLASSES) if ty else {}
            sfx = ', whole numbers as %s' % (ty or 'float')
            for gt in GRID_TYPES:
                if gt in ('list', 'tuple', 'object', 'float32', 'longdouble'):
                    continue        # the equilibrium density at the head of the model does not accept them (table above); the integrators are covered in (2)
                S.same(S.call(dict(P, grid_type=gt, **kw), '%s, grid as %s%s' % (what, gt, sfx), accept('program', 'grid', gt), 'program grid %s' % gt), ic)
            for xl in XLAYOUTS:
                S.same(S.call(dict(P, xlayout=xl, **kw), '%s, grid a %s view%s' % (what, xl, sfx), 'same', 'program grid view %s' % xl), ic)
            for nt in NS_TYPES:
                S.same(S.call(dict(P, ns_type=nt, **kw), '%s, sample sizes as %s%s' % (what, nt, sfx), 'same', 'program ns %s' % nt), ic)

# ----------------------------------------------------------------------------------------------------------------------
# running and evaluating

def strip(c):
    return {k: v for k, v in c.items() if not k.startswith('_')}

def run_calls(calls, jobs=3):
    from concurrent.futures import ThreadPoolExecutor
    if not calls:
        return []
    flat = [json.loads(json.dumps(strip(c))) for c in calls]
    jobs = max(1, min(jobs, len(flat) // 50 or 1))
    chunks = [flat[i::jobs] for i in range(jobs)]
    with ThreadPoolExecutor(jobs) as ex:
        outs = list(ex.map(lambda ch: lib.run_impl('c03_impl_types.py', ch, timeout=6000), chunks))
    res = [None] * len(flat)
    for j, o in enumerate(outs):
        for i, r in zip(range(j, len(flat), jobs), o):
            res[i] = r
    return res

def reldev(a, b):
    if len(a) != len(b):
        return float('inf')
    if not all(math.isfinite(x) for x in a + b):
        return float('inf')
    s = max(1e-300, max(abs(x) for x in a + b))
    return max(abs(x - y) for x, y in zip(a, b)) / s

def unmasked(rs):
    m = None
    for r in rs:
        if r.get('mask'):
            m = r['mask'] if m is None else [x or y for x, y in zip(m, r['mask'])]
    outs = []
    for r in rs:
        outs.append([x for x, mm in zip(r['res'], m) if not mm] if m else list(r['res']))
    return outs

def check_dev(chk, rs):
    if chk['kind'] in ('same', 'rescale'):
        a, b = unmasked(rs)
        return reldev(a, b)
    u, v, w = unmasked(rs)
    if not (len(u) == len(v) == len(w)):
        return float('inf')
    A, B = chk['a'], chk['b']
    want = [A * x + B * y for x, y in zip(u, v)]
    if not all(math.isfinite(x) for x in want + w):
        return float('inf')
    s = max(1e-300, abs(A) * max(abs(x) for x in u), abs(B) * max(abs(x) for x in v), max(abs(x) for x in w))
    return max(abs(x - y) for x, y in zip(want, w)) / s

def check_text(chk, calls):
    d = [calls[i]['_desc'] if '_desc' in calls[i] else '' for i in chk['idx']]
    if chk['kind'] == 'same':
        return '%s  differs from the same call in canonical types (%s)' % (d[0], d[1])
    if chk['kind'] == 'rescale':
        return '%s  changes when re-expressed relative to a reference size %g times larger (%s)' % (d[0], chk['c'], d[1])
    return 'not linear in theta0 (%s): %s' % (chk['text'], d[2])

def evaluate(ctx, S, res, tag='', max_reports=4, discover=None):
    calls, checks = S.calls, S.checks
    nbad = 0
    skipped = set()
    table = {}
    reports = {'linear': 0, 'rescale': 0, 'same': 0, 'call': 0}
    pending = []
    for i, (c, r) in enumerate(zip(calls, res)):
        acc = c['_accept']
        ent = table.setdefault(c['_sp'], {'n': 0, 'error': 0, 'differs': 0, 'errors': []})
        ent['n'] += 1
        ctx.count('%stypes: %s [%s]' % (tag, c['_sp'], acc))
        if 'error' in r:
            ent['error'] += 1
            if len(ent['errors']) < 2:
                ent['errors'].append(r['error'][:120])
            skipped.add(i)
            if acc in ('maybe', 'count'):
                ctx.count('%stypes: spelling rejected by the library (not compared)' % tag)
                continue
            nbad += 1
            ctx.obligation('%stypes: %s runs' % (tag, c['_desc'][:200]), False, 'predicate', r['error'])
            if reports['call'] < max_reports:
                reports['call'] += 1
                pending.append((2, '%s  fails (%s); the unchanged library accepts this spelling' % (c['_desc'], r['error']),
                                {'types': {'calls': [strip(c)], 'check': {'kind': 'runs', 'idx': [0]}, 'descs': [c['_desc']], 'accepts': [acc]}}))
            continue
        if acc == 'count':
            skipped.add(i)
            continue
        bad = []
        if not r.get('unchanged', True):
            bad.append('an argument object of the caller was modified')
        if not r.get('again', True):
            bad.append('a second call with the same argument objects gives a different result')
        ctx.case(signature=('types call', c['_sp'], i) if c['_sp'] != 'canonical' else None)
        if bad:
            nbad += 1
            ctx.obligation('%stypes: %s leaves its arguments alone and repeats' % (tag, c['_desc'][:200]), False, 'predicate', '; '.join(bad))
            if reports['call'] < max_reports:
                reports['call'] += 1
                pending.append((2, '%s: %s' % (c['_desc'], '; '.join(bad)), {'types': {'calls': [strip(c)], 'check': {'kind': 'runs', 'idx': [0]}, 'descs': [c['_desc']], 'accepts': [acc]}}))
    groups = {}
    for chk in checks:
        idx = chk['idx']
        if any(i in skipped for i in idx):
            ctx.count('%stypes: identity not evaluated (a spelling is rejected / not comparable)' % tag)
            continue
        dev = check_dev(chk, [res[i] for i in idx])
        ok = dev <= chk['tol']
        sp = calls[idx[0]]['_sp'] if chk['kind'] == 'same' else calls[idx[-1]]['_sp']
        ctx.case(signature=('types', chk['kind'], sp, tuple(idx)))
        ctx.count('%stypes: %s' % (tag, {'same': 'same as the canonical call', 'linear': 'linearity in theta0, typed', 'rescale': 'rescaling, natural typing'}[chk['kind']]))
        gk = (chk['kind'], sp)
        gr = groups.setdefault(gk, {'n': 0, 'bad': 0, 'worst': 0.0, 'first': None})
        gr['n'] += 1; gr['worst'] = max(gr['worst'], dev) if dev == dev else float('inf')
        if not ok:
            if chk['kind'] == 'same':
                table[calls[idx[0]]['_sp']]['differs'] += 1
            gr['bad'] += 1; nbad += 1
            if gr['first'] is None:
                gr['first'] = (chk, dev)
    for (kind, sp), gr in sorted(groups.items()):
        ctx.obligation('%stypes: %s [%s] (%d identities)' % (tag, {'same': 'same result as the canonical call', 'linear': 'linear in theta0', 'rescale': 'independent of the reference size'}[kind], sp, gr['n']),
                       gr['bad'] == 0, 'predicate', 'worst rel dev %.3g; %d fail' % (gr['worst'], gr['bad']))
        if gr['first'] is not None and reports[kind] < max_reports:
            reports[kind] += 1
            chk, dev = gr['first']
            idx = chk['idx']
            data = {'types': {'calls': [strip(calls[i]) for i in idx], 'check': dict(chk, idx=list(range(len(idx)))), 'descs': [calls[i]['_desc'] for i in idx],
                              'accepts': [calls[i]['_accept'] for i in idx], 'rel_dev': dev, 'results': [res[i].get('res') for i in idx]}}
            pending.append((0 if kind in ('linear', 'rescale') else 1, '%s%s: rel dev %.3g (tolerance %g)' % (tag, check_text(chk, calls), dev, chk['tol']), data))
    for _, text, data in sorted(pending, key=lambda p: p[0]):
        ctx.violation(text, data=data)
    if discover:
        with open(discover, 'w') as f:
            json.dump({k: v for k, v in sorted(table.items())}, f, indent=1)
    return nbad

# ----------------------------------------------------------------------------------------------------------------------
# the stream of a run

RULE = (' || argument types / containers / layouts (c03_types.py), enumerated on every run: phi_1D / phi_1D_genic / phi_1D_snm (neutral, genic, dominance, all-ones), one_pop .. five_pops '
        '(constants and functions of time), _inject_mutations_1D..5D, _compute_dt and whole models with every numeric argument as python int / bool, numpy int64 / int32 / bool_ / float64 / float32, 0-d '
        'arrays (every subset of the arguments for the equilibrium densities; all at once and one at a time elsewhere), positional / keyword / defaulted spellings, grids as list / tuple / float32 / longdouble / '
        'object / masked / padded / strided / reversed views, densities masked / subclassed / Fortran / transposed / strided / negatively strided, the same objects handed over twice; required: '
        'linearity in theta0 and rescaling c in {2, 1/2, 0.4, 7} in the natural typing of a user (whole values in the type, fractional ones python floats), the result of the canonical call, '
        'arguments unchanged; values whole numbers')

def build(rng, size, what=('eq', 'drivers', 'small', 'programs')):
    S = Stream()
    if 'eq' in what:
        gen_eq(rng, size, S)
    if 'small' in what:
        gen_small(rng, size, S)
    if 'programs' in what:
        gen_programs(rng, size, S)
    if 'drivers' in what:
        gen_drivers(rng, size, S)
    return S

def start(ctx):
    rng = random.Random('C03-types-%d-%s' % (ctx.seed, ctx.tier))
    ctx.rule += RULE
    ctx.assumptions.append('argument types: only spellings the unchanged library accepts are compared (reviewed table accept() in harness/props/c03_types.py, established by running the '
                           'unchanged library); rejected / not comparable spellings are counted; typed variants carry whole-number values so that every number type can hold them')
    h = {'S': build(rng, ctx.tier)}
    def work():
        try:
            h['res'] = run_calls(h['S'].calls)
        except BaseException as e:
            h['error'] = e
    h['thread'] = threading.Thread(target=work, daemon=True)
    h['thread'].start()
    return h

def finish(ctx, h):
    h['thread'].join()
    if 'error' in h:
        raise h['error']
    S = h['S']
    ctx.notes.append('argument types / containers / layouts: %d calls of the implementation, %d identities (same as canonical / linearity / rescaling)' % (len(S.calls), len(S.checks)))
    return evaluate(ctx, S, h['res'], discover=os.environ.get('C03_TYPES_DISCOVER'))

def corr_cases(ctx):
    """typed driver calls for the correspondence with the Coq model (c03.run compares them with dcheck like every other driver case): a rotating
    selection -- per dimension one call with every whole value in one of the integer-like types.  -> list of (case for c04_impl-style typed call, description)"""
    from harness.props import c04_types
    rng = random.Random('C03-types-corr-%d-%s' % (ctx.seed, ctx.tier))
    out = []
    tys = [t for t in INT_TYPES + BOOL_TYPES + ['np.float64'] if accept('driver', 'num', t) == 'same']
    for d in range(1, 6):
        mode = [None, 'const'][(d + ctx.seed) % 2]
        c = c04_types.int_driver(rng, d, None, mode)
        c = {k: v for k, v in c.items() if not k.startswith('_')}
        c.pop('initial_t', None); c['T'] = 1.0             # the model integrates from 0
        ty = tys[(d + ctx.seed) % len(tys)]
        c['arg_types'] = drv_types(c, ty)
        out.append((c, '%s, whole values as %s' % (drv_desc(c), ty)))
    return out

def search(ctx, names):
    """a source / translator obligation is broken and no failing input was found: the stream again at thorough size with fresh values"""
    rng = random.Random('C03-types-search-%d' % ctx.seed)
    S = build(rng, 'thorough')
    res = run_calls(S.calls)
    ctx.notes.append('broken obligation(s) %s: targeted search over the argument types / containers / layouts at thorough size (%d calls, %d identities)' % (
        ', '.join(names)[:200], len(S.calls), len(S.checks)))
    return evaluate(ctx, S, res, tag='search: '), {'ncalls': len(S.calls)}

def replay(ctx, inp):
    t = inp['types']
    calls = [dict(c, _desc=d, _accept=a, _sp='replay') for c, d, a in zip(t['calls'], t.get('descs') or [''] * len(t['calls']), t.get('accepts') or ['same'] * len(t['calls']))]
    res = run_calls(calls, jobs=1)
    chk = t['check']
    ctx.notes.append('replay of a recorded argument-type violation (%d calls)' % len(calls))
    errs = [r['error'] for r in res if 'error' in r]
    bad = [k for r in res if 'error' not in r for k in ('unchanged', 'again') if not r.get(k, True)]
    if chk['kind'] == 'runs' or errs:
        ok = not errs and not bad
        ctx.case(signature=('types replay', 'runs'))
        ctx.obligation('replay: %s' % calls[0]['_desc'][:200], ok, 'predicate', '; '.join(errs + bad))
        if not ok:
            ctx.violation('replay: %s: %s' % (calls[0]['_desc'], '; '.join(errs + bad)), data=inp)
        return
    dev = check_dev(chk, [res[i] for i in chk['idx']])
    ok = dev <= chk['tol']
    ctx.case(signature=('types replay', chk['kind']))
    ctx.obligation('replay: %s' % check_text(chk, calls)[:300], ok, 'predicate', 'rel dev %.3g (tolerance %g)' % (dev, chk['tol']))
    if not ok:
        ctx.violation('replay: %s: rel dev %.3g (tolerance %g)' % (check_text(chk, calls), dev, chk['tol']), data=inp)
