"""C04 -- the argument TYPES the integrators accept.

The property quantifies over "every choice of frozen/nomut flags".  A flag is a truth value: the library tests it with `if frozenK:` /
`not frozenK` / `frozenK and (...)`, so every Python / numpy object with a truth value is a legal way of spelling it, and so are the numeric
arguments in every number type Python and numpy hand around.  The generators of c04.py only ever passed python bools and python floats; a
source change that computes with the flag instead of testing it (`~numpy.array([frozen1, ...])`, `frozen1 is True`, `frozen1 == True`,
`1 - frozen1`, `flags.sum()`) or that dispatches on the type of a number is invisible to them.  This module generates, on EVERY run (the
lists below are enumerated, not sampled):

  (a) flags   for one_pop .. five_pops, both drivers (constants / functions of time), every single frozen population, every type of
              FLAG_TYPES, the flag patterns of FLAG_PATTERNS (all flags in that type; only the frozen one, the others left at their default;
              only the others, the frozen one a python bool; two frozen populations, one in that type and one a python bool); the nomut flags
              of two_pops in every type and value combination; `_inject_mutations_dD` directly with every flag value combination in every type;
              frozen (typed) + migration (typed) must still be rejected;
  (b) numbers nu, gamma, h, m (zero and non-zero), theta0, beta, T, initial_t as python int, numpy.int64, numpy.int32, numpy.float64 (and 0-d
              arrays, see below), all arguments at once and one class at a time, with a frozen population present;
  (c) containers  the grid as list / tuple / float32 / longdouble / object array / masked array, the density as masked array / ndarray
              subclass, for the integrators and for remove_pop / filter_pops.

Every variant is the SAME call as a canonical one (python bools, python floats, float64 ndarrays) with the same values; required:
  * the property predicates themselves on the variant's output (frozen marginal unchanged at interior frequencies, influx only into active
    populations, frozen + migration rejected, remove/filter = trapezoid marginal), which yields a failing input of C04 proper;
  * the same result as the canonical call within 1e-12 of max|phi| (observed: bit-identical on the unchanged tree);
  * a rotating selection of the variants goes through the Coq model (Model/SchemeCheck.v dcheck) like every other driver case.

What the unchanged library (a9ecc98) accepts was established by running it (all d = 1..5, both drivers):
  * flags: every type below is accepted everywhere with bit-identical results ('same');
  * numbers: int / numpy.int64 / numpy.int32 / numpy.float64 'same' for every argument.  0-d arrays are REJECTED for nu, gamma, h, m, theta0,
    beta (Misc.ensure_1arg_func / numpy.isscalar -> ValueError) and accepted for T (0-d int initial_t fails in the 1-D/2-D/3-D constant
    drivers on `current_t += dt`) -> 'maybe': a variant may raise; when it runs it must agree with the canonical call.
    numpy.float32 scalars are NOT compared: under numpy 2 promotion rules they turn the time-step arithmetic into float32 (results differ by
    ~1e-8 legitimately).
  * containers: the grid types below are all converted by the integrators (numpy.ascontiguousarray(xx, dtype=float)) and by numpy.trapz.
    Densities of another dtype than native float64 (float32, int64, longdouble, big-endian) are not comparable: the compiled wrappers read the
    buffer as raw doubles (garbage / crash on the unchanged tree) -- they are not generated.
"""
import itertools, math, struct
from harness import lib, numgen

FLAG_TYPES = ['int', 'float', 'np.bool_', 'np.int64', 'np.int32', 'np.uint8', 'np.float64', '0d-bool', '0d-int', '0d-float']
FLAG_PATTERNS = ['all', 'frozen-only', 'others-only', 'two-frozen']
NUM_SAME = ['int', 'np.int64', 'np.int32', 'np.float64']
NUM_MAYBE = ['0d-float', '0d-int']
NUM_CLASSES = ['nu', 'gamma', 'h', 'm', 'theta0', 'T', 'initial_t']
GRID_TYPES = ['list', 'tuple', 'float32', 'longdouble', 'object', 'ma']
PHI_TYPES = ['ma', 'subclass']
M_TYPES = ['int', 'np.int64', 'np.int32', 'np.float64', '0d-float', '0d-int', 'func']
DRIVERS = ['', 'one_pop', 'two_pops', 'three_pops', 'four_pops', 'five_pops']
TOL_SAME = 1e-12

def accept(cls, ty):
    """'same': the unchanged library runs the call and returns the canonical result; 'maybe': it may raise (then nothing is compared)"""
    if cls == 'flag':
        return 'same'
    if ty in NUM_SAME:
        return 'same'
    if cls == 'T' and ty == '0d-float':
        return 'same'
    return 'maybe'

def f32_exact(g):
    return all(struct.unpack('f', struct.pack('f', v))[0] == v for v in g)

def mode_name(mode):
    return 'constants' if mode is None else 'functions of time'

def _n(d):
    return {1: 6, 2: 5, 3: 4, 4: 4, 5: 3}[d]

def base_driver(rng, d, fz, mode):
    """a driver case in canonical types, populations pairwise different, frozen set fz (no migration to / from a frozen population)"""
    from harness.props import c04
    n = _n(d)
    for attempt in range(50):
        g = numgen.grid(rng, n, kind=rng.choice(['uniform', 'exp', 'quad', 'random']))
        if f32_exact(g):
            break
    else:
        raise RuntimeError('no float32-representable grid')
    pops = [numgen.pop(rng, d) for _ in range(d)]
    c04.distinct_pops(rng, pops, 0.1, 10)
    for i, p in enumerate(pops):
        others = [j for j in range(d) if j != i]
        p['ms'] = [0.0 if (i in fz or j in fz) else lib.dyadic(rng, 0, 4, 3) for j in others]
        p['frozen'] = i in fz
    tf = rng.choice([1 / 64, 1 / 256])
    mv = max(max(0.25 / p['nu'], sum(p['ms']), abs(p['gamma']) * 0.25) for p in pops)
    T = numgen.logdy(rng, 1.2 * tf / mv, 2.8 * tf / mv)
    return {'kind': 'driver', 'shape': [n] * d, 'grid': g, 'pops': pops, 'theta0': lib.dyadic(rng, 0.25, 4, 4), 'tf': tf, 'delj': False,
            'T': T, 'phi': c04.asym_density(rng, n, d), 'as_func': mode, 'theta_slope': 0.0, '_frozen': sorted(fz)}

def int_driver(rng, d, f, mode):
    """a driver case all of whose numeric arguments are integer-valued (held as python floats): every number type can carry them"""
    from harness.props import c04
    n = _n(d)
    # integer T - initial_t is a LONG integration (duration 1, theta0 >= 1): on a grid with a tiny first cell the influx entries grow to ~1e6 times the
    # interior density and the frozen-marginal identity is then only exact to ~1e-10 in float64 (cancellation); the uniform grid keeps them ~1e3
    g = numgen.grid(rng, n, kind='uniform')
    nus = rng.sample([1, 2, 3, 4, 5, 6, 8], d)
    gammas = rng.sample([-3, -2, -1, 1, 2, 3, 4], d)
    pops = []
    for i in range(d):
        others = [j for j in range(d) if j != i]
        ms = [0.0 if (f is not None and (i == f or j == f)) else float(rng.choice([0, 0, 1, 2])) for j in others]
        pops.append({'nu': float(nus[i]), 'gamma': float(gammas[i]), 'h': float(rng.choice([0, 1])), 'beta': float(rng.choice([1, 2])) if d == 1 else 1.0,
                     'ms': ms, 'frozen': i == f, 'nomut': False})
    if d >= 3 and not any(m for p in pops for m in p['ms']):
        free = [i for i in range(d) if i != f]
        pops[free[0]]['ms'][[j for j in range(d) if j != free[0]].index(free[1])] = 1.0
    def mx(p):
        h, ga = p['h'], abs(p['gamma'])
        return max(0.25 / p['nu'], sum(p['ms']), ga * 2 * max(abs(h + (1 - 2 * h) * 0.5) * 0.25, abs(h + (1 - 2 * h) * 0.25) * 0.1875))
    mv = max(mx(p) for p in pops)
    tf = 2.0 ** math.ceil(math.log2(mv / 4))            # duration 1 -> between 2 and 4 time steps (plus a remainder)
    t0 = float(rng.choice([1, 2, 3]))
    return {'kind': 'driver', 'shape': [n] * d, 'grid': g, 'pops': pops, 'theta0': float(rng.choice([1, 2, 3])), 'tf': tf, 'delj': False,
            'T': t0 + 1.0, 'initial_t': t0, 'phi': c04.asym_density(rng, n, d), 'as_func': mode, 'theta_slope': 0.0,
            '_frozen': [] if f is None else [f]}

def flag_vector(d, fz, ty, pattern):
    """per population: the type in which its frozen flag is passed explicitly ('bool' = explicit python bool, None = canonical)"""
    if pattern == 'all':
        return [ty] * d
    if pattern == 'frozen-only':
        return [ty if i in fz else None for i in range(d)]
    if pattern == 'others-only':
        return ['bool' if i in fz else ty for i in range(d)]
    raise ValueError(pattern)

def flag_cases(ctx, rng, dims=range(1, 6), subsets=None, patterns=None, count=True):
    """(a): list of (variant, canonical, description).  subsets: d -> list of frozen sets (default: every single population, and for the
    'two-frozen' pattern the pairs {f, f+1 mod d})"""
    out = []
    for d in dims:
        for mode in (None, 'const'):
            if d == 1:
                for fr in (True, False):
                    canon = base_driver(rng, 1, {0} if fr else set(), mode)
                    canon['_types'] = 'canonical'
                    for ty in FLAG_TYPES:
                        v = dict(canon, flag_types=[ty], _types='frozen=%s(%s)' % (ty, fr), _accept='same')
                        out.append((v, canon, 'one_pop (%s), frozen given as %s(%s)' % (mode_name(mode), ty, fr)))
                        if count:
                            ctx.count('flag type %s d=1' % ty)
                continue
            fsets = (subsets or {}).get(d) or [{f} for f in range(d)]
            for fz in fsets:
                canon = base_driver(rng, d, set(fz), mode)
                canon['_types'] = 'canonical'
                for ty in FLAG_TYPES:
                    for pat in (patterns or FLAG_PATTERNS):
                        if pat == 'two-frozen':
                            continue
                        v = dict(canon, flag_types=flag_vector(d, fz, ty, pat), _accept='same')
                        v['_types'] = 'frozen flags %s' % v['flag_types']
                        out.append((v, canon, '%s (%s), frozen %s, flags passed as %s [%s]' % (DRIVERS[d], mode_name(mode), [i + 1 for i in sorted(fz)], v['flag_types'], pat)))
                        if count:
                            ctx.count('flag type %s d=%d' % (ty, d))
            if d >= 3 and subsets is None and 'two-frozen' in (patterns or FLAG_PATTERNS):
                for f in range(d):
                    fz = {f, (f + 1) % d}
                    canon = base_driver(rng, d, fz, mode)
                    canon['_types'] = 'canonical'
                    for k, ty in enumerate(FLAG_TYPES):
                        # one of the two frozen populations in the type (alternately the first / the last), the other a python bool
                        typed = min(fz) if (k + f) % 2 == 0 else max(fz)
                        fl = [((ty if i == typed else 'bool') if i in fz else None) for i in range(d)]
                        v = dict(canon, flag_types=fl, _accept='same', _types='frozen flags %s' % fl)
                        out.append((v, canon, '%s (%s), frozen %s, flags passed as %s [two-frozen]' % (DRIVERS[d], mode_name(mode), [i + 1 for i in sorted(fz)], fl)))
                        if count:
                            ctx.count('flag type %s d=%d' % (ty, d))
    return out

def nomut_cases(ctx, rng):
    """two_pops nomut flags: every value combination in every type, both drivers; (variant, canonical, description)"""
    out = []
    for mode in (None, 'const'):
        for a, b in itertools.product((False, True), repeat=2):
            canon = base_driver(rng, 2, set(), mode)
            canon['pops'][0]['nomut'] = a; canon['pops'][1]['nomut'] = b
            canon['_types'] = 'canonical'; canon['_nomut'] = [a, b]
            for ty in FLAG_TYPES:
                v = dict(canon, nomut_types=[ty, ty], _accept='same', _types='nomut flags %s' % [ty, ty])
                out.append((v, canon, 'two_pops (%s), nomut1=%s(%s), nomut2=%s(%s)' % (mode_name(mode), ty, a, ty, b)))
                ctx.count('nomut flag type %s' % ty)
            # one typed, one python bool
            ty = FLAG_TYPES[(2 * a + b + (0 if mode is None else 5)) % len(FLAG_TYPES)]
            for nt in ([ty, 'bool'], ['bool', ty]):
                v = dict(canon, nomut_types=nt, _accept='same', _types='nomut flags %s' % nt)
                out.append((v, canon, 'two_pops (%s), nomut flags (%s, %s) passed as %s' % (mode_name(mode), a, b, nt)))
    return out

def number_cases(ctx, rng):
    """(b): (variant, canonical, description)"""
    out = []
    for d in range(1, 6):
        for mi, mode in enumerate((None, 'const')):
            f = None if d == 1 else rng.randrange(d)
            canon = int_driver(rng, d, f, mode)
            canon['_types'] = 'canonical'
            classes = NUM_CLASSES + (['beta'] if d == 1 else [])
            if d == 1:
                classes = [c for c in classes if c != 'm']
            for ty in NUM_SAME + NUM_MAYBE:
                sets = [classes] + [[c] for c in classes]
                for cs in sets:
                    at = {c: ty for c in cs}
                    acc = 'same' if all(accept(c, ty) == 'same' for c in cs) else 'maybe'
                    v = dict(canon, arg_types=at, _accept=acc, _types='%s as %s' % ('/'.join(cs), ty))
                    out.append((v, canon, '%s (%s)%s, %s passed as %s' % (DRIVERS[d], mode_name(mode), '' if f is None else ', population %d frozen' % (f + 1),
                                                                        'all numeric arguments' if len(cs) > 1 else cs[0], ty)))
                    ctx.count('number type %s (%s)' % (ty, acc))
    return out

def container_cases(ctx, rng):
    """(c) for the integrators: (variant, canonical, description)"""
    out = []
    for d in range(1, 6):
        for mode in (None, 'const'):
            f = None if d == 1 else rng.randrange(d)
            canon = base_driver(rng, d, set() if f is None else {f}, mode)
            canon['_types'] = 'canonical'
            vs = [{'grid_type': g} for g in GRID_TYPES] + [{'phi_type': p} for p in PHI_TYPES] + [{'grid_type': 'list', 'phi_type': 'ma'}]
            for kv in vs:
                v = dict(canon, _accept='same', _types=', '.join('%s=%s' % x for x in kv.items()), **kv)
                out.append((v, canon, '%s (%s)%s, %s' % (DRIVERS[d], mode_name(mode), '' if f is None else ', population %d frozen' % (f + 1), v['_types'])))
                ctx.count('container ' + v['_types'])
    return out

def inject_cases(ctx, rng):
    """_inject_mutations_dD with every flag value combination, all flags in one type, and single typed flags among python bools"""
    out = []
    for d in range(2, 6):
        n = 3 if d >= 4 else 4
        g = numgen.grid(rng, n)
        base = {'kind': 'inject', 'shape': [n] * d, 'grid': g, 'phi': numgen.density(rng, n ** d, kind='random'), 'dt': numgen.logdy(rng, 1e-5, 1e-1),
                'theta0': lib.dyadic(rng, 0.25, 4, 4)}
        npos = 4 if d == 2 else d
        for vals in itertools.product((False, True), repeat=npos):
            fr = list(vals[:d]); nm = list(vals[d:]) if d == 2 else [False] * d
            for ty in FLAG_TYPES:
                c = dict(base, frozen=fr, nomut=nm, ftypes=[ty] * d)
                if d == 2:
                    c['ntypes'] = [ty] * d
                out.append(c)
                ctx.count('inject flag type %s d=%d' % (ty, d))
        # one typed flag (true, then false) among python bools
        for k, ty in enumerate(FLAG_TYPES):
            for pos in range(npos):
                for val in (True, False):
                    vals = [(not val) if (i + pos) % 2 else False for i in range(npos)]
                    vals[pos] = val
                    types = ['bool'] * npos; types[pos] = ty
                    c = dict(base, frozen=vals[:d], nomut=(vals[d:] if d == 2 else [False] * d), ftypes=types[:d])
                    if d == 2:
                        c['ntypes'] = types[d:]
                    out.append(c)
    return out

def reject_cases(ctx, rng):
    out = []
    for d in range(2, 6):
        pairs = [(f, i, j) for f in range(d) for i in range(d) for j in range(d) if i != j and f in (i, j)]
        for k, ty in enumerate(FLAG_TYPES):
            f, i, j = pairs[(k * 5 + d) % len(pairs)]
            out.append({'kind': 'reject', 'shape': [3] * d, 'grid': [0.0, 0.5, 1.0], 'frozen': f, 'i': i, 'j': j, 'm': float(rng.choice([1, 2, 3])), 'T': 0.01,
                        'as_func': False, 'ftype': ty})
        for k, mt in enumerate(M_TYPES):
            f, i, j = pairs[(k * 7 + 2 * d + 1) % len(pairs)]
            out.append({'kind': 'reject', 'shape': [3] * d, 'grid': [0.0, 0.5, 1.0], 'frozen': f, 'i': i, 'j': j, 'm': float(rng.choice([1, 2, 3])), 'T': 0.01,
                        'as_func': False, 'mtype': mt, 'ftype': FLAG_TYPES[(k + d) % len(FLAG_TYPES)]})
    return out

def remove_cases(ctx, rng):
    from harness.props import c04
    out = []
    for d in range(2, 6):
        n = 3 if d == 5 else 4
        for attempt in range(50):
            g = numgen.grid(rng, n)
            if f32_exact(g):
                break
        phi = c04.asym_density(rng, n, d)
        vs = [{'grid_type': t} for t in GRID_TYPES] + [{'phi_type': t} for t in PHI_TYPES]
        for li, kv in enumerate(vs):
            keep = sorted(rng.sample(range(1, d + 1), rng.randint(1, d - 1)))
            for c in ({'kind': 'remove', 'op': 'remove_pop', 'shape': [n] * d, 'grid': g, 'phi': phi, 'k': 1 + (li % d)},
                      {'kind': 'remove', 'op': 'filter_pops', 'shape': [n] * d, 'grid': g, 'phi': phi, 'keep': keep}):
                c.update(kv)
                out.append(c)
    return out

# ---- targeted search: the source obligation of an _inject_mutations_dD no longer checks ------------------------------------------------
def search_inject(ctx, rng, d):
    """one 'inject_many' case: every flag value combination x every assignment of {python bool, ty} to the flag positions, ty in FLAG_TYPES"""
    n = 3 if d >= 4 else 4
    g = numgen.grid(rng, n)
    npos = 4 if d == 2 else d
    combos = []; seen = set()
    for vals in itertools.product((False, True), repeat=npos):
        for ty in FLAG_TYPES:
            for sel in itertools.product((False, True), repeat=npos):
                types = tuple(ty if s else 'bool' for s in sel)
                if (vals, types) in seen:
                    continue
                seen.add((vals, types))
                combos.append([list(vals), list(types)])
    return {'kind': 'inject_many', 'shape': [n] * d, 'grid': g, 'phi': numgen.density(rng, n ** d, kind='random'), 'dt': numgen.logdy(rng, 1e-5, 1e-1),
            'theta0': lib.dyadic(rng, 0.25, 4, 4), 'combos': combos}

def search_drivers(ctx, rng, d):
    """driver calls for the dimension whose influx obligation broke: every non-empty proper frozen subset (quick: up to two frozen
    populations) x every flag type x the patterns 'all', 'frozen-only', 'others-only', both drivers"""
    subs = [set(s) for r in range(1, d) for s in itertools.combinations(range(d), r) if not ctx.quick or r <= 2]
    return flag_cases(ctx, rng, dims=[d], subsets={d: subs}, patterns=['all', 'frozen-only', 'others-only'], count=False)

def inject_expected(c, vals):
    """sparse expected change {flat index: amount} of an _inject_mutations_dD call with flag values vals"""
    d = len(c['shape']); g = c['grid']; n = c['shape'][0]
    fr = vals[:d]; nm = vals[d:] if d == 2 else [False] * d
    want = {}
    for k in range(d):
        if fr[k] or nm[k]:
            continue
        want[n ** (d - 1 - k)] = c['dt'] / g[1] * c['theta0'] / 2 * 2 ** d / ((g[2] - g[0]) * g[1] ** (d - 1))
    return want
