"""C06 — splits, admixture, pulses, removal and reordering conserve marginal densities.

Static theorems: coq/theories/Props/C06.v (deposit conserves for every ad-mixed frequency, new-population
marginal exact, pulse preserves the other populations, zero pulse is the identity, acceptance/rejection,
remove = marginalisation, reorder = permutation).
Per run:  (1) translator obligations: `pulse_desc` re-reads every constructor / pulse function of PhiManip.py and
              its descriptor (which proportion goes to which axis, grid deposited on, grid integrated with,
              axis overwritten) is proved equal to the Coq table entry by reflexivity; the index/guard statements
              of _admixture_intermediates are compared verbatim with the modelled ones, its three arithmetic
              lines go through `pyexpr` and are proved equal to the model's frac_lower/frac_upper/norm;
          (2) correspondence: all constructors, all 14 pulse functions, remove/filter/reorder, d = 1..5, against the
              Coq model run on NumD;  (3) the property predicates evaluated directly on the implementation's output.
Densities: the operators are linear and the theorems hold for arbitrary real densities, so every function meets, on
every run, non-negative, sign-changing, half-zero, all-negative, single-cell, ~1e-300 and ~1e300 densities (`density`).
A function whose translator obligation breaks (source rewritten in a shape the translator refuses, or wired
differently from the table) is additionally run on the pool 7 densities x 7 proportion classes x shared / per-axis
grids (`pool_cases`) against the model and the predicates; only when that finds nothing is the broken obligation
reported without a failing input.
Refusal guards (`guard_vectors`, `guard_cases`): which proportion vectors a function refuses is part of the property and of the
model (rejected (desc_args p ps); C06_rejection_characterised, C06_constructor_rejection_characterised, C06_simplex_accepted).  On
every run every pulse function and every constructor with a proportion parameter is called on a systematic list of vectors inside,
on the boundary of, one ulp .. 1e-12 outside, clearly outside (every "first k fine, entry k+1 tips it over" pattern), with negative
entries and with entries above 1; the predicate "ValueError exactly when the modelled guard refuses" is evaluated on the real code
and a disagreement is a failing input of the property (accepting a vector above 1 that the modelled guard refuses, refusing a
simplex vector, or any other difference between the refused set and the modelled one).  The listed finding (pulses into a non-last
population test their helper arguments, not the proportions) is matched by its key only when the modelled guard accepts as well.
Memory layouts and pipelines (`layout_block`, `manip_layout_cases`): the model is a function of the LOGICAL content of a
density; the implementation receives numpy arrays, and PhiManip.reorder_pops hands back a transposed VIEW.  On every run every
constructor / pulse function / remove / filter / reorder is therefore also run on the same logical content held Fortran-ordered,
as a transposed view, with negative strides, as every other cell of a larger NaN-filled array, and as the very object returned
by the step before in the pipelines  reorder_pops -> f,  reorder_pops -> pulse -> remove_pop,  constructor -> reorder_pops -> pulse
(no copy in between: phi = PhiManip.f(phi, ...) as documented).  Every step of a pipeline is one correspondence case (model on
the logical content the step received) and one evaluation of the predicates, plus two layout predicates on the real code:
the result equals the result on a fresh C-contiguous copy of the same content, and reordering commutes with the pulse
(pulse_f(reorder(b)) == reorder(pulse_g(b)) for the permuted pulse g).  The rich pool of an untied function contains all of these.
"""
import itertools, json, math, os
from fractions import Fraction
import numpy as np
from harness import lib, numgen
from harness.lib import q, natl, b, zzl
from harness.translate import pyexpr, pulse_desc

PHIMANIP = os.path.join(lib.REPO, 'dadi', 'PhiManip.py')
TOL = Fraction(1, 10 ** 10)      # correspondence, relative to max |entry|
PTOL = 1e-12                     # property predicates on the implementation, relative to max |entry|

# order = order of pulse_table / cons_table in Model/PhiManip.v (checked by the translator obligations);
# (name, number of populations, destination axis, helper arguments) -- used for generating inputs only
PULSES = [('phi_2D_admix_1_into_2', 2, 1, ['F0']), ('phi_2D_admix_2_into_1', 2, 0, ['R']),
          ('phi_3D_admix_1_and_2_into_3', 3, 2, ['F0', 'F1']), ('phi_3D_admix_1_and_3_into_2', 3, 1, ['F0', 'R']),
          ('phi_3D_admix_2_and_3_into_1', 3, 0, ['R', 'F0']),
          ('phi_4D_admix_into_1', 4, 0, ['R', 'F0', 'F1']), ('phi_4D_admix_into_4', 4, 3, ['F0', 'F1', 'F2']),
          ('phi_4D_admix_into_3', 4, 2, ['F0', 'F1', 'R']), ('phi_4D_admix_into_2', 4, 1, ['F0', 'R', 'F1']),
          ('phi_5D_admix_into_1', 5, 0, ['R', 'F0', 'F1', 'F2']), ('phi_5D_admix_into_2', 5, 1, ['F0', 'R', 'F1', 'F2']),
          ('phi_5D_admix_into_3', 5, 2, ['F0', 'F1', 'R', 'F2']), ('phi_5D_admix_into_4', 5, 3, ['F0', 'F1', 'F2', 'R']),
          ('phi_5D_admix_into_5', 5, 4, ['F0', 'F1', 'F2', 'F3'])]
CONS = [('phi_2D_to_3D_admix', 2, None, ['F0']), ('phi_2D_to_3D_split_1', 2, None, ['Z1']),
        ('phi_2D_to_3D_split_2', 2, None, ['Z0']), ('phi_3D_to_4D', 3, None, ['F0', 'F1']),
        ('phi_4D_to_5D', 4, None, ['F0', 'F1', 'F2'])]
NPROPS = {n: (0 if a[0].startswith('Z') else d - 1) for n, d, _, a in PULSES + CONS}
# pulses that do not pass the destination's own grid everywhere (faithfully modelled; invisible on shared grids)
OTHER_GRID = {'phi_4D_admix_into_4', 'phi_4D_admix_into_3', 'phi_5D_admix_into_2', 'phi_5D_admix_into_3',
              'phi_5D_admix_into_4', 'phi_5D_admix_into_5'}

# ------------------------------------------------------------------------------------------------------------
# translator obligations

COQ_HDR = ('From Coq Require Import String.\nFrom Coq Require Import ZArith Reals List Lra.\n'
           'From Dadi Require Import Base.Num Base.NumR Model.Tridiag Model.Scheme Model.NDSweep Model.PhiManip Model.PhiManipCheck.\n'
           'Import ListNotations. Local Open Scope R_scope.\n')

COQ_HDR_NAT = ('From Coq Require Import String.\nFrom Coq Require Import ZArith List.\n'
               'From Dadi Require Import Base.Num Model.PhiManip Model.PhiManipCheck.\nImport ListNotations.\n')

def translator_obligations(ctx):
    ALL = [n for n, _, _, _ in PULSES + CONS]
    DIM = {n: d for n, d, _, _ in PULSES + CONS}
    untied = {}       # function -> the obligation that no longer ties it to the model
    try:
        tree = pulse_desc.parse(PHIMANIP)
    except (SyntaxError, OSError) as e:
        ctx.obligation('parse dadi/PhiManip.py', False, 'translator', str(e))
        return {n: 'parse dadi/PhiManip.py' for n in ALL}
    files = []
    # (a) _admixture_intermediates
    try:
        arith = pulse_desc.extract_core(tree)
        ctx.obligation('translate _admixture_intermediates: searchsorted / clamps / delz guards are the modelled statements', True, 'translator')
        t = pyexpr.Tr(funcs={})
        t.vars = ['upper_z', 'lower_z', 'ad_z', 'phi', 'delz0', 'delz1', 'delz2', 'frac_lower', 'frac_upper']
        gfl, gfu, gno = t.expr(arith['frac_lower']), t.expr(arith['frac_upper']), t.expr(arith['norm'])
        v = COQ_HDR + '\n'.join([
            'Definition gen_frac_lower (upper_z lower_z ad_z : R) : R := %s.' % gfl,
            'Definition gen_frac_upper (upper_z lower_z ad_z : R) : R := %s.' % gfu,
            'Definition gen_norm (phi frac_lower delz0 delz1 frac_upper delz2 : R) : R := %s.' % gno,
            'Lemma ob_frac_lower : forall (zz : list R) lo up adz, nthF zz up - nthF zz lo <> 0 ->',
            '  gen_frac_lower (nthF zz up) (nthF zz lo) adz = frac_lower zz lo up adz.',
            'Proof. intros zz lo up adz Hd. unfold gen_frac_lower, frac_lower. numR. first [reflexivity | (field; exact Hd)]. Qed.',
            'Lemma ob_frac_upper : forall (zz : list R) lo up adz, nthF zz up - nthF zz lo <> 0 ->',
            '  gen_frac_upper (nthF zz up) (nthF zz lo) adz = frac_upper zz lo up adz.',
            'Proof. intros zz lo up adz Hd. unfold gen_frac_upper, frac_upper. numR. first [reflexivity | (field; exact Hd)]. Qed.',
            'Lemma ob_norm : forall (zz : list R) lo up phi adz, dep_den zz lo up adz <> 0 ->',
            '  gen_norm phi (frac_lower zz lo up adz) (delz0 zz lo) (delz1 zz lo up) (frac_upper zz lo up adz) (delz2 zz up)',
            '  = dep_norm zz lo up phi adz.',
            'Proof. intros zz lo up phi adz Hd. unfold gen_norm, dep_norm. unfold dep_den in *.',
            '  generalize dependent (frac_lower zz lo up adz). generalize dependent (frac_upper zz lo up adz).',
            '  generalize (delz0 zz lo) (delz1 zz lo up) (delz2 zz up). intros d0 d1 d2 fu fl Hd.',
            '  unfold n2 in *. numR. first [reflexivity | (field; exact Hd)]. Qed.', ''])
        files.append(('C06_ob_core_arith', v, 'generated obligation: frac_lower / frac_upper / norm of the source = model (pyexpr, reflexivity|field)'))
    except (pulse_desc.Refuse, pyexpr.Refuse) as e:
        ctx.obligation('translate _admixture_intermediates', False, 'translator', str(e))
        for f in ALL:
            untied.setdefault(f, 'translate _admixture_intermediates')
    # (b) the four helpers: coefficient of each axis, left-to-right sum, proportion test
    for n in (2, 3, 4, 5):
        nm = pulse_desc.HELPERS[n]
        try:
            h = pulse_desc.extract_helper(tree, n)
            ok = h == pulse_desc.expected_helper(n)
            hname = 'translate %s: ad-mixed frequency = f1*x1 + ... + (1-f1-...)*x%d left to right, test %s' % (
                nm, n, 'f1+...>1 raises ValueError' if n >= 3 else 'absent')
            ctx.obligation(hname, ok, 'translator', '' if ok else repr(h))
        except pulse_desc.Refuse as e:
            ok = False
            hname = 'translate %s' % nm
            ctx.obligation(hname, False, 'translator', str(e))
        if not ok:
            for f in ALL:
                if DIM[f] == n:
                    untied.setdefault(f, hname)
    # (c) every pulse function and constructor: descriptor = table entry
    try:
        names = pulse_desc.pulse_names(tree)
        ok = sorted(names) == sorted(n for n, _, _, _ in PULSES)
        ctx.obligation('the phi_*D_admix_* functions of PhiManip.py are exactly the 14 of pulse_table', ok, 'translator',
                       '' if ok else repr(sorted(set(names) ^ set(n for n, _, _, _ in PULSES))))
    except Exception as e:
        ctx.obligation('enumerate pulse functions', False, 'translator', repr(e))
    descs = {}
    admix = None
    def one(table, k, name, fn):
        try:
            d = fn()
            descs[name] = d
            ctx.obligation('translate PhiManip.%s' % name, True, 'translator')
            v = COQ_HDR_NAT + 'Example ob : nth %d %s no_desc = %s.\nProof. reflexivity. Qed.\n' % (k, table, pulse_desc.coq_desc(d))
            files.append(('C06_ob_' + name, v, 'generated obligation: descriptor of %s = %s[%d]  (%s)' % (name, table, k, pulse_desc.coq_desc(d))))
            return d
        except pulse_desc.Refuse as e:
            ctx.obligation('translate PhiManip.%s' % name, False, 'translator', str(e))
            untied.setdefault(name, 'translate PhiManip.%s' % name)
            return None
    for k, (name, d, _, _) in enumerate(PULSES):
        one('pulse_table', k, name, lambda: pulse_desc.extract_pulse(tree, name))
    for k, (name, d, _, _) in enumerate(CONS):
        if 'split' in name:
            continue
        r = one('cons_table', k, name, lambda: pulse_desc.extract_cons(tree, name, d))
        if name == 'phi_2D_to_3D_admix':
            admix = r
    for k, (name, d, _, _) in enumerate(CONS):
        if 'split' in name:
            if admix is None:
                ctx.obligation('translate PhiManip.%s' % name, False, 'translator', 'phi_2D_to_3D_admix was not translated')
                untied.setdefault(name, 'translate PhiManip.%s' % name)
            else:
                one('cons_table', k, name, lambda: pulse_desc.extract_split(tree, name, admix))
    files.append(('C06_ob_tables', COQ_HDR_NAT + 'Example ob : (length pulse_table, length cons_table) = (%d, %d)%%nat.\nProof. reflexivity. Qed.\n' % (len(PULSES), len(CONS)),
                  'generated obligation: table sizes'))
    res = lib.run_case_files([(n, t) for n, t, _ in files], timeout=300)
    for n, t, what in files:
        rc, so, se, secs = res[n]
        ctx.obligation(what, rc == 0, 'translator', se[-400:] if rc else '')
        if rc:
            if n == 'C06_ob_core_arith':
                hit = ALL
            elif n == 'C06_ob_tables':
                hit = []
            else:
                hit = [n[len('C06_ob_'):]]
            for f in hit:
                untied.setdefault(f, what)
    ctx.checker_cmds.append('coqc build/cases/C06_ob_*.v (regenerated from dadi/PhiManip.py)')
    return untied

# ------------------------------------------------------------------------------------------------------------
# generators

def helper_args(pat, ps):
    """floats handed to the helper, evaluated as the source does"""
    out = []
    for a in pat:
        if a == 'R':
            r = 1
            for p in ps:
                r = r - p
            out.append(r)
        elif a[0] == 'Z':
            out.append(int(a[1:]))
        else:
            out.append(ps[int(a[1:])])
    return out

def coefs(pat, ps):
    fs = helper_args(pat, ps)
    r = 1
    for f in fs:
        r = r - f
    return fs + [r]

def corner_adz(pat, ps):
    """ad-mixed frequency at the all-ones corner, in float64, left to right"""
    cs = coefs(pat, ps)
    s = cs[0] * 1.0
    for c in cs[1:]:
        s = s + c * 1.0
    return s

def simplex(rng, m, face=False, bits=7):
    n = 1 << bits
    if m == 0:
        return []
    while True:
        cuts = sorted(rng.randint(0, n) for _ in range(m if not face else m - 1))
        parts = [b_ - a_ for a_, b_ in zip([0] + cuts, cuts + [n])]     # m+1 (or m) non-negative parts summing to n
        ps = [p / n for p in parts[:m]]
        if face and sum(parts[:m]) != n:
            continue
        if not face and sum(parts[:m]) == n:
            continue
        return ps

def props_of(rng, cls, m, pat, grid):
    if m == 0:
        return []
    if cls == 'zero':
        return [0.0] * m
    if cls == 'onehot':
        j = rng.randrange(m)
        return [1.0 if i == j else 0.0 for i in range(m)]
    if cls == 'interior':
        return simplex(rng, m)
    if cls == 'face':
        return simplex(rng, m, face=True)
    if cls == 'ongrid':
        # proportions 1/2, 1/4: on a dyadic (uniform) grid many ad-mixed frequencies are grid points exactly
        ps = [0.0] * m
        for i in rng.sample(range(m), rng.randint(1, m)):
            ps[i] = rng.choice([0.5, 0.25]) if sum(ps) <= 0.5 else 0.0
        return ps
    if cls == 'ulp':
        # non-dyadic proportions whose float64 ad-mixed frequency at the all-ones corner exceeds 1 (or falls below) by one ulp
        best = None
        for _ in range(4000):
            raw = [rng.random() for _ in range(m + 1)]
            s = sum(raw)
            ps = [r / s for r in raw[:m]]
            if rng.random() < 0.3:
                ps[rng.randrange(m)] = 0.0
            if sum(ps) > 1 or any(a < 0 for a in coefs(pat, ps)):
                continue
            if len(pat) >= 2:
                fs = helper_args(pat, ps); t = fs[0]
                for f in fs[1:]:
                    t = t + f
                if t > 1:
                    continue          # float rounding would trip the ValueError: not the class wanted here
            a = corner_adz(pat, ps)
            if a > 1.0:
                return ps
            if a != 1.0 and best is None:
                best = ps
        return best or [0.1] * m
    if cls == 'decimal':
        # decimal proportions (tenths) whose DECIMAL sum is exactly 1: in binary the residual 1 - f1 - f2 ... handed to the helper is a
        # tiny non-zero number of either sign (e.g. 1 - 0.9 - 0.1 = -2.8e-17), so ad-mixed frequencies just below 0 / above 1 occur for
        # vectors the code must accept; negative residuals are preferred
        best = None
        for _ in range(400):
            cuts = sorted(rng.randint(0, 10) for _ in range(m - 1)) if m > 1 else []
            parts = [b_ - a_ for a_, b_ in zip([0] + cuts, cuts + [10])]
            ps = [k / 10 for k in parts]
            if m == 1:
                ps = [rng.choice([0.1, 0.3, 0.7, 0.9])]
            if len(pat) >= 2:
                fs = helper_args(pat, ps); t = fs[0]
                for f in fs[1:]:
                    t = t + f
                if t > 1:
                    continue
            if sum(ps) > 1:
                continue
            cs = coefs(pat, ps)
            if any(-1e-15 < a < 0 for a in cs):
                return ps
            if best is None and any(0 < abs(a) < 1e-15 for a in cs):
                best = ps
        return best or ([0.9, 0.1] + [0.0] * m)[:m]
    if cls == 'above':
        ps = simplex(rng, m, face=True)
        j = rng.randrange(m)
        ps[j] += rng.choice([1 / 64, 0.25, 1.0])
        return ps
    raise ValueError(cls)

CLASSES = ['zero', 'onehot', 'interior', 'face', 'ongrid', 'ulp', 'decimal', 'above']

# densities.  Every operator of PhiManip is linear and the theorems of Props/C06.v are stated for arbitrary real
# densities (dadi's integrators return negative cells routinely), so every function sees every kind on every run.
TINY = 2.0 ** -997      # ~7.5e-301: entries of magnitude 1e-303 .. 6e-300, all normal float64
HUGE = 2.0 ** 996       # ~6.7e299: entries up to 5.4e300; |entry| * 2/min spacing (2^13) * n stays far below 2^1024
DENS = ['pos', 'mixed', 'zeros', 'allneg', 'single', 'tiny', 'huge']
SIGNED = DENS[1:]

def _mag(rng):
    return lib.dyadic(rng, 1 / 256, 8, 8)

def density(rng, n, kind):
    """n dyadic float64 entries.
    pos: non-negative (uniform random / a few spikes / smooth)      mixed: every entry non-zero, both signs present
    zeros: about half exact zeros, the rest of both signs            allneg: negative everywhere
    single: one non-zero cell (either sign)                          tiny / huge: mixed-with-zeros scaled by 2^-997 / 2^996"""
    if kind == 'pos':
        sub = rng.choice(['random', 'random', 'spike', 'smooth'])
        if sub == 'random':
            return [lib.dyadic(rng, 0, 8, 8) for _ in range(n)]
        if sub == 'spike':
            v = [0.0] * n
            for _ in range(max(1, n // 6)):
                v[rng.randrange(n)] = lib.dyadic(rng, 0.5, 16, 6)
            return v
        return [round((1 + (i % 7)) * 64 / (1 + i % 5)) / 64 for i in range(n)]
    if kind == 'allneg':
        return [-_mag(rng) for _ in range(n)]
    if kind == 'single':
        v = [0.0] * n
        v[rng.randrange(n)] = rng.choice([-1, 1]) * _mag(rng)
        return v
    if kind == 'mixed':
        v = [rng.choice([-1, 1]) * _mag(rng) for _ in range(n)]
        forced = rng.sample(range(n), min(n, 2))
        for j, sg in zip(forced, (-1, 1)):
            v[j] = sg * abs(v[j])
        return v
    if kind in ('zeros', 'tiny', 'huge'):
        v = [rng.choice([0.0, rng.choice([-1, 1]) * _mag(rng)]) for _ in range(n)]
        forced = rng.sample(range(n), min(n, 3))
        for j, sg in zip(forced, (-1, 1, 0)):
            v[j] = sg * (abs(v[j]) or _mag(rng))
        sc = {'zeros': 1.0, 'tiny': TINY, 'huge': HUGE}[kind]
        return [x * sc for x in v]
    raise ValueError(kind)


# ------------------------------------------------------------------------------------------------------------
# refusal guards: the proportion test of every pulse function and constructor, on every run
#
# The model's decision for a call is  rejected (desc_args p ps)  (Model/PhiManip.v; characterised for all 14 pulse functions by
# C06_rejection_characterised, for the constructors by C06_constructor_rejection_characterised, and C06_simplex_accepted on the
# simplex).  `model_refuses` is its exact mirror (Fractions); every guard case is also decided by that very Coq term
# (PhiManipCheck.mcheck_guard), and the two are compared (obligation "python mirror of the refusal guard").
# Every guard vector is built so that EVERY float64 operation of the source's test (1 - p0 - p1 ..., then a0 + a1 + ... > 1)
# is exact on it (`float_exact`, checked on every vector): the float test of the source and the exact test of the model then
# decide the same inequality, one ulp above 1 included, and no rounding decides a branch.
U52 = 2.0 ** -52        # one ulp of 1.0: proportions that are multiples of 2^-52 with all partial sums below 2 add exactly

def guard_trace(pat, ps, num):
    """the numbers the source's guard computes, in its order: helper arguments (1 - p0 - p1 - ... left to right), then the
    left-to-right partial sums of the arguments; `num` = float or Fraction"""
    out = []
    args = []
    for a in pat:
        if a == 'R':
            r = num(1)
            for p in ps:
                r = r - num(p); out.append(r)
            args.append(r)
        elif a[0] == 'Z':
            args.append(num(int(a[1:])))
        else:
            args.append(num(ps[int(a[1:])]))
    t = None
    for f in args:
        t = f if t is None else t + f
        out.append(t)
    return args, t, out

def float_exact(pat, ps):
    return [Fraction(x) for x in guard_trace(pat, ps, float)[2]] == guard_trace(pat, ps, Fraction)[2]

def model_refuses(pat, ps):
    """mirror of  rejected (desc_args p ps)  of Model/PhiManip.v: helpers with fewer than two proportion arguments have no
    test; otherwise 1 < left-to-right sum of the helper arguments (exact)"""
    args, t, _ = guard_trace(pat, ps, Fraction)
    return len(args) >= 2 and t > 1

ALL_BUT_ONE = {1: 1.25, 2: 0.75, 3: 0.375, 4: 0.3125}      # m*v > 1 >= (m-1)*v: every m-1 entries are fine, all m are not

def guard_vectors(rng, m, reps=1):
    """(sub-class, proportion vector) for a function with m >= 1 proportion parameters:
    (a) inside the simplex, (b) on its boundary, (c) just outside (1 + one ulp .. 1 + 9e-13, the excess at every position),
    (d) clearly outside in every 'first k entries fine, entry k+1 tips it over' pattern, (e) negative entries, (f) entries > 1"""
    out = []
    def add(sub, ps):
        out.append((sub, [float(x) for x in ps]))
    def e(j, v=1.0):
        return [v if i == j else 0.0 for i in range(m)]
    def face(k=m):
        return simplex(rng, k, face=True)
    def nz(ps):
        return max(range(len(ps)), key=lambda i: ps[i])
    h = 1.0 / (1 << m.bit_length())                    # m*h < 1
    for rep in range(reps):
        # (a) inside
        if rep == 0:
            add('a:inside', [h] * m)
        add('a:inside', simplex(rng, m))
        # (b) boundary: sum exactly 1 (one-hot, interior of the face, faces of the face), the origin, one ulp inside
        if rep == 0:
            add('b:boundary zero', [0.0] * m)
            for j in range(m):
                add('b:boundary one-hot', e(j))
        add('b:boundary sum=1', face())
        for j in range(m if m >= 2 else 0):
            ps = face(m - 1); ps.insert(j, 0.0)
            add('b:boundary sum=1 with a zero entry', ps)
        ps = face(); ps[nz(ps)] -= U52
        add('b:boundary sum=1-ulp', ps)
        # (d) first t entries fine, entry t+1 tips the sum over 1 (later entries zero / positive); prefix summing to exactly 1
        for t in range(m):
            pre = [0.25] * t
            tip = 1.0 - 0.25 * t + 0.125
            add('d:outside entry %d tips, rest zero' % (t + 1), pre + [tip] + [0.0] * (m - t - 1))
            if t < m - 1:
                add('d:outside entry %d tips, rest positive' % (t + 1), pre + [tip] + [0.25] * (m - t - 1))
            if t >= 1:
                add('d:outside first %d sum to 1, entry %d positive' % (t, t + 1), face(t) + [0.25] + [0.0] * (m - t - 1))
        if rep == 0:
            add('d:outside all equal, every %d of them fine' % (m - 1), [ALL_BUT_ONE[m]] * m)
        # (c) just outside: sum = 1 + eps with the excess carried by each position in turn; (d') the same, clearly outside
        for j in range(m):
            for eps in (U52, 2.0 ** -46, 2.0 ** -40):
                ps = face(); ps[j] += eps
                add('c:just outside sum=1+%.1e' % eps, ps)
            add('c:just outside one-hot 1+ulp', e(j, 1.0 + U52))
            for eps in (1 / 64, 0.25):
                ps = face(); ps[j] += eps
                add('d:outside sum=1+%g' % eps, ps)
        # (e) negative entries
        for j in range(m):
            ps = [h] * m; ps[j] = -0.25
            add('e:negative entry, sum<=1', ps)
            ps = face(m - 1) if m >= 2 else []
            ps.insert(j, -U52)
            add('e:negative entry -ulp, others sum to 1', ps)
            if m >= 2:
                o = (j + 1 + rep) % m
                if o == j:
                    o = (j + 1) % m
                ps = [0.25] * m; ps[j] = -0.25; ps[o] = 1.5
                add('e:negative entry, sum>1', ps)
                ps = [0.0] * m; ps[j] = -0.5; ps[o] = 1.25
                add('e:negative entry cancels an entry > 1, sum<=1', ps)
        # (f) entries above 1
        if rep == 0:
            for j in range(m):
                add('f:entry>1', e(j, 1.25))
                add('f:entry>1', e(j, 2.0))
    return out

def guard_cases(rng, quick, op, k, name, d, dest, pat, reps=1):
    """the guard stream of one function: tiny non-negative density (3 points per axis), one shared grid"""
    m = NPROPS[name]
    out = []
    dd = d + (0 if op == 'pulse' else 1)
    nval = 0
    for sub, ps in guard_vectors(rng, m, reps):
        n = 3
        # values are compared with the Coq model on two boundary vectors per function (the classes zero / onehot / interior / face
        # of the main stream cover the rest); every other guard case compares the accept / refuse decision only
        gval = sub == 'b:boundary sum=1-ulp' or (sub == 'b:boundary sum=1 with a zero entry' and nval < 1)
        nval += sub == 'b:boundary sum=1 with a zero entry'
        g = numgen.grid(rng, n)
        grids = [list(g)] * (d + (1 if op == 'cons' else 0))
        out.append(dict(op=op, k=k, fn=name, shape=[n] * d, grids=grids, ps=ps, phi=density(rng, n ** d, 'pos'), cls='guard', gsub=sub,
                        dens='pos', shared=True, dest=dest, pat=pat, guard=True, gval=bool(gval)))
    return out

VALID = ['zero', 'onehot', 'interior', 'face', 'ongrid', 'ulp', 'decimal']      # classes the code must accept

def admix_case(rng, quick, op, k, name, d, dest, pat, cls, dens, shared, **extra):
    """one call of a pulse function / constructor: proportion class x density kind x (shared | per-axis) grids"""
    m = NPROPS[name]
    dd = d + (0 if op == 'pulse' else 1)
    n = npts(rng, dd, quick)
    if shared:
        kind = 'uniform' if cls == 'ongrid' else None
        if kind == 'uniform':
            n = 3 if dd >= 5 else rng.choice([3, 5]) if dd == 4 else 5 if dd == 3 else rng.choice([5, 9])
        g = numgen.grid(rng, n, kind=kind)
        ngr = 1 if m == 0 else d + (1 if op == 'cons' else 0)
        grids = [list(g)] * ngr
    else:
        # per-axis grids of equal length (never used by dadi.Integration; checks that the grid wiring is modelled as written)
        g = None
        ngr = d + (1 if op == 'cons' else 0)
        grids = [numgen.grid(rng, n) for _ in range(ngr)]
        if op == 'cons':
            grids[-1] = numgen.grid(rng, rng.randint(3, n + 2))
    ps = props_of(rng, cls, m, pat, g)
    c = dict(op=op, k=k, fn=name, shape=[n] * d, grids=grids, ps=ps, phi=density(rng, n ** d, dens), cls=cls, dens=dens,
             shared=shared, dest=dest, pat=pat)
    c.update(extra)
    return c

def pool_cases(rng, quick, op, k, name, d, dest, pat, reps=1):
    """the rich pool run on a function whose source is no longer recognised by the translator:
    7 densities x 7 proportion classes x (shared | per-axis) grids"""
    out = []
    m = NPROPS[name]
    for rep in range(reps):
        for dens in DENS:
            for cls in (CLASSES if m > 0 else ['zero']):
                for shared in ((True, False) if m > 0 else (True,)):
                    out.append(admix_case(rng, quick, op, k, name, d, dest, pat, cls, dens, shared, pool=True))
    return out

def npts(rng, d, quick):
    return {1: rng.randint(4, 8), 2: rng.randint(4, 8), 3: rng.randint(4, 6 if quick else 7),
            4: rng.randint(3, 4 if quick else 5), 5: rng.randint(3, 3 if quick else 4)}[d]

# ------------------------------------------------------------------------------------------------------------
# memory layouts and multi-step pipelines

LAYOUTS = ['F', 'T', 'neg', 'strided']
LAYOUT_TXT = {'C': 'C-contiguous array', 'F': 'Fortran-ordered array', 'T': 'transposed view of a C-contiguous array',
              'neg': 'view with negative strides along every axis', 'strided': 'every other cell of a larger NaN-filled array (grids strided too)'}
PULSE_BY = {(d, dest): (k, name, pat) for k, (name, d, dest, pat) in enumerate(PULSES)}
DYADIC_CLASSES = ('zero', 'onehot', 'interior', 'face', 'ongrid')
OTHER_CLASSES = ['face', 'onehot', 'ongrid', 'decimal', 'ulp']
STEP_KEYS = ('op', 'fn', 'grids', 'ps', 'arg', 'k', 'dest', 'pat', 'cls', 'shared', 'commute')

def rand_perm(rng, d):
    """a non-identity permutation of range(d) (d >= 2)"""
    while True:
        p = list(range(d)); rng.shuffle(p)
        if p != list(range(d)):
            return p

def step_of(c):
    return {k_: c[k_] for k_ in STEP_KEYS if k_ in c}

def commuted(name, ps, order):
    """the pulse g and its proportions with  name(reorder_pops(b, order), ps) == reorder_pops(g(b, ps_g), order):
    axis i of the reordered density is axis order[i]-1 of b; the proportion parameters of every pulse function are those of the
    non-destination axes in increasing order"""
    _, d, dest, _ = [t for t in PULSES if t[0] == name][0]
    src = dict(zip([a for a in range(d) if a != dest], ps))
    dest_g = order[dest] - 1
    _, g, _ = PULSE_BY[(d, dest_g)]
    return g, [src[order.index(a + 1)] for a in range(d) if a != dest_g]

def with_layout(rng, c, layout):
    c['layout'] = layout
    if layout == 'T':
        c['perm'] = rand_perm(rng, len(c['shape']))
    return c

def reorder_step(order):
    return dict(op='reorder', fn='reorder_pops', grids=[], ps=[], arg=list(order), cls='reorder', shared=True)

def pipe_after_reorder(rng, c, tail=(), label=None):
    """reorder_pops(b, order) -> the call described by the single-step case c [-> tail steps]; b is chosen so that the
    reordered view holds exactly c['phi'] (all axes of c have the same length)"""
    d = len(c['shape'])
    order = [a + 1 for a in rand_perm(rng, d)]
    inv = [int(i) for i in np.argsort([o - 1 for o in order])]
    base = np.array(c['phi'], dtype=float).reshape(c['shape']).transpose(inv)
    main = step_of(c)
    if c['op'] == 'pulse' and c.get('shared') and c['cls'] in DYADIC_CLASSES:
        g, psg = commuted(c['fn'], c['ps'], order)
        main['commute'] = {'fn': g, 'ps': psg}
    steps = [reorder_step(order), main] + list(tail)
    return dict(pipe=label or ' -> '.join(s_['fn'] for s_ in steps), layout='C', shape=[int(n) for n in base.shape],
                phi=[float(t) for t in np.ascontiguousarray(base).ravel()], steps=steps, fn=c['fn'], cls=c['cls'], dens=c['dens'],
                op=c['op'], main=1)

def pulse_step(rng, name, g, cls='interior'):
    k, (_, d, dest, pat) = [(i, t) for i, t in enumerate(PULSES) if t[0] == name][0]
    return dict(op='pulse', k=k, fn=name, grids=[list(g)] * d, ps=props_of(rng, cls, NPROPS[name], pat, g), cls=cls, shared=True,
                dest=dest, pat=pat)

def pipe_cons_reorder_pulse(rng, quick, name, dens, ci):
    """constructor (d-1 -> d populations) -> reorder_pops -> pulse `name` (d populations), one shared grid"""
    _, d, dest, pat = [t for t in PULSES if t[0] == name][0]
    if d == 2:
        n = rng.randint(4, 8)
        g = numgen.grid(rng, n)
        first = dict(op='split12', fn='phi_1D_to_2D', grids=[list(g)], ps=[], cls='split12', shared=True)
        shape = [n]
    else:
        cands = [(k, t) for k, t in enumerate(CONS) if t[1] == d - 1]
        k, (cname, cd, _, cpat) = cands[ci % len(cands)]
        n = npts(rng, d, quick)
        g = numgen.grid(rng, n)
        m = NPROPS[cname]
        first = dict(op='cons', k=k, fn=cname, grids=[list(g)] * (1 if m == 0 else cd + 1), ps=props_of(rng, 'interior', m, cpat, g),
                     cls='interior' if m else 'zero', shared=True, dest=None, pat=cpat)
        shape = [n] * cd
    order = [a + 1 for a in rand_perm(rng, d)]
    main = pulse_step(rng, name, g)
    gname, psg = commuted(name, main['ps'], order)
    main['commute'] = {'fn': gname, 'ps': psg}
    steps = [first, reorder_step(order), main]
    return dict(pipe=' -> '.join(s_['fn'] for s_ in steps), layout='C', shape=shape, phi=density(rng, int(np.prod(shape)), dens),
                steps=steps, fn=name, cls='interior', dens=dens, op='pulse', main=2)

def layout_block(rng, quick, op, k, name, d, dest, pat, fi, rot, pool=False):
    """every memory layout and pipeline for one constructor / pulse function (see the module docstring)"""
    m = NPROPS[name]
    out = []
    t = [fi + rot]
    def dens(exclude=()):
        while True:
            t[0] += 1
            dn = DENS[t[0] % len(DENS)]
            if dn not in exclude:
                return dn
    def mk(cls, dn=None):
        return admix_case(rng, quick, op, k, name, d, dest, pat, cls if m else 'zero', dn or dens(), True)
    def remove_tail(c):
        return [dict(op='remove', fn='remove_pop', grids=[list(c['grids'][0])], ps=[], arg=rng.randint(1, d), cls='remove', shared=True)]
    classes = VALID if pool else ['interior']
    for cls in (classes if m else ['zero']):
        for layout in LAYOUTS:
            out.append(with_layout(rng, mk(cls), layout))
        c = mk(cls)
        out.append(pipe_after_reorder(rng, c, tail=remove_tail(c) if op == 'pulse' else ()))
    if m and not pool:
        # identity at proportion 0 on the reordered view; one more proportion class on a rotating layout
        out.append(pipe_after_reorder(rng, mk('zero')))
        cls = OTHER_CLASSES[(fi + rot) % len(OTHER_CLASSES)]
        lay = (LAYOUTS + ['reorder'])[(fi + rot) % 5]
        c = mk(cls)
        out.append(pipe_after_reorder(rng, c) if lay == 'reorder' else with_layout(rng, c, lay))
    if op == 'pulse':
        for rep in range(2 if pool else 1):
            # two deposits in a row multiply the entries by up to (2 / smallest spacing)^2: not on the 2^996 densities
            out.append(pipe_cons_reorder_pulse(rng, quick, name, dens(exclude=('huge',)), fi + rot + rep))
    if pool:
        for c in out:
            c['pool'] = True
    return out

def manip_layout_cases(rng, rot):
    """remove_pop / filter_pops / reorder_pops / phi_1D_to_2D on every layout, d rotating over 2..5 (1-D: negative stride and
    strided), and after reorder_pops"""
    out = []
    t = rot
    def shape_of(d):
        hi = {1: 9, 2: 7, 3: 5, 4: 4, 5: 3}[d]
        return [rng.randint(2, hi) for _ in range(d)], hi
    def mk(fn, d, dens):
        shape, hi = shape_of(d)
        if fn == 'remove_pop':
            pop = rng.randint(1, d)
            return dict(op='remove', fn=fn, shape=shape, grids=[numgen.grid(rng, shape[pop - 1]) if shape[pop - 1] >= 3 else [0.0, 1.0]],
                        ps=[], phi=density(rng, int(np.prod(shape)), dens), arg=pop, cls='remove', dens=dens, shared=True)
        if fn == 'reorder_pops':
            return dict(op='reorder', fn=fn, shape=shape, grids=[], ps=[], phi=density(rng, int(np.prod(shape)), dens),
                        arg=[a + 1 for a in rand_perm(rng, d)] if d >= 2 else [1], cls='reorder', dens=dens, shared=True)
        if fn == 'filter_pops':
            n = rng.randint(3, hi + 1)
            keep = sorted(rng.sample(range(1, d + 1), rng.randint(1, d - 1)))
            if rng.random() < 0.5:
                rng.shuffle(keep)
            return dict(op='filter', fn=fn, shape=[n] * d, grids=[numgen.grid(rng, n)], ps=[], phi=density(rng, n ** d, dens),
                        arg=keep, cls='filter', dens=dens, shared=True)
        n = rng.randint(3, 9)
        return dict(op='split12', fn='phi_1D_to_2D', shape=[n], grids=[numgen.grid(rng, n)], ps=[], phi=density(rng, n, dens),
                    cls='split12', dens=dens, shared=True)
    for fi, fn in enumerate(['remove_pop', 'filter_pops', 'reorder_pops']):
        for li, layout in enumerate(LAYOUTS):
            t += 1
            out.append(with_layout(rng, mk(fn, 2 + (fi + li + rot) % 4, DENS[t % len(DENS)]), layout))
        # the view handed back by reorder_pops (filter: equal axis lengths; remove / reorder: any shape)
        t += 1
        c = mk(fn, 2 + (fi + rot + 1) % 4, DENS[t % len(DENS)])
        order = [a + 1 for a in rand_perm(rng, len(c['shape']))]
        inv = [int(i) for i in np.argsort([o - 1 for o in order])]
        base = np.array(c['phi'], dtype=float).reshape(c['shape']).transpose(inv)
        steps = [reorder_step(order), step_of(c)]
        out.append(dict(pipe='reorder_pops -> ' + fn, layout='C', shape=[int(n) for n in base.shape],
                        phi=[float(x) for x in np.ascontiguousarray(base).ravel()], steps=steps, fn=fn, cls=c['cls'], dens=c['dens'],
                        op=c['op'], main=1))
    for fn in ('remove_pop', 'phi_1D_to_2D'):
        for layout in ('neg', 'strided'):
            t += 1
            out.append(with_layout(rng, mk(fn, 1, DENS[t % len(DENS)]), layout))
    return out

def to_payload(c):
    if 'steps' in c:
        return {'id': c['id'], 'layout': c.get('layout', 'C'), 'perm': c.get('perm'), 'shape': c['shape'], 'phi': c['phi'],
                'steps': [{k_: v for k_, v in s_.items() if k_ in ('op', 'fn', 'grids', 'ps', 'arg', 'commute')} for s_ in c['steps']]}
    return {'id': c['id'], 'layout': c.get('layout', 'C'), 'perm': c.get('perm'), 'shape': c['shape'], 'phi': c['phi'],
            'steps': [{k_: c[k_] for k_ in ('op', 'fn', 'grids', 'ps', 'arg') if k_ in c}]}

def expand(cases, byid):
    """one unit per evaluated step: (virtual single-step case holding the logical content that step received, the step's
    result, the generated case, step index).  A step's input is what the real code returned for the step before."""
    units = []
    for c in cases:
        r = byid[c['id']]
        if r.get('crashed'):
            units.append((dict(c, uid=len(units), ps=c.get('ps', [])), r, c, 0))
            continue
        if 'steps' not in c:
            units.append((dict(c, uid=len(units)), r['steps'][0], c, 0))
            continue
        phi, shape = c['phi'], c['shape']
        for j, st in enumerate(c['steps']):
            if j >= len(r['steps']):
                break
            rr = r['steps'][j]
            vc = dict(st)
            vc.update(phi=phi, shape=shape, dens=c['dens'], pipe=c['pipe'], step=j, uid=len(units), layout=c.get('layout', 'C') if j == 0 else 'obj')
            if c.get('pool'):
                vc['pool'] = True
            units.append((vc, rr, c, j))
            if rr.get('raised') or rr.get('crashed'):
                break
            phi, shape = rr['res'], rr['shape']
    return units

def where(vc, top, j):
    """function + layout + proportions of the failing step, for the violation text"""
    if 'steps' in top:
        calls = []
        for s_ in top['steps'][:j + 1]:
            calls.append('%s(%s)' % (s_['fn'], ', '.join(([repr(s_['ps'])] if s_.get('ps') else []) + ([repr(s_['arg'])] if 'arg' in s_ else []))))
        return ' [step %d of the pipeline %s, each call receiving the object the call before returned]' % (j + 1, ' -> '.join(calls))
    if top.get('layout', 'C') != 'C':
        return ' [density passed as %s%s]' % (LAYOUT_TXT[top['layout']], ' axes %r' % top['perm'] if top.get('perm') else '')
    return ''

def gen_cases(ctx, refused=()):
    rng = ctx.rng
    cases = []
    reps = ctx.pick(1, 12)
    sweeps = ctx.pick(1, 3)
    rot = rng.randrange(len(DENS))
    def add(**c):
        c['id'] = len(cases); cases.append(c)
    fi = 0
    for table, op in ((PULSES, 'pulse'), (CONS, 'cons')):
        for k, (name, d, dest, pat) in enumerate(table):
            m = NPROPS[name]
            fi += 1
            classes = CLASSES if m > 0 else ['zero']
            for rep in range(reps):
                # every proportion class (and per-axis grids) once, the density kinds rotating through them
                for ci, cls in enumerate(classes):
                    add(**admix_case(rng, ctx.quick, op, k, name, d, dest, pat, cls, DENS[(fi + ci + rot + rep) % len(DENS)], True))
                if m > 0:
                    add(**admix_case(rng, ctx.quick, op, k, name, d, dest, pat, 'interior', DENS[(fi + rot + rep + 3) % len(DENS)], False))
            # every sign-changing / extreme density kind under a proportion class the code must accept (values are compared)
            for rep in range(sweeps):
                for j, dens in enumerate(SIGNED):
                    cls = VALID[(fi + j + rot + rep) % len(VALID)] if m > 0 else 'zero'
                    add(**admix_case(rng, ctx.quick, op, k, name, d, dest, pat, cls, dens, True))
            # memory layouts / pipelines: every function, on every run
            for rep in range(ctx.pick(1, 3)):
                for c in layout_block(rng, ctx.quick, op, k, name, d, dest, pat, fi + rep, rot):
                    add(**c)
            # refusal guards: every function with a proportion parameter, on every run
            if m > 0:
                for c in guard_cases(rng, ctx.quick, op, k, name, d, dest, pat, reps=ctx.pick(1, 3)):
                    add(**c)
            if name in refused:
                for c in pool_cases(rng, ctx.quick, op, k, name, d, dest, pat, reps=ctx.pick(1, 2)):
                    add(**c)
                for c in layout_block(rng, ctx.quick, op, k, name, d, dest, pat, fi, rot, pool=True):
                    add(**c)
    t = rot
    for rep in range(ctx.pick(1, 3) * len(DENS)):
        n = rng.randint(3, 9)
        dens = DENS[(t + rep) % len(DENS)]
        add(op='split12', fn='phi_1D_to_2D', shape=[n], grids=[numgen.grid(rng, n)], ps=[], phi=density(rng, n, dens),
            cls='split12', dens=dens, shared=True)
    t = rot
    for d in range(1, 6):
        for rep in range(2 * reps):
            # 10 cases per function and run over d = 1..5: every density kind reaches remove / reorder / filter
            dens = DENS[t % len(DENS)]; t += 1
            hi = {1: 9, 2: 7, 3: 5, 4: 4, 5: 3}[d]
            shape = [rng.randint(2, hi) for _ in range(d)]
            size = int(np.prod(shape))
            pop = rng.randint(1, d)
            add(op='remove', fn='remove_pop', shape=shape, grids=[numgen.grid(rng, shape[pop - 1]) if shape[pop - 1] >= 3 else [0.0, 1.0]],
                ps=[], phi=density(rng, size, dens), arg=pop, cls='remove', dens=dens, shared=True)
            # reorder: valid permutations and malformed orders
            if rng.random() < 0.75:
                order = list(range(1, d + 1)); rng.shuffle(order)
            else:
                order = [rng.randint(0, d + 1) for _ in range(rng.choice([d, d, d - 1, d + 1]))]
            add(op='reorder', fn='reorder_pops', shape=shape, grids=[], ps=[], phi=density(rng, size, dens), arg=order,
                cls='reorder', dens=dens, shared=True)
            # filter_pops: d = 2..5 gives 8 cases; the kinds missed by the rotation are added at d = 2 below
            if d >= 2:
                n = rng.randint(3, hi + 1)
                keep = sorted(rng.sample(range(1, d + 1), rng.randint(1, d)))
                if rng.random() < 0.5:
                    rng.shuffle(keep)
                add(op='filter', fn='filter_pops', shape=[n] * d, grids=[numgen.grid(rng, n)], ps=[], phi=density(rng, n ** d, dens),
                    arg=keep, cls='filter', dens=dens, shared=True)
    for rep in range(ctx.pick(1, 3)):
        for c in manip_layout_cases(rng, rot + rep):
            add(**c)
    seen = set(c['dens'] for c in cases if c['op'] == 'filter' and 'steps' not in c and 'layout' not in c)
    for dens in DENS:
        if dens not in seen:
            n = rng.randint(3, 7)
            add(op='filter', fn='filter_pops', shape=[n, n], grids=[numgen.grid(rng, n)], ps=[], phi=density(rng, n * n, dens),
                arg=[rng.randint(1, 2)], cls='filter', dens=dens, shared=True)
    return cases

# ------------------------------------------------------------------------------------------------------------
# property predicates, evaluated on the implementation's output

def trap_w(g):
    g = np.asarray(g, dtype=float)
    w = np.zeros(len(g))
    dx = np.diff(g)
    w[:-1] += dx / 2; w[1:] += dx / 2
    return w

def marg(a, g, axis):
    return np.tensordot(a, trap_w(g), axes=([axis], [0]))

def in_simplex(ps):
    return all(p >= 0 for p in ps) and sum(Fraction(p) for p in ps) <= 1

def model_ps(c):
    """proportions handed to the exact model and used by the exact acceptance predicates.  For the 'decimal' class the float64
    values of e.g. (0.9, 0.1) sum to 1 + 2.8e-17 as real numbers although every float evaluation of the source (0.9 + 0.1 > 1 ?)
    sees exactly 1: the implementation receives the decimal values, the exact side receives the same vector with its largest
    entry lowered by the fewest ulps that make the exact sum <= 1 (a perturbation <= 2.3e-16, far below the 1e-10 tolerance:
    the deposit is continuous in the proportions)."""
    ps = list(c['ps'])
    if c.get('cls') != 'decimal' or not ps:
        return ps
    j = max(range(len(ps)), key=lambda i: ps[i])
    for _ in range(8):
        if sum(Fraction(p) for p in ps) <= 1:
            break
        ps[j] = float(np.nextafter(ps[j], 0.0))
    return ps

def _rec(ctx, dev, sc):
    """largest deviation of a conservation predicate that holds, relative to its scale (evidence: margin to 1e-12)"""
    if 0 < dev <= PTOL * sc:
        ctx.err('predicate', int(math.ceil(math.log2(dev / sc))), '1e-12 of max |incoming entry|')

def predicates(ctx, c, r):
    """returns list of (what, key) for every clause of the property that fails on this case"""
    bad = []
    op = c['op']
    # scale: max |incoming entry|.  The trapezoid weights of a grid on [0,1] are non-negative and sum to 1, so this
    # bounds the sum of the absolute contributions to every marginal: a marginal that cancels (sign-changing density)
    # is still judged against what went into it, never against its own (possibly tiny) value.
    sc = max(abs(x) for x in c['phi']) or 1.0
    ps = c['ps']
    if op in ('pulse', 'cons') and NPROPS[c['fn']] > 0:
        mps = model_ps(c)
        above = sum(Fraction(p) for p in mps) > 1
        inside = in_simplex(mps)
        mref = model_refuses(c['pat'], mps)       # the model's guard: rejected (desc_args p ps), exact
        sub = (' [guard class %s]' % c['gsub']) if c.get('gsub') else ''
        if above and not r['raised'] and op == 'pulse':
            if mref:
                # the modelled guard (the one of the unchanged source) refuses this vector: not the listed finding of the pulses
                # into a non-last population (their modelled guard accepts)
                bad.append(('%s accepts proportions %r summing above 1 (no ValueError); the modelled guard of this function refuses them '
                            '(C06_rejection_characterised)%s' % (c['fn'], ps, sub), None, (c['fn'], 'accepts-above-one', min(ps) >= 0), 0 if min(ps) >= 0 else 1))
            else:
                bad.append(('%s accepts proportions %r summing above 1 (no ValueError)' % (c['fn'], ps), 'sum-above-one-not-rejected:' + c['fn']))
        elif inside and r['raised']:
            bad.append(('%s rejects the proportion vector %r, which lies in the simplex: %s%s' % (c['fn'], ps, r.get('error'), sub), None,
                        (c['fn'], 'rejects-simplex'), 0))
        elif mref and not r['raised']:
            bad.append(('%s accepts the proportion vector %r (no ValueError), which its modelled guard refuses (%s)%s' % (
                c['fn'], ps, 'C06_rejection_characterised' if op == 'pulse' else 'C06_constructor_rejection_characterised', sub), None,
                (c['fn'], 'accepts-where-model-refuses'), 1))
        elif r['raised'] and not mref:
            bad.append(('%s refuses the proportion vector %r (outside the simplex), which its modelled guard accepts: the set of refused '
                        'vectors is not the modelled one: %s%s' % (c['fn'], ps, r.get('error'), sub), None, (c['fn'], 'refuses-where-model-accepts'), 2))
        if above or r['raised'] or not inside:
            return bad        # conservation is claimed on the simplex
    if r['raised']:
        return bad
    if not c.get('shared', True) and op == 'pulse' and c['fn'] in OTHER_GRID:
        return bad        # passes another axis' grid: conservation is claimed on shared grids only (faithfully modelled)
    out = np.array(r['res'], dtype=float).reshape(r['shape'])
    phi = np.array(c['phi'], dtype=float).reshape(c['shape'])
    if not np.all(np.isfinite(out)):
        bad.append(('%s returns non-finite values for proportions %r' % (c['fn'], ps), None))
        return bad
    if op == 'cons' or op == 'split12':
        g = c['grids'][-1]
        m = marg(out, g, out.ndim - 1)
        dev = np.abs(m - phi)
        _rec(ctx, dev.max(), sc)
        if dev.max() > PTOL * sc:
            key = None
            if op == 'split12':
                interior = dev[1:-1].max() if len(dev) > 2 else 0.0
                if interior <= PTOL * sc:
                    key = 'phi_1D_to_2D-drops-boundary-density'
            bad.append(('%s: integrating the new population out does not return the parental density (max dev %.3g at index %s, scale %.3g)' % (
                c['fn'], dev.max(), [int(t) for t in np.unravel_index(int(dev.argmax()), dev.shape)], sc), key))
        if op == 'cons':
            # support of every deposited column brackets the ad-mixed frequency; a pure split is a copy
            cs = [Fraction(x) for x in coefs(c['pat'], ps)]
            gl = [c['grids'][0]] * 3 if 'split' in c['fn'] else c['grids']
            gr = [[Fraction(x) for x in gg] for gg in gl]
            zz = gr[-1]
            w = trap_w(c['grids'][-1])
            for ix in itertools.product(*[range(n) for n in phi.shape]):
                if phi[ix] == 0:
                    continue
                adz = sum(cc * gr[j][ix[j]] for j, cc in enumerate(cs))
                col = out[ix]
                nz = [kk for kk in range(len(zz)) if col[kk] != 0]
                okb = all(zz[max(kk - 1, 0)] - Fraction(1, 10 ** 14) <= adz <= zz[min(kk + 1, len(zz) - 1)] + Fraction(1, 10 ** 14) for kk in nz) and len(nz) <= 2
                if not okb:
                    bad.append(('%s: entry %r (ad-mixed frequency %s) is deposited at grid indices %r, which do not bracket it' % (
                        c['fn'], list(ix), float(adz), nz), None))
                    break
                onehot = [j for j, cc in enumerate(cs) if cc == 1]
                if len(onehot) == 1 and all(cc in (0, 1) for cc in cs) and gl[onehot[0]] == gl[-1]:
                    j = ix[onehot[0]]
                    want = np.zeros(len(zz)); want[j] = phi[ix] / w[j]
                    if np.abs(col - want).max() > PTOL * max(abs(want[j]), sc):
                        bad.append(('%s: a pure split does not copy the parent: entry %r gives column %r, expected %r' % (
                            c['fn'], list(ix), col.tolist(), want.tolist()), None))
                        break
    elif op == 'pulse':
        k = c['dest']
        g = c['grids'][k]
        dev = np.abs(marg(out, g, k) - marg(phi, g, k))
        _rec(ctx, dev.max() if dev.size else 0.0, sc)
        if dev.size and dev.max() > PTOL * sc:
            bad.append(('%s with proportions %r changes the joint density of the other populations (destination integrated out): max dev %.3g, scale %.3g' % (
                c['fn'], ps, dev.max(), sc), None))
        if all(p == 0 for p in ps):
            dev = np.abs(out - phi)
            _rec(ctx, dev.max(), sc)
            if dev.max() > PTOL * sc:
                bad.append(('%s at proportion 0 is not the identity: max dev %.3g, scale %.3g' % (c['fn'], dev.max(), sc), None))
    elif op == 'remove':
        want = marg(phi, c['grids'][0], c['arg'] - 1)
        if list(want.shape) == r['shape']:
            _rec(ctx, float(np.abs(out - want).max()) if want.size else 0.0, sc)
        if list(want.shape) != r['shape'] or np.abs(out - want).max() > PTOL * sc:
            bad.append(('remove_pop(popnum=%d) is not the trapezoid marginal over that population' % c['arg'], None))
    elif op == 'filter':
        want = phi
        for p in sorted(set(range(1, phi.ndim + 1)) - set(c['arg']), reverse=True):
            want = marg(want, c['grids'][0], p - 1)
        if list(np.shape(want)) != r['shape'] or np.abs(out - want).max() > PTOL * sc:
            bad.append(('filter_pops(tokeep=%r) is not the trapezoid marginal over the other populations' % (c['arg'],), None))
    elif op == 'reorder':
        no = c['arg']
        okshape = r['shape'] == [phi.shape[a - 1] for a in no]
        oke = okshape and all(out[tuple(ix[a - 1] for a in no)] == phi[ix] for ix in itertools.product(*[range(n) for n in phi.shape]))
        if not oke:
            bad.append(('reorder_pops(%r) is not the axis permutation' % (no,), None))
    return bad

def layout_predicates(ctx, c, r):
    """the two predicates that involve the memory layout, on the real code: (1) the result is a function of the logical content
    (same result on a fresh C-contiguous copy); (2) reordering commutes with the pulse.  Scale: the largest |entry| of the
    result (a deposit multiplies entries by up to 2 / spacing) or of the incoming density, whichever is larger."""
    bad = []
    if r.get('raised') or r.get('crashed') or 'res' not in r:
        return bad
    out = np.array(r['res'], dtype=float)
    fin = out[np.isfinite(out)]
    sc = max(max(abs(x) for x in c['phi']) or 1.0, float(np.abs(fin).max()) if fin.size else 0.0)
    if 'layout_error' in r:
        bad.append(('%s accepts this density but fails on a C-contiguous copy of the same content: %s' % (c['fn'], r['layout_error']), None))
    elif 'layout_shape' in r:
        bad.append(('%s: the shape of the result depends on the memory layout of the density (%r vs %r on a C-contiguous copy)' % (
            c['fn'], r['shape'], r['layout_shape']), None))
    elif r.get('layout_dev') is not None:
        dev = r['layout_dev']
        if dev == dev and dev <= PTOL * sc:
            _rec(ctx, dev, sc)
        else:
            bad.append(('%s: result depends on the memory layout of the density: proportions %r, max dev %.3g from the result on a '
                        'C-contiguous copy of the same content, at index %r, scale %.3g' % (c['fn'], c.get('ps'), dev, r.get('layout_at'), sc), None))
    if 'commute_error' in r:
        bad.append(('%s with proportions %r after reorder_pops: the permuted pulse %s%r on the density before the reorder fails: %s' % (
            c['fn'], c['ps'], c['commute']['fn'], c['commute']['ps'], r['commute_error']), None))
    elif 'commute' in r:
        alt = np.array(r['commute'], dtype=float)
        if r.get('commute_shape') != r['shape']:
            dev = float('inf')
        else:
            dv = np.abs(alt - out)
            dev = float(dv.max()) if dv.size and np.all(np.isfinite(dv)) else (0.0 if not dv.size else float('inf'))
        if dev <= PTOL * sc:
            _rec(ctx, dev, sc)
        else:
            bad.append(('%s: reordering does not commute with the pulse: with proportions %r on the result of reorder_pops it differs from '
                        'reorder_pops of %s with proportions %r on the density before the reorder: max dev %.3g, scale %.3g' % (
                            c['fn'], c['ps'], c['commute']['fn'], c['commute']['ps'], dev, sc), None))
    return bad

def valid_order(no, d):
    return sorted(no) == list(range(1, d + 1))

# ------------------------------------------------------------------------------------------------------------

def coq_case(c, r, valcmp):
    op = c['op']
    optxt = {'pulse': lambda: 'OpPulse %d' % c['k'], 'cons': lambda: 'OpCons %d' % c['k'], 'split12': lambda: 'OpSplit12',
             'remove': lambda: 'OpRemove %d' % c['arg'], 'filter': lambda: 'OpFilter %s' % natl(c['arg']),
             'reorder': lambda: 'OpReorder %s' % natl(c['arg'])}[op]()
    concl = bool(valcmp and op in ('pulse', 'cons') and (c.get('shared') or c['fn'] not in OTHER_GRID))
    if not valcmp and op in ('pulse', 'cons'):
        # accept / refuse decision only: mcheck_guard evaluates rejected (desc_args p ps) and nothing else (C06_guard_check_is_the_model)
        return ('{| mc_op := %s; mc_shape := %s; mc_grids := []; mc_ps := %s; mc_phi := []; mc_valcmp := false; mc_concl := false; '
                'mc_raised := %s; mc_ishape := []; mc_impl := [] |}') % (optxt, natl(c['shape']), zzl(model_ps(c)), b(r['raised']))
    return ('{| mc_op := %s; mc_shape := %s; mc_grids := [%s]; mc_ps := %s; mc_phi := %s; mc_valcmp := %s; mc_concl := %s; mc_raised := %s; '
            'mc_ishape := %s; mc_impl := %s |}') % (
        optxt, natl(c['shape']), '; '.join(zzl(g) for g in c['grids']), zzl(model_ps(c)), zzl(c['phi']), b(valcmp), b(concl), b(r['raised']),
        natl(r['shape']) if valcmp else '[]', zzl(r['res']) if valcmp else '[]')

def strip(c):
    return {k: v for k, v in c.items() if not k.startswith('_')}

def run(ctx):
    ctx.rule = ('cases = (function among the 5 constructors, phi_1D_to_2D, the 14 pulse functions, remove/filter/reorder; d = 1..5; '
                'one random dyadic grid (uniform / exponential / quadratic / random) shared by all axes, or per-axis grids of equal length; '
                'proportion class among zero / one-hot / simplex interior / simplex face / dyadic halves-quarters on a uniform grid (ad-mixed '
                'frequencies exactly on grid points) / non-dyadic with float ad-mixed frequency one ulp above 1 / summing above 1; density kind '
                'among non-negative / every entry non-zero with both signs / half exact zeros with both signs / negative everywhere / a single '
                'non-zero cell / sign-changing scaled by 2^-997 (~1e-300) / sign-changing scaled by 2^996 (~1e300)) drawn from one PRNG; '
                'every function meets every proportion class, per-axis grids and every density kind on every run (kinds rotate through the '
                'classes, plus one case per sign-changing kind under an accepted class); a function whose translator obligation breaks is '
                'additionally run on 7 densities x 7 classes x shared/per-axis grids; every function is also run, on every run, on the same '
                'logical content held Fortran-ordered / as a transposed view / with negative strides / as every other cell of a larger '
                'NaN-filled array, and on the object returned by the call before in the pipelines reorder_pops -> f, reorder_pops -> pulse -> '
                'remove_pop, constructor -> reorder_pops -> pulse (each step one case; an untied function gets these for every accepted class); '
                'REFUSAL GUARDS, every run, every pulse function and every constructor with a proportion parameter (guard_vectors): '
                'proportion vectors inside the simplex / on its boundary (one-hot, sum exactly 1, with zero entries, origin, sum = 1 - 2^-52) / '
                'just outside (sum = 1 + 2^-52, 1 + 2^-46, 1 + 2^-40, the excess at every position; one-hot 1 + 2^-52) / clearly outside in '
                'every pattern "first k entries fine, entry k+1 tips the sum over 1" (later entries zero or positive; first k summing to '
                'exactly 1), all entries equal with every m-1 of them summing to at most 1, excess 1/64 and 1/4 at every position / negative '
                'entries (sum below 1, -2^-52, sum above 1, cancelling an entry above 1) / entries above 1; every vector exact in every '
                'float64 operation of the source\'s test; predicate on the real code: ValueError exactly when the modelled guard refuses; '
                'distinct = distinct (function, shape, grids, proportions, density); non-trivial = not all proportions zero')
    ctx.assumptions += ['float64 output of the real code is compared with the model evaluated in 128-bit software floating point (NumD, exact comparisons) at 1e-10 relative to the largest entry',
                        'the deposit is continuous in the ad-mixed frequency across grid points, so a one-ulp difference between float and exact evaluation of the frequency changes the bracket but not the result beyond round-off',
                        'property predicates on the implementation use 1e-12 relative to the largest incoming entry',
                        'per-axis grids: only equal lengths (unequal lengths index out of bounds in the 4-D/5-D pulse functions that pass another axis\' grid); conservation is claimed for shared grids or own-grid wiring']
    ctx.assumptions += ['memory layout is outside the model (a density is its logical content); the implementation is tied to it by running every '
                        'function on non-contiguous holders of the same content and on the views handed from one PhiManip call to the next, comparing '
                        'the returned density (pulses are documented in-place: the returned object is the argument, recorded in the input distribution)',
                        'layout predicates (same result on a C-contiguous copy; reorder commutes with the pulse, dyadic proportions only) use 1e-12 '
                        'of max(largest incoming |entry|, largest returned |entry|)']
    ctx.trusted += ['numpy fancy-index assignment, broadcasting, searchsorted and transpose semantics are covered by the correspondence check only']
    untied = translator_obligations(ctx) or {}
    cases = gen_cases(ctx, refused=set(untied))
    if ctx.replay:
        rp = json.load(open(ctx.replay))
        if rp.get('input') and 'case' in rp['input']:
            c = rp['input']['case']; c['id'] = 0
            cases = [c]
    res = lib.run_impl('c06_impl.py', [to_payload(c) for c in cases], timeout=1200)
    units = expand(cases, {r['id']: r for r in res})
    byid = {}
    tops = {}
    cases = []
    for vc, r, top, j in units:
        vc['id'] = vc.pop('uid')
        byid[vc['id']] = r; tops[vc['id']] = (top, j)
        cases.append(vc)
    exprs = []
    mirror = {}
    nonexact = []
    npred = {}
    reported = set()
    for c in cases:
        r = byid[c['id']]
        top, j = tops[c['id']]
        vdata = {'case': strip(top), 'step': j, 'impl': {k_: v for k_, v in r.items() if k_ != 'commute'}}
        ctx.count('%s' % c['fn']); ctx.count('class=' + c['cls']); ctx.count('d=%d' % len(c['shape']))
        ctx.count('density=' + c.get('dens', '?')); ctx.count('%s density=%s' % (c['fn'], c.get('dens', '?')))
        if 'steps' in top:
            ctx.count('pipeline: ' + ' -> '.join(s_['op'] for s_ in top['steps']))
            if j == top['main']:
                ctx.count('%s after %s' % (c['fn'], ' -> '.join(s_['op'] for s_ in top['steps'][:j])))
        elif top.get('layout', 'C') != 'C':
            ctx.count('layout=' + top['layout']); ctx.count('%s layout=%s' % (c['fn'], top['layout']))
        if not r.get('crashed') and not r.get('raised'):
            if not (r.get('in_c') or r.get('in_f')):
                ctx.count('incoming array neither C- nor F-contiguous')
            elif not r.get('in_c'):
                ctx.count('incoming array F-contiguous only')
            if c['op'] == 'pulse':
                # documented: "alters phi in place and returns the new version"; the clauses are evaluated on the returned density
                ctx.count('pulse returns its argument object' if r.get('same_obj') else 'pulse returns another object')
                ctx.count('pulse argument holds the returned density' if r.get('arg_holds') else 'pulse argument differs from the returned density')
            if 'commute' in r:
                ctx.count('reorder commutes with the pulse: evaluated')
            if r.get('layout_dev') is not None:
                ctx.count('result vs result on a C-contiguous copy: evaluated')
        if not c.get('shared', True):
            ctx.count('per-axis grids')
        if c.get('pool'):
            ctx.count('pool after a broken translator obligation: ' + c['fn'])
        if c['cls'] == 'ulp':
            a = corner_adz(c['pat'], c['ps'])
            ctx.count('ulp: float ad-mixed frequency at the all-ones corner ' + ('> 1' if a > 1 else '< 1' if a < 1 else '= 1'))
        ctx.case(signature=None if (c['op'] in ('pulse', 'cons') and all(p == 0 for p in c['ps']) and NPROPS[c['fn']] > 0) else
                 json.dumps(strip(c), sort_keys=True),
                 sample={'fn': c['fn'], 'shape': c['shape'], 'grid0': (c['grids'] or [[]])[0], 'ps': c['ps'], 'cls': c['cls'], 'raised': r['raised'],
                         'out_head': (r.get('res') or [])[:6]} if c['id'] % 23 == 0 else None)
        if r.get('crashed'):
            ctx.obligation('%s case %d runs' % (c['fn'], c['id']), False, 'predicate', r['error'])
            ctx.violation('%s raised %s (proportions %r)%s' % (c['fn'], r['error'], c.get('ps'), where(c, top, j)), data=vdata)
            ctx.violations[-1]['prio'] = 0 if in_simplex(model_ps(c)) else 1
            continue
        finite = r['raised'] or all(math.isfinite(x) for x in r['res'])
        # --- property predicates on the implementation
        bad = [(tuple(t) + (None, 0))[:4] for t in predicates(ctx, c, r) + layout_predicates(ctx, c, r)]
        if c.get('guard'):
            ctx.count('guard stream: ' + c['gsub'].split(':')[0] + ' ' + ('refused' if r['raised'] else 'accepted'))
            ctx.count('guard stream: %s' % c['fn'])
            gexact = float_exact(c['pat'], c['ps'])
            if not gexact:
                nonexact.append((c['fn'], c['ps']))
        pname = {'pulse': 'marginals of the other populations / zero identity / acceptance', 'cons': 'new-population marginal / bracketing / copy / acceptance',
                 'split12': 'new-population marginal', 'remove': 'remove = marginalisation', 'filter': 'filter = marginalisation', 'reorder': 'reorder = permutation'}[c['op']]
        known = [t[1] for t in bad if t[1] is not None]
        ob = ctx.obligation('%s case %d (%s, %s density%s%s): %s' % (c['fn'], c['id'], ('guard ' + c['gsub']) if c.get('gsub') else c['cls'], c.get('dens', '?'),
                                                                   '' if c.get('shared', True) else ', per-axis grids',
                                                                   ', step %d of %s' % (j + 1, top['pipe']) if 'steps' in top else
                                                                   ', layout ' + top['layout'] if top.get('layout', 'C') != 'C' else '', pname),
                            not bad, 'predicate', '; '.join(t[0] for t in bad)[:400])
        if bad:
            ctx.obligations[-1]['known_key'] = known[0] if len(known) == len(bad) else None
        for what, key, tag, prio in bad:
            tag = key or tag or (c['fn'], what[:40])
            if tag in reported:
                continue
            reported.add(tag)
            ctx.violation(what + where(c, top, j), data=vdata, key=key)
            ctx.violations[-1]['prio'] = prio
        # --- correspondence
        above = c['op'] in ('pulse', 'cons') and NPROPS[c['fn']] > 0 and sum(Fraction(p) for p in model_ps(c)) > 1
        valcmp = finite and not above and not r['raised']
        if c['op'] in ('pulse', 'cons') and NPROPS[c['fn']] > 0:
            # values are compared on the simplex only (outside it the deposit may divide by a vanishing denominator; the property
            # claims nothing there beyond the refusal), and in the guard stream on the marked boundary vectors
            valcmp = valcmp and in_simplex(model_ps(c)) and (not c.get('guard') or bool(c.get('gval')))
            mirror[c['id']] = (valcmp, model_refuses(c['pat'], model_ps(c)), r['raised'])
        exprs.append((c['id'], coq_case(c, r, valcmp)))
    hdr = ('From Coq Require Import String.\nFrom Coq Require Import ZArith QArith List.\n'
           'From Dadi Require Import Base.Num Base.NumQ Base.NumD Model.Tridiag Model.Scheme Model.NDSweep Model.PhiManip Model.PhiManipCheck.\n'
           'Import ListNotations.\nOpen Scope Q_scope.')
    results = ctx.coq_cases('corr', hdr, exprs, '(mcheck_guard %s)' % q(TOL), 'rel 1e-10 of max |entry|', shard=ctx.pick(10, 24), timeout=1500)
    ctx.obligation('guard stream: every float64 operation of the source\'s proportion test is exact on every generated guard vector '
                   '(float test of the source = exact test of the model)', not nonexact, 'predicate', repr(nonexact[:3]))
    # the Python mirror of the refusal guard (used for the violation texts and the known-finding keys) against the Coq term: on a
    # decision-only case Coq's verdict is "model refuses = implementation raised"
    wrong = []
    for cid, (valcmp, mref, raised) in mirror.items():
        rr = results.get(cid)
        if rr is None or valcmp:
            continue
        coq_refuses = raised if rr[0] else not raised
        if coq_refuses != mref:
            wrong.append(cid)
    ctx.obligation('python mirror of the refusal guard = rejected (desc_args p ps) evaluated in Coq, on every decision-only case (%d)' % (
        sum(1 for v in mirror.values() if not v[0])), not wrong, 'predicate', 'cases %r' % wrong[:5])
    nbad = 0
    for c in cases:
        if c['id'] not in dict(exprs):
            continue
        rr = results.get(c['id'])
        ok = rr is not None and rr[0]
        ctx.obligation('corr case %d: %s %s %s d=%d' % (c['id'], c['fn'], c['cls'], c.get('dens', '?'), len(c['shape'])), ok, 'correspondence',
                       '' if ok else 'model != impl (coq result %r)' % (rr,))
        if not ok:
            nbad += 1
            if nbad <= 3 and not any(v['key'] is None and not v['no_input'] for v in ctx.violations):
                ctx.violation('%s (%s, proportions %r): the real code and the Coq model of PhiManip disagree; no clause of the property failed on any generated input%s' % (
                    c['fn'], c['cls'], c.get('ps'), where(c, *tops[c['id']])), data={'case': strip(tops[c['id']][0]), 'step': tops[c['id']][1], 'impl': byid[c['id']], 'coq': rr}, no_input=True,
                    broken='correspondence %s' % c['fn'])
    # a function whose source the translator no longer recognises: it was run on the rich pool above (7 densities x
    # 7 proportion classes x shared / per-axis grids) against the Coq model and the conservation predicates; only when
    # neither found anything is the broken obligation reported without a failing input
    for fn, obname in sorted(untied.items()):
        hit = [v for v in ctx.violations if not v['no_input'] and v['key'] is None and
               isinstance(v.get('data'), dict) and v['data'].get('case', {}).get('fn') == fn]
        if not hit:
            npool = sum(1 for c in cases if c.get('pool') and c['fn'] == fn)
            ctx.violation('%s is no longer tied to its Coq model (%s); %d pool inputs (densities %s%s) agree with the model and '
                          'satisfy every conservation predicate' % (
                              fn, obname, npool, '/'.join(DENS),
                              ' x proportion classes %s x shared / per-axis grids' % '/'.join(CLASSES) if NPROPS[fn] else ', no proportion parameter'),
                          data={'obligation': obname, 'function': fn, 'pool_cases': npool}, no_input=True, broken=obname)
    # failing inputs first; findings that carry a key (candidates for known_findings.json) after everything else
    ctx.violations.sort(key=lambda v: (0 if v['key'] is None else 1, 1 if v['no_input'] else 0, v.get('prio', 0)))
